package log

// Ghost file system for the log package (stub set "logfs"): a directory of byte images. mmap.File.Data IS the
// image (a shared mapping: stores reach the file at once, which is the process-kill model); Sync copies it to the
// durable image (what survives power loss).

import (
	"os"

	"github.com/santhosh-tekuri/raft/mmap"
)

//verif:stub logfs raft/log.segmentFile vSegmentFile
//verif:stub logfs raft/log.fileExists vFileExists
//verif:stub logfs-create raft/log.createSegment vCreateSegment
//verif:stub logfs-osfile os.OpenFile vOSOpenFile
//verif:stub logfs-osfile os.Rename vOSRename
//verif:stub logfs-osfile (*os.File).Truncate vOSTruncate
//verif:stub logfs-osfile (*os.File).WriteAt vOSWriteAt
//verif:stub logfs-osfile (*os.File).Sync vOSSync
//verif:stub logfs-osfile (*os.File).Close vOSClose
//verif:stub logfs-glob path/filepath.Glob vGlob
//verif:stub logfs-segments raft/log.segments vSegments
//verif:stub logfs os.Remove vRemove
//verif:stub logfs raft/mmap.OpenFile vMmapOpen
//verif:stub logfs (*raft/mmap.File).Sync vMmapSync
//verif:stub logfs (raft/mmap.File).Close vMmapClose
//verif:stub logfs (*raft/mmap.File).Name vMmapName

type vGFile struct {
	prev    uint64
	data    []byte // file content as the OS sees it (page cache / shared mapping)
	durable []byte // content guaranteed after power loss (as of the last msync / fsync)
	exists  bool
}

var (
	vFS      = map[string]*vGFile{}
	vMapNames   = map[*mmap.File]string{}
	vOrder   []string // creation order, for deterministic listing
	vCrashAt int
	vCrashN  int
	vCrashed string
)

type vCrash struct{ at string }

func vCrashPoint(id string) {
	vCrashN++
	if vCrashAt == vCrashN {
		vCrashed = id
		vReach("crash")
		vCrashNow()
	}
}

func vDecimal(v uint64) string {
	if v == 0 {
		return "0"
	}
	var b []byte
	for v > 0 {
		b = append([]byte{byte('0' + v%10)}, b...)
		v /= 10
	}
	return string(b)
}

func vSegmentFile(dir string, prevIndex uint64) string {
	p := vConcrete(prevIndex)
	name := dir + "/" + vDecimal(p) + ".log"
	if f, ok := vFS[name]; ok {
		f.prev = p
	}
	return name
}

func vFileExists(name string) (bool, error) {
	f, ok := vFS[name]
	return ok && f.exists, nil
}

func vCreateSegment(name string, opt Options) error {
	vCrashPoint("create.before")
	size := opt.SegmentSize
	f := &vGFile{data: make([]byte, size), durable: make([]byte, size), exists: true}
	// the real createSegment truncates to size, zeroes the last 16 bytes and fsyncs the file
	vFS[name] = f
	known := false
	for _, n := range vOrder {
		if n == name {
			known = true
		}
	}
	if !known {
		vOrder = append(vOrder, name)
	}
	vCrashPoint("create.after")
	return nil
}

// ---- stub set "logfs-osfile": the real createSegment runs; its system calls land here, each a crash point ----
// (stub set "logfs-create" replaces createSegment by the atomic model above instead: used by the power-loss
// harnesses, where what an unsynced new file looks like after the crash is a separate question.)

var vOSHandles = map[*os.File]string{}

func vRegister(name string, f *vGFile) {
	vFS[name] = f
	for _, n := range vOrder {
		if n == name {
			return
		}
	}
	vOrder = append(vOrder, name)
}

func vOSOpenFile(name string, flag int, perm os.FileMode) (*os.File, error) {
	vCrashPoint("create.before")
	f, ok := vFS[name]
	if !ok || !f.exists {
		if flag&os.O_CREATE == 0 {
			return nil, vIOError{"open: no such file"}
		}
		f = &vGFile{exists: true} // a new file is empty
		vRegister(name, f)
	} else if flag&os.O_TRUNC != 0 {
		f.data, f.durable = nil, nil
	}
	h := &os.File{}
	vOSHandles[h] = name
	vCrashPoint("create.empty-file-exists")
	return h, nil
}

func vOSTruncate(h *os.File, size int64) error {
	f := vFS[vOSHandles[h]]
	n := int(size)
	d := make([]byte, n)
	copy(d, f.data)
	f.data = d
	f.durable = make([]byte, n)
	vCrashPoint("truncate.after")
	return nil
}

func vOSWriteAt(h *os.File, b []byte, off int64) (int, error) {
	f := vFS[vOSHandles[h]]
	if int(off)+len(b) > len(f.data) {
		return 0, vIOError{"write beyond the end of the ghost file"}
	}
	copy(f.data[off:], b)
	return len(b), nil
}

func vOSSync(h *os.File) error {
	f := vFS[vOSHandles[h]]
	copy(f.durable, f.data)
	vCrashPoint("fsync.after")
	return nil
}

func vOSClose(h *os.File) error { return nil }

func vOSRename(oldname, newname string) error {
	f, ok := vFS[oldname]
	if !ok || !f.exists {
		return vIOError{"rename: no such file"}
	}
	vCrashPoint("rename.before")
	delete(vFS, oldname)
	if old, ok := vFS[newname]; ok {
		old.exists = false
	}
	vRegister(newname, f)
	for h, n := range vOSHandles {
		if n == oldname {
			vOSHandles[h] = newname
		}
	}
	vCrashPoint("rename.after")
	return nil
}

func vPrevOf(name string) uint64 {
	// "<dir>/<n>.log"
	i := len(name) - 5
	var v uint64
	mul := uint64(1)
	for ; i >= 0 && name[i] >= '0' && name[i] <= '9'; i-- {
		v += uint64(name[i]-'0') * mul
		mul *= 10
	}
	return v
}

// vGlob: what filepath.Glob(dir/*.log) lists: the existing "*.log" names, deliberately NOT in index order (newest
// first), so that the real segments() has to parse and sort them.
func vGlob(pattern string) ([]string, error) {
	var names []string
	for i := len(vOrder) - 1; i >= 0; i-- {
		name := vOrder[i]
		if f := vFS[name]; f != nil && f.exists && len(name) > 4 && name[len(name)-4:] == ".log" {
			names = append(names, name)
		}
	}
	return names, nil
}

func vSegments(dir string) ([]uint64, error) {
	var offs []uint64
	for _, name := range vOrder {
		if f := vFS[name]; f != nil && f.exists && len(name) > 4 && name[len(name)-4:] == ".log" {
			offs = append(offs, vPrevOf(name))
		}
	}
	// ascending
	for i := 1; i < len(offs); i++ {
		for j := i; j > 0 && offs[j-1] > offs[j]; j-- {
			offs[j-1], offs[j] = offs[j], offs[j-1]
		}
	}
	return offs, nil
}

func vRemove(name string) error {
	vCrashPoint("remove.before")
	if f, ok := vFS[name]; ok && f.exists {
		f.exists = false
		delete(vFS, name)
		vCrashPoint("remove.after")
		return nil
	}
	return vIOError{"remove: no such file"}
}

func vMmapOpen(name string, flag int, mode os.FileMode) (*mmap.File, error) {
	f, ok := vFS[name]
	if !ok || !f.exists {
		return nil, vIOError{"open: no such file"}
	}
	if len(f.data) == 0 {
		return nil, vIOError{"mmap: invalid argument (empty file)"} // mmap(2) of length 0 fails with EINVAL
	}
	mf := &mmap.File{Data: f.data}
	vMapNames[mf] = name
	return mf, nil
}

func vMmapSync(f *mmap.File) error {
	vCrashPoint("msync.before")
	if g, ok := vFS[vMapNames[f]]; ok {
		copy(g.durable, g.data)
	}
	vCrashPoint("msync.after")
	return nil
}

func vMmapClose(f mmap.File) error { return nil }
func vMmapName(f *mmap.File) string { return vMapNames[f] }

// vOpen is log.Open without the directory creation and the SegmentSize>=1024 option check
// (the arithmetic in segment.go is parametric in len(Data)).
func vOpen(dir string, opt Options) (*Log, error) {
	first, last, err := openSegments(dir, opt)
	if err != nil {
		return nil, err
	}
	return &Log{dir: dir, opt: opt, first: first, last: last}, nil
}

// vIOError: the os package's init is not run by the engine (os.ErrNotExist would be nil), so the ghost file system
// returns its own error values.
type vIOError struct{ s string }

func (e vIOError) Error() string { return e.s }
