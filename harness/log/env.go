package log

// Ghost file system for the log package (stub set "logfs"): a directory of byte images. mmap.File.Data IS the
// image (a shared mapping: stores reach the file at once, which is the process-kill model); Sync copies it to the
// durable image (what survives power loss).

import (
	"os"

	"github.com/santhosh-tekuri/raft/mmap"
)

//verif:stub logfs raft/log.segmentFile vSegmentFile
//verif:stub logfs raft/log.fileExists vFileExists
//verif:stub logfs raft/log.createSegment vCreateSegment
//verif:stub logfs raft/log.segments vSegments
//verif:stub logfs os.Remove vRemove
//verif:stub logfs raft/mmap.OpenFile vMmapOpen
//verif:stub logfs (*raft/mmap.File).Sync vMmapSync
//verif:stub logfs (raft/mmap.File).Close vMmapClose
//verif:stub logfs (*raft/mmap.File).Name vMmapName

type vGFile struct {
	prev    uint64
	data    []byte // file content as the OS sees it (page cache / shared mapping)
	durable []byte // content guaranteed after power loss (as of the last msync / fsync)
	exists  bool
}

var (
	vFS      = map[string]*vGFile{}
	vMapNames   = map[*mmap.File]string{}
	vOrder   []string // creation order, for deterministic listing
	vCrashAt int
	vCrashN  int
	vCrashed string
)

type vCrash struct{ at string }

func vCrashPoint(id string) {
	vCrashN++
	if vCrashAt == vCrashN {
		vCrashed = id
		vReach("crash")
		vCrashNow()
	}
}

func vDecimal(v uint64) string {
	if v == 0 {
		return "0"
	}
	var b []byte
	for v > 0 {
		b = append([]byte{byte('0' + v%10)}, b...)
		v /= 10
	}
	return string(b)
}

func vSegmentFile(dir string, prevIndex uint64) string {
	p := vConcrete(prevIndex)
	name := dir + "/" + vDecimal(p) + ".log"
	if f, ok := vFS[name]; ok {
		f.prev = p
	}
	return name
}

func vFileExists(name string) (bool, error) {
	f, ok := vFS[name]
	return ok && f.exists, nil
}

func vCreateSegment(name string, opt Options) error {
	vCrashPoint("create.before")
	size := opt.SegmentSize
	f := &vGFile{data: make([]byte, size), durable: make([]byte, size), exists: true}
	// the real createSegment truncates to size, zeroes the last 16 bytes and fsyncs the file
	vFS[name] = f
	known := false
	for _, n := range vOrder {
		if n == name {
			known = true
		}
	}
	if !known {
		vOrder = append(vOrder, name)
	}
	vCrashPoint("create.after")
	return nil
}

func vPrevOf(name string) uint64 {
	// "<dir>/<n>.log"
	i := len(name) - 5
	var v uint64
	mul := uint64(1)
	for ; i >= 0 && name[i] >= '0' && name[i] <= '9'; i-- {
		v += uint64(name[i]-'0') * mul
		mul *= 10
	}
	return v
}

func vSegments(dir string) ([]uint64, error) {
	var offs []uint64
	for _, name := range vOrder {
		if f := vFS[name]; f != nil && f.exists {
			offs = append(offs, vPrevOf(name))
		}
	}
	// ascending
	for i := 1; i < len(offs); i++ {
		for j := i; j > 0 && offs[j-1] > offs[j]; j-- {
			offs[j-1], offs[j] = offs[j], offs[j-1]
		}
	}
	return offs, nil
}

func vRemove(name string) error {
	vCrashPoint("remove.before")
	if f, ok := vFS[name]; ok && f.exists {
		f.exists = false
		delete(vFS, name)
		vCrashPoint("remove.after")
		return nil
	}
	return vIOError{"remove: no such file"}
}

func vMmapOpen(name string, flag int, mode os.FileMode) (*mmap.File, error) {
	f, ok := vFS[name]
	if !ok || !f.exists {
		return nil, vIOError{"open: no such file"}
	}
	mf := &mmap.File{Data: f.data}
	vMapNames[mf] = name
	return mf, nil
}

func vMmapSync(f *mmap.File) error {
	vCrashPoint("msync.before")
	if g, ok := vFS[vMapNames[f]]; ok {
		copy(g.durable, g.data)
	}
	vCrashPoint("msync.after")
	return nil
}

func vMmapClose(f mmap.File) error { return nil }
func vMmapName(f *mmap.File) string { return vMapNames[f] }

// vOpen is log.Open without the directory creation and the SegmentSize>=1024 option check
// (the arithmetic in segment.go is parametric in len(Data)).
func vOpen(dir string, opt Options) (*Log, error) {
	first, last, err := openSegments(dir, opt)
	if err != nil {
		return nil, err
	}
	return &Log{dir: dir, opt: opt, first: first, last: last}, nil
}

// vIOError: the os package's init is not run by the engine (os.ErrNotExist would be nil), so the ghost file system
// returns its own error values.
type vIOError struct{ s string }

func (e vIOError) Error() string { return e.s }
