package log

import "bytes"

// C14: crash at any stub boundary inside an operation program, then the real openSegments on what the ghost disk holds.
// Two models: process kill (every store reached the file: the mapping is shared) and power loss (durable image
// overlaid with an arbitrary subset of the 8-byte words dirtied since the last msync; directory operations are
// atomic and ordered in both).

type vAbs struct {
	prev, base uint64
	ents       [][]byte
	committed  uint64 // every index <= committed that is still in range must survive a crash
	pendCut    uint64 // RemoveGTE(pendCut) is in flight (0 = none): entries >= pendCut may or may not survive
	pendPrev   uint64 // RemoveLTE in flight may have removed entries <= pendPrev
}

func (s *vAbs) last() uint64 { return s.base + uint64(len(s.ents)) }

// vCrashProgram: `steps` operations, crash injected at the crashAt-th stub boundary (0 = after the program),
// powerLoss selects the crash model.
func vCrashProgram(steps int, segSize int, powerLoss bool) { vCrashProgramFrom(0, steps, segSize, powerLoss) }

// vCrashProgramFrom: as vCrashProgram, after a concrete preamble that builds a committed log without forking:
// shape 1 = three 1-byte entries in one segment, committed; shape 2 = two segments (16+16 bytes | 16 bytes), committed.
func vCrashProgramFrom(shape int, steps int, segSize int, powerLoss bool) {
	opt := Options{FileMode: 0600, SegmentSize: segSize}
	l, err := vOpen(vDirL, opt)
	vAssert(err == nil, "open-empty")
	cur := &vAbs{}
	var preSizes []int
	switch shape {
	case 1:
		preSizes = []int{1, 1, 1}
	case 2:
		preSizes = []int{16, 16, 16}
	}
	for _, n := range preSizes {
		b := vBytes("pre", n)
		vAssert(l.Append(b) == nil, "preamble-append")
		cur.ents = append(cur.ents, b)
	}
	if len(preSizes) > 0 {
		vAssert(l.Commit() == nil, "preamble-commit")
		cur.committed = cur.last()
	}
	vCrashN = 0
	// every (index -> bytes) ever appended since the last reset/back-removal that covered it; entries a completed
	// RemoveGTE removed must never come back
	var pre vAbs
	sizes := []int{0, 1, 16, segSize - 24}
	vCrashAt = 1 + vChoice(20)
	crashed := vRunToCrash(func() {
		for step := 0; step < steps; step++ {
			cur.pendCut, cur.pendPrev = 0, 0
			pre = *cur
			pre.ents = append([][]byte(nil), cur.ents...)
			switch vChoice(5) {
			case 0:
				n := sizes[vChoice(len(sizes))]
				b := vBytes("payload", n)
				// a roll-over commits the previous segment before creating the next one
				before := l.last
				if err := l.Append(b); err == nil {
					cur.ents = append(cur.ents, b)
					if l.last != before {
						cur.committed = cur.last() - 1
					}
				}
			case 1:
				n := vU64("commitN")
				vAssume(n <= cur.last())
				if l.CommitN(n) == nil && n > cur.committed {
					cur.committed = n
				}
			case 2:
				i := vU64("lte")
				can := l.CanLTE(i)
				cur.prevPending(can)
				if l.RemoveLTE(i) == nil {
					cur.prev = can
					cur.committed = cur.last()
				}
			case 3:
				i := vU64("gte")
				vAssume(i > cur.prev && i <= cur.last())
				cur.cutPending(i)
				if l.RemoveGTE(i) == nil {
					cur.ents = cur.ents[:i-cur.base-1]
					cur.committed = cur.last()
				}
			case 4:
				if l.Commit() == nil {
					cur.committed = cur.last()
				}
			}
		}
	})
	if !crashed {
		vReach("no-crash")
		cur.pendCut, cur.pendPrev = 0, 0
		pre = *cur
	}
	// what is on disk now
	for _, f := range vFS {
		if powerLoss {
			for w := 0; w+8 <= len(f.data); w += 8 {
				reached := vBool("wordReachedDisk")
				for j := w; j < w+8; j++ {
					f.data[j] = vIte8(reached, f.data[j], f.durable[j])
				}
			}
		}
	}
	vCrashAt = 0
	l2, err := vOpen(vDirL, opt)
	vAssert(err == nil, "reopen-after-crash-succeeds")
	if err != nil {
		return
	}
	p2, last2 := l2.PrevIndex(), l2.LastIndex()
	vAssert(p2 <= last2, "reopened-contiguous")
	// nothing that was never appended; nothing a completed back-removal removed; intact bytes
	for i := p2 + 1; i <= last2; i++ {
		b, gerr := l2.Get(i)
		vAssert(gerr == nil, "reopened-get-ok")
		inPre := i > pre.base && i <= pre.last()
		inCur := i > cur.base && i <= cur.last()
		vAssert(inPre || inCur, "C14-no-entry-that-was-never-appended-or-was-removed")
		if inCur {
			vAssert(bytes.Equal(b, cur.ents[i-cur.base-1]), "C14-entry-intact")
		} else if inPre {
			vAssert(bytes.Equal(b, pre.ents[i-pre.base-1]), "C14-entry-intact")
		}
	}
	// everything covered by the last completed commit is there, unless a (possibly interrupted) removal covers it
	keepFrom := pre.prev
	if cur.prev > keepFrom {
		keepFrom = cur.prev
	}
	keepTo := pre.committed
	if cur.last() < keepTo {
		keepTo = cur.last()
	}
	if pre.last() < keepTo {
		keepTo = pre.last()
	}
	if cur.pendCut != 0 && cur.pendCut-1 < keepTo {
		keepTo = cur.pendCut - 1
	}
	if cur.pendPrev > keepFrom {
		keepFrom = cur.pendPrev
	}
	if keepTo > keepFrom {
		vReach("durable-required")
		vAssert(p2 <= keepFrom && last2 >= keepTo, "C14-committed-entries-survive")
	}
	vReach("end")
}

// prevPending / cutPending record the effect of an operation that may be interrupted (nothing to do: the oracle uses
// both the pre- and post-operation sequences).
func (s *vAbs) prevPending(p uint64) { s.pendPrev = p }
func (s *vAbs) cutPending(i uint64)  { s.pendCut = i }

//verif:check C14 stubs=logfs,logfs-osfile,logfs-glob reach=crash,no-crash,durable-required,end desc="process-kill model: crash at every stub boundary (msync, create, remove) of programs from the empty log, then real reopen: succeeds, contiguous, intact, nothing un-appended or removed, committed entries present" bounds="programs of 3 operations (Append sizes {0,1,16,exact fit}, CommitN, RemoveLTE, RemoveGTE, Commit); crash point 1..20 or none; segment size 64" maxdec=3000
func VH_C14_kill3() { vCrashProgram(3, 64, false) }

//verif:check C14 stubs=logfs,logfs-create,logfs-segments reach=crash,durable-required,end desc="power-loss model: as VH_C14_kill3 but after the crash only msync'ed data is guaranteed and any subset of later dirty 8-byte words reached disk" bounds="programs of 3 operations; crash point 1..20; segment size 64; word-granular tearing (finer than a real 4 KiB page)" maxdec=3000 maxconc=64
func VH_C14_powerloss3() { vCrashProgram(3, 64, true) }

//verif:check C14,C10,C06,C04 stubs=logfs,logfs-osfile,logfs-glob reach=crash,no-crash,durable-required,end desc="process-kill crash programs starting from a committed 3-entry log (one segment, or two segments): 3 further operations, crash at any stub boundary, real reopen" bounds="preamble of 3 committed entries in 1 or 2 segments, then programs of 3 operations; crash point 1..20 after the preamble or none" maxdec=3000
func VH_C14_kill3_from_committed() { vCrashProgramFrom(1+vChoice(2), 3, 64, false) }

//verif:check C14 tier=thorough stubs=logfs,logfs-create,logfs-segments reach=crash,durable-required,end desc="power-loss crash programs from a committed 3-entry log" bounds="as VH_C14_kill3_from_committed, power-loss model" maxdec=3000 maxconc=64
func VH_C14_powerloss3_from_committed() { vCrashProgramFrom(1+vChoice(2), 3, 64, true) }

//verif:check C14 tier=thorough stubs=logfs,logfs-osfile,logfs-glob reach=crash,durable-required,end desc="deeper crash programs" bounds="programs of 4 operations from the empty log, both models" maxdec=4000 maxconc=64
func VH_C14_crash4() { vCrashProgram(4, 64, vChoice(2) == 1) }
