package log

import "bytes"

// C13: the segmented log against an abstract sequence, for operation programs from the empty log.

type vSeq struct {
	prev uint64
	ents [][]byte // ents[k] is index prev0+k+1 where prev0 is the base at creation/reset
	base uint64
}

func (s *vSeq) last() uint64 { return s.base + uint64(len(s.ents)) }
func (s *vSeq) get(i uint64) []byte {
	return s.ents[i-s.base-1]
}

const vDirL = "/ghostlog"

// vCompare: every observable of the real log equals the abstract sequence's.
func vCompare(l *Log, s *vSeq, tag string) {
	vAssert(l.PrevIndex() == s.prev, tag+"-prevIndex")
	vAssert(l.LastIndex() == s.last(), tag+"-lastIndex")
	vAssert(l.Count() == s.last()-s.prev, tag+"-count")
	vAssert(!l.Contains(s.prev) && !l.Contains(s.last()+1), tag+"-contains-outside")
	for i := s.prev + 1; i <= s.last(); i++ {
		vAssert(l.Contains(i), tag+"-contains")
		b, err := l.Get(i)
		vAssert(err == nil, tag+"-get-ok")
		vAssert(bytes.Equal(b, s.get(i)), tag+"-get-bytes")
	}
	if s.prev > 0 || true {
		_, err := l.Get(s.prev)
		vAssert(err == ErrNotFound, tag+"-get-at-prev-is-notfound")
	}
	// multi-entry reads: every range, concatenated across segments
	for i := s.prev + 1; i <= s.last(); i++ {
		for n := uint64(1); i+n-1 <= s.last(); n++ {
			buffs, err := l.GetN(i, n)
			vAssert(err == nil, tag+"-getn-ok")
			var got, want []byte
			for _, b := range buffs {
				got = append(got, b...)
			}
			for j := i; j < i+n; j++ {
				want = append(want, s.get(j)...)
			}
			vAssert(bytes.Equal(got, want), tag+"-getn-concatenates")
		}
	}
}

// vProgram runs `steps` operations chosen nondeterministically on a fresh log with the given segment size.
func vProgram(steps int, segSize int, withReopen bool) { vProgramFrom(0, steps, segSize, withReopen) }

// vProgramFrom: as vProgram after a concrete preamble (no forking): shape 1 = three 1-byte entries in one segment,
// shape 2 = three 16-byte entries in two segments.
func vProgramFrom(shape int, steps int, segSize int, withReopen bool) {
	opt := Options{FileMode: 0600, SegmentSize: segSize}
	l, err := vOpen(vDirL, opt)
	vAssert(err == nil, "open-empty")
	s := &vSeq{}
	var preSizes []int
	switch shape {
	case 1:
		preSizes = []int{1, 1, 1}
	case 2:
		preSizes = []int{16, 16, 16}
	}
	for _, n := range preSizes {
		b := vBytes("pre", n)
		vAssert(l.Append(b) == nil, "preamble-append")
		s.ents = append(s.ents, b)
	}
	sizes := []int{0, 1, 16, segSize - 24, segSize - 23}
	var view *Log
	var viewPrev, viewLast uint64
	for step := 0; step < steps; step++ {
		nops := 5
		if withReopen {
			nops = 7
		}
		switch vChoice(nops) {
		case 0: // Append
			n := sizes[vChoice(len(sizes))]
			b := vBytes("payload", n)
			err := l.Append(b)
			if n > segSize-24 {
				vReach("exceeds")
			}
			if err == ErrExceedsSegmentSize {
				vAssert(n > segSize-24 && s.last() == l.LastIndex(), "append-exceeds-only-when-too-big-for-an-empty-segment")
				// ... but the same entry IS accepted when the last segment is not empty (a larger segment is made for
				// it): whether an entry can be stored depends on the log's state, so a follower whose log was just reset
				// cannot store what its leader stored (recorded known finding, DESIGN.md §6)
				vAssert(false, "append-acceptance-does-not-depend-on-the-last-segment-being-empty")
			} else {
				vAssert(err == nil, "append-ok")
				s.ents = append(s.ents, b)
				vReach("append")
				if l.first != l.last {
					vReach("rollover")
				}
			}
		case 1: // CommitN
			n := vU64("commitN")
			vAssert(l.CommitN(n) == nil, "commit-ok")
		case 2: // RemoveLTE
			i := vU64("lte")
			can := l.CanLTE(i)
			vAssert(can <= i || can == s.prev, "canlte-never-beyond-request")
			vAssert(can >= s.prev && can <= s.last(), "canlte-in-range")
			vAssert(l.RemoveLTE(i) == nil, "removelte-ok")
			vAssert(l.PrevIndex() == can, "removelte-removes-what-canlte-said")
			if can > s.prev {
				vReach("front-removed")
			}
			s.prev = can
		case 3: // RemoveGTE
			i := vU64("gte")
			vAssume(i > s.prev) // storage.removeGTE is never called at or below the first index
			vAssert(l.RemoveGTE(i) == nil, "removegte-ok")
			if i <= s.last() {
				s.ents = s.ents[:i-s.base-1]
				vReach("back-removed")
			}
		case 4: // Reset
			x := []uint64{0, 5, s.last()}[vChoice(3)] // the index only names the new segment file; three representative values
			vAssert(l.Reset(x) == nil, "reset-ok")
			s.base, s.prev, s.ents = x, x, nil
			view = nil
		case 5: // close and reopen
			vAssert(l.Close() == nil, "close-ok")
			l, err = vOpen(vDirL, opt)
			vAssert(err == nil, "reopen-ok")
			vReach("reopen")
			view = nil
		case 6: // take a view of the current content
			view = l.View()
			viewPrev, viewLast = s.prev, s.last()
		}
		vCompare(l, s, "after-op")
		// a view taken earlier keeps returning the same bytes for its range while the writer appends/commits
		if view != nil && viewPrev >= s.prev && viewLast <= s.last() {
			vAssert(view.PrevIndex() == viewPrev && view.LastIndex() == viewLast, "view-bounds-fixed")
			for i := viewPrev + 1; i <= viewLast; i++ {
				b, err := view.Get(i)
				vAssert(err == nil && bytes.Equal(b, s.get(i)), "view-returns-same-bytes")
				vReach("view-read")
			}
		} else {
			view = nil
		}
	}
	vReach("end")
}

//verif:check C13 stubs=logfs,logfs-osfile,logfs-glob reach=append,rollover,exceeds,front-removed,back-removed,end desc="operation programs from the empty log vs the abstract sequence: Append/CommitN/RemoveLTE/RemoveGTE/Reset with every observable compared after every operation" bounds="programs of 3 operations; entry sizes {0,1,16,exact fit,one more than fits}; segment size 64 bytes; symbolic payload bytes and removal/commit indexes" maxdec=2000
func VH_C13_programs3() { vProgram(3, 64, false) }

//verif:check C13 stubs=logfs,logfs-osfile,logfs-glob reach=append,rollover,reopen,view-read,end desc="as VH_C13_programs3 plus close/reopen and views" bounds="programs of 4 operations incl. reopen and views; segment size 64" maxdec=4000
func VH_C13_programs4() { vProgram(4, 64, true) }

//verif:check C13,C09 stubs=logfs,logfs-osfile,logfs-glob reach=append,reopen,back-removed,front-removed,view-read,end desc="programs starting from a 3-entry log (one or two segments) incl. close/reopen and views" bounds="preamble of 3 entries in 1 or 2 segments, then programs of 3 operations (Append, CommitN, RemoveLTE, RemoveGTE, Reset, reopen, view)" maxdec=3000
func VH_C13_programs3_from3() { vProgramFrom(1+vChoice(2), 3, 64, true) }

//verif:check C13 tier=thorough stubs=logfs,logfs-osfile,logfs-glob reach=append,rollover,reopen,view-read,end desc="deeper programs" bounds="programs of 5 operations incl. reopen and views; segment size 64" maxdec=6000
func VH_C13_programs5() { vProgram(5, 64, true) }

//verif:check C13 tier=thorough stubs=logfs,logfs-osfile,logfs-glob reach=append,rollover,end desc="a second segment size" bounds="programs of 4 operations; segment size 96" maxdec=6000
func VH_C13_programs4_seg96() { vProgram(4, 96, false) }
