package log

import "github.com/santhosh-tekuri/raft/mmap"

func vHexL(b []byte) string {
	const d = "0123456789abcdef"
	s := make([]byte, 0, 2*len(b))
	for _, x := range b {
		s = append(s, d[x>>4], d[x&15])
	}
	return string(s)
}

// the segment arithmetic on an in-memory image (no file): append, offsets, get, available.
//
//verif:validate C13
func VD_C13_segment_arithmetic() string {
	s := &segment{prevIndex: 10, file: &mmap.File{Data: make([]byte, 96)}}
	out := ""
	for _, b := range [][]byte{[]byte("ab"), nil, []byte("cdefg"), []byte("h")} {
		if s.available() < len(b) {
			out += "full;"
			continue
		}
		s.append(b)
		out += vHexL([]byte{byte(s.n), byte(s.size), byte(s.available())}) + ";"
	}
	out += string(s.get(11, 1)) + "|" + string(s.get(12, 2)) + "|" + string(s.get(11, 4)) + ";"
	out += vHexL(s.file.Data[48:]) + ";"
	out += vHexL([]byte{byte(s.lastIndex()), byte(s.offset(0)), byte(s.offset(1)), byte(s.offset(4))})
	l := &Log{first: s, last: s}
	out += ";" + vHexL([]byte{byte(l.PrevIndex()), byte(l.LastIndex()), byte(l.Count()), byte(l.CanLTE(12))})
	v := l.ViewAt(11, 13)
	b, err := v.Get(12)
	out += ";" + string(b) + vHexL([]byte{byte(len(b))})
	if _, err2 := v.Get(11); err2 == ErrNotFound && err == nil {
		out += ";nf"
	}
	return out
}
