package raft

// Ghost file system under snapshots.go (stub set "snapfs"). snapshots.new / snapshotSink.done / snapshots.meta /
// snapshots.open / applyRetain are executed for real; the os-level calls they make land here, so the ORDER in which
// the real code creates, fills, renames and removes files is the real code's, and every call is a crash point.

import (
	"io"
	"os"
	"runtime"
	"time"
)

//verif:stub snapfs raft.metaFile vMetaFile
//verif:stub snapfs raft.snapFile vSnapFile
//verif:stub snapfs raft.findSnapshots vFindSnapshots
//verif:stub snapfs os.Create vOSCreate
//verif:stub snapfs os.Open vOSOpen
//verif:stub snapfs os.OpenFile vOSOpenFile
//verif:stub snapfs os.Stat vOSStat
//verif:stub snapfs os.Remove vOSRemove
//verif:stub snapfs os.RemoveAll vOSRemove
//verif:stub snapfs os.Rename vRenameAny
//verif:stub snapfs os.MkdirAll vMkdirAll
//verif:stub snapfs (*os.File).Close vFileClose
//verif:stub snapfs (*os.File).Name vFileName
//verif:stub snapfs (*os.File).Write vFileWrite
//verif:stub snapfs (*os.File).Read vFileRead
//verif:stub snapfs io.CopyN vCopyN
//verif:stub snapfs io.Copy vCopy
//verif:stub snapfs path/filepath.Join vJoin
//verif:stub snapfs (*raft.snapshots).meta vSnapsMeta

// vSnapsMeta is (*snapshots).meta with the evaluation order the gc compiler gives `return meta, meta.decode(f)`:
// the call first, then the (decoded) variable. The order of a variable read relative to a call is unspecified by the
// language; go/ssa loads the variable first, which would return the zero label. This is the one place in the
// repository that depends on it (found by the translator validation of the install-snapshot path).
func vSnapsMeta(s *snapshots) (snapshotMeta, error) {
	if s.index == 0 {
		return snapshotMeta{index: 0, term: 0}, nil
	}
	f, err := os.Open(metaFile(s.dir, s.index))
	if err != nil {
		return snapshotMeta{}, err
	}
	defer f.Close()
	meta := snapshotMeta{}
	err = meta.decode(f)
	return meta, err
}

type vSFile struct {
	name    string
	dir     string // the snapshots directory it lives in
	kind    int    // 1 meta, 2 snap, 3 meta.tmp
	index   uint64 // for kinds 1,2
	content []byte // meta / meta.tmp: real bytes written by snapshotMeta.encode
	size    int64  // snap: abstract size of the data
	exists  bool
}

var (
	vSFiles  []*vSFile // creation order
	vOSFiles = map[*os.File]*vSFile{}
	vOSPos   = map[*os.File]int{}
	vOSNames = map[*os.File]string{}
	vSnapSeq int
)

func vSLookup(name string) *vSFile {
	for _, f := range vSFiles {
		if f.exists && f.name == name {
			return f
		}
	}
	return nil
}

// names are tokens: the same (kind,index) maps to the same token on the same path (indexes may be symbolic)
var vSNames []*vSFile

func vSName(dir string, kind int, index uint64) string {
	for _, n := range vSNames {
		if n.dir == dir && n.kind == kind && n.index == index {
			return n.name
		}
	}
	vSnapSeq++
	name := dir + "/#" + string(rune('a'+vSnapSeq))
	if kind == 1 {
		name += ".meta"
	} else {
		name += ".snap"
	}
	vSNames = append(vSNames, &vSFile{name: name, dir: dir, kind: kind, index: index})
	return name
}

func vNameInfo(name string) (dir string, kind int, index uint64) {
	for _, n := range vSNames {
		if n.name == name {
			return n.dir, n.kind, n.index
		}
	}
	if len(name) >= 9 && name[len(name)-8:] == "meta.tmp" {
		return name[:len(name)-9], 3, 0
	}
	return "", 0, 0
}

func vMetaFile(dir string, index uint64) string { return vSName(dir, 1, index) }
func vSnapFile(dir string, index uint64) string { return vSName(dir, 2, index) }
func vJoin(elem ...string) string {
	s := ""
	for i, e := range elem {
		if i > 0 {
			s += "/"
		}
		s += e
	}
	return s
}
func vMkdirAll(path string, perm os.FileMode) error { return nil }

func vSCreate(name string) *vSFile {
	if f := vSLookup(name); f != nil {
		f.content, f.size = nil, 0 // truncate
		return f
	}
	dir, kind, index := vNameInfo(name)
	f := &vSFile{name: name, dir: dir, kind: kind, index: index, exists: true}
	vSFiles = append(vSFiles, f)
	return f
}

func vOSCreate(name string) (*os.File, error) {
	vCrashPoint("snap.create.before")
	g := vSCreate(name)
	h := &os.File{}
	vOSFiles[h], vOSNames[h] = g, name
	vCrashPoint("snap.create.after")
	return h, nil
}

// vSnapYield: when set (cooperative harnesses), every file-system call of the snapshot store is a scheduling point,
// so two goroutines working in the store interleave call by call.
var vSnapYield, vSnapYieldAtRename bool

func vSYield() {
	if vSnapYield {
		runtime.Gosched()
	}
}

func vOSOpenFile(name string, flag int, perm os.FileMode) (*os.File, error) {
	vSYield()
	if flag&os.O_CREATE != 0 {
		return vOSCreate(name)
	}
	return vOSOpen(name)
}

func vOSOpen(name string) (*os.File, error) {
	vSYield()
	g := vSLookup(name)
	if g == nil {
		return nil, vIOError{"no such file"}
	}
	h := &os.File{}
	vOSFiles[h], vOSNames[h] = g, name
	return h, nil
}

type vFileInfo struct{ size int64 }

func (i vFileInfo) Name() string       { return "ghost" }
func (i vFileInfo) Size() int64        { return i.size }
func (i vFileInfo) Mode() os.FileMode  { return 0600 }
func (i vFileInfo) ModTime() time.Time { return time.Time{} }
func (i vFileInfo) IsDir() bool        { return false }
func (i vFileInfo) Sys() interface{}   { return nil }

func vOSStat(name string) (os.FileInfo, error) {
	vSYield()
	g := vSLookup(name)
	if g == nil {
		return nil, vIOError{"no such file"}
	}
	if g.kind == 2 {
		return vFileInfo{g.size}, nil
	}
	return vFileInfo{int64(len(g.content))}, nil
}

func vOSRemove(name string) error {
	vSYield()
	g := vSLookup(name)
	if g == nil {
		return vIOError{"no such file"}
	}
	vCrashPoint("snap.remove.before")
	g.exists = false
	vCrashPoint("snap.remove.after")
	return nil
}

func vSRename(oldpath, newpath string) error {
	g := vSLookup(oldpath)
	if g == nil {
		return vIOError{"no such file"}
	}
	vCrashPoint("snap.rename.before")
	if old := vSLookup(newpath); old != nil {
		old.exists = false
	}
	dir, kind, index := vNameInfo(newpath)
	g.name, g.dir, g.kind, g.index = newpath, dir, kind, index
	vCrashPoint("snap.rename.after")
	return nil
}

// vRenameAny serves both value files and snapshot files.
func vRenameAny(oldpath, newpath string) error {
	if vSnapYieldAtRename {
		vSnapYield = true // from the publishing rename on, every call is a scheduling point
	}
	vSYield()
	if _, ok := vNameExt[oldpath]; ok {
		return vRename(oldpath, newpath)
	}
	return vSRename(oldpath, newpath)
}

func vFileClose(f *os.File) error { vSYield(); return nil }
func vFileName(f *os.File) string { return vOSNames[f] } // the path it was opened with, whatever happened to the file since
func vFileWrite(f *os.File, b []byte) (int, error) {
	vSYield()
	g := vOSFiles[f]
	g.content = append(g.content, b...)
	return len(b), nil
}
func vFileRead(f *os.File, b []byte) (int, error) {
	g := vOSFiles[f]
	pos := vOSPos[f]
	if pos >= len(g.content) {
		return 0, io.EOF
	}
	n := copy(b, g.content[pos:])
	vOSPos[f] = pos + n
	return n, nil
}

// vCopyFailBudget: how many snapshot transfers may fail on one path (-1 = any number).
var vCopyFailBudget = -1

// vCopyN: the snapshot payload is abstract: only its size is tracked. The transfer may fail at any byte count.
func vCopyN(dst io.Writer, src io.Reader, n int64) (int64, error) {
	if f, ok := dst.(*os.File); ok {
		g := vOSFiles[f]
		if vCopyFailBudget != 0 && vBool("copy.fails") {
			if vCopyFailBudget > 0 {
				vCopyFailBudget--
			}
			k := vI64("copy.count")
			vAssume(k >= 0 && k < n)
			g.size += k
			return k, vIOError{"copy"}
		}
		g.size += n
		return n, nil
	}
	// draining into ioutil.Discard
	if vBool("drain.fails") {
		return 0, vIOError{"drain"}
	}
	return n, nil
}

// vCopy: a snapshot's payload is abstract (only its size is tracked): sending it puts no bytes on the wire, and the
// receiver's io.CopyN (vCopyN) takes none off, so the stream stays framed.
// vCopySendFailBudget > 0: that many sends fail half way (the network write runs into its deadline).
var vCopySendFailBudget int

func vCopy(dst io.Writer, src io.Reader) (int64, error) {
	if f, ok := src.(*os.File); ok {
		if g := vOSFiles[f]; g != nil {
			if vCopySendFailBudget > 0 {
				vCopySendFailBudget--
				return g.size / 2, vIOError{"write: i/o timeout"}
			}
			return g.size, nil
		}
	}
	panic("vCopy: source is not a ghost snapshot file")
}

// vFindSnapshots: indexes of the published (".meta" exists) snapshots, newest first.
func vFindSnapshots(dir string) ([]uint64, error) {
	var snaps []uint64
	for _, f := range vSFiles {
		if f.exists && f.kind == 1 && f.dir == dir {
			snaps = append(snaps, f.index)
		}
	}
	for i := 1; i < len(snaps); i++ {
		for j := i; j > 0 && snaps[j-1] < snaps[j]; j-- {
			snaps[j-1], snaps[j] = snaps[j], snaps[j-1]
		}
	}
	return snaps, nil
}

// vPublishSnapshot puts a complete snapshot (data + meta) on the ghost disk and makes it the node's latest.
func vPublishSnapshot(r *Raft, index, term uint64, cfg Config, size int64) {
	if index == 0 {
		return
	}
	sf := vSCreate(vSnapFile(r.snaps.dir, index))
	sf.size = size
	mf := vSCreate(vMetaFile(r.snaps.dir, index))
	m := snapshotMeta{index: index, term: term, config: cfg, size: size}
	w := &vBufW{}
	if err := m.encode(w); err != nil {
		panic(err)
	}
	mf.content = w.b
	r.snaps.index, r.snaps.term = index, term
}

type vBufW struct{ b []byte }

func (w *vBufW) Write(p []byte) (int, error) { w.b = append(w.b, p...); return len(p), nil }
