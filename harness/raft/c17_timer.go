package raft

import "bytes"

// C17, mechanism "randomised election timeouts, reset on contact from the current leader or on granting a vote":
// what Raft.replyRPC tells the state loop to do with the election timer, for every request it can be handed.
// (The state loop's use of the answer is covered by the stateLoop harnesses in c15_stateloop.go.)

//verif:check C17 stubs=env,valuefile,abslog reach=append-ok,append-rejected,append-cut,vote-granted,vote-refused,end desc="Raft.replyRPC's election-timer verdict: every AppendEntries request from the current leader (req.term >= own term) resets the follower's election timer whatever the reply is (success, prevEntryNotFound, prevTermMismatch, or the connection cut mid-entries), so a follower that is being probed/caught up does not start elections; a vote request resets it iff the vote was granted" bounds="follower log of 2 entries after a symbolic base, request with 1 entry (arrives or cut); all 64-bit terms/indexes; one request"
func VH_C17_replyRPC_timer() {
	if vChoice(2) == 0 {
		c := vAppendSetup(2, 1, false)
		r := c.r
		var w bytes.Buffer
		if err := c.req.encode(&w); err != nil {
			panic(err)
		}
		w.Write(c.script)
		conn, _ := vMkConn(w.Bytes())
		x := &rpc{req: &appendReq{}, conn: conn, done: make(chan struct{})}
		reset := r.replyRPC(x)
		vAssert(isClosed(x.done), "replied")
		if x.readErr != nil {
			vReach("append-cut")
		} else if x.resp.getResult() == success {
			vReach("append-ok")
		} else {
			vReach("append-rejected")
		}
		fromCurrentLeader := c.req.term >= c.term0
		vAssert(vImp(fromCurrentLeader, vAnd(r.leader == c.req.src, r.term == c.req.term)), "T0-sender-is-the-leader-this-node-now-follows")
		vAssert(vImp(fromCurrentLeader, reset), "T1-append-from-current-leader-resets-election-timer")
		vReach("end")
		return
	}
	r := vMkRaft(vU64("nid"))
	vSymTermState(r)
	r.leader = vU64("leader")
	r.state = Follower
	r.lastLogIndex, r.lastLogTerm = vU64("lastLogIndex"), vU64("lastLogTerm")
	vAssume(r.nid != 0 && r.lastLogTerm <= r.term)
	req := &voteReq{req: req{vU64("req.term"), vU64("req.src")},
		lastLogIndex: vU64("req.lastLogIndex"), lastLogTerm: vU64("req.lastLogTerm"), transfer: vBool("req.transfer")}
	vAssume(req.src != 0 && req.src != r.nid)
	conn, _ := vMkConn(nil)
	x := &rpc{req: req, conn: conn, done: make(chan struct{})}
	reset := r.replyRPC(x)
	vAssert(isClosed(x.done) && x.resp != nil, "replied")
	granted := x.resp.getResult() == success
	if granted {
		vReach("vote-granted")
	} else {
		vReach("vote-refused")
	}
	vAssert(reset == granted, "T2-vote-request-resets-timer-iff-granted")
	vReach("end")
}
