package raft

import (
	"os"
	"path/filepath"
)

// C05/C10/C18: the storage directory's name is an input too. The value files (term+vote, identity) are found again
// after a restart by filepath.Glob(dir/*.ext), in which the DIRECTORY part is a pattern as well. Here the ghost
// directory lists names exactly as Glob does - by the real filepath.Match of the whole pattern against each existing
// path (for a pattern whose last component is the only one meant as such, that is what Glob computes) - and the
// directory name carries symbolic bytes.

//verif:stub vfglob os.Rename vGDRename
//verif:stub vfglob raft.syncDir vSyncDirNop
//verif:stub vfglob path/filepath.Glob vGDGlob
//verif:stub vfglob os.OpenFile vGDOpenFile
//verif:stub vfglob (*os.File).Close vGDClose
//verif:stub vfglob (*os.File).Name vGDName

var (
	vGDNames []string // the files that exist
	vGDFiles = map[*os.File]string{}
)

func vGDRename(oldpath, newpath string) error {
	for i, n := range vGDNames {
		if n == oldpath {
			vGDNames[i] = newpath
			return nil
		}
	}
	return vIOError{"rename: no such file"}
}

func vGDGlob(pattern string) ([]string, error) {
	var out []string
	for _, n := range vGDNames {
		ok, err := filepath.Match(pattern, n)
		if err != nil {
			return nil, err
		}
		if ok {
			out = append(out, n)
		}
	}
	return out, nil
}

func vGDOpenFile(name string, flag int, perm os.FileMode) (*os.File, error) {
	if flag&os.O_CREATE == 0 {
		return nil, vIOError{"open: not modelled without O_CREATE"}
	}
	found := false
	for _, n := range vGDNames {
		found = found || n == name
	}
	if !found {
		vGDNames = append(vGDNames, name)
	}
	f := &os.File{}
	vGDFiles[f] = name
	return f, nil
}
func vGDClose(f *os.File) error { return nil }
func vGDName(f *os.File) string { return vGDFiles[f] }

//verif:check C05,C10,C18 stubs=vfglob reach=reopened,end desc="the term/vote (and identity) file is found again whatever the storage directory is called: after openValue on a fresh directory and value.set(7,3), a second openValue (the restart) reads (7,3) - it never takes the directory for empty and starts again from (0,0), which would forget the term and the vote. A directory name that openValue refuses from the start (malformed pattern) is refused consistently" bounds="directory name /g followed by 3 symbolic bytes over the alphabet {a 1 [ ] * ? \\ - ^}; one set, one reopen; Glob modelled as the real filepath.Match of the whole pattern against every existing path"
func VH_C05_valuefile_dirname() {
	bs := vBytes("dirname", 3)
	for _, b := range bs {
		vAssume(b == 'a' || b == '1' || b == '[' || b == ']' || b == '*' || b == '?' || b == '\\' || b == '-' || b == '^')
	}
	dir, ext := "/g"+string(bs), ".term"
	vGDNames = nil
	val, err := openValue(dir, ext)
	if err != nil {
		vReach("refused")
		vReach("end")
		return
	}
	vAssert(val.v1 == 0 && val.v2 == 0, "DN-fresh-directory-starts-at-zero")
	vAssert(val.set(7, 3) == nil, "DN-set-ok")
	got, err := openValue(dir, ext)
	vAssert(err == nil, "DN-reopen-succeeds")
	if err == nil {
		vReach("reopened")
		vAssert(got.v1 == 7 && got.v2 == 3, "DN-restart-reads-the-stored-term-and-vote")
	}
	vReach("end")
}
