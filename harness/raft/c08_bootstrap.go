package raft

// C08 / C10 / C11: the first configuration a node adopts (Raft.bootstrap), with a crash anywhere inside it.

//verif:check C08,C10,C11 stubs=env,valuefile,abslog,snapfs,restart reach=bootstrapped,rejected,already,crash,restarted,end desc="Raft.bootstrap with an arbitrary requested configuration: accepted only on a node that has no configuration yet, only if the node itself is a voter of it and no action is pending in it (so the first configuration retains a voter); the entry is stored at index 1 and flushed, a term of at least 1 (never lower than the node's term) is durable before the node becomes candidate; a crash at any storage boundary inside it followed by the real openStorage starts successfully either un-bootstrapped (empty log) or with exactly that configuration" bounds="n<=3 nodes with symbolic voter flags and actions; node id 1..3; any term/vote the node has seen before; crash at any storage-operation boundary or none"
func VH_C08_bootstrap() {
	n := 1 + vChoice(3)
	nid := uint64(1 + vChoice(3))
	r := vMkRaft(nid)
	// a node that is not bootstrapped yet can already have seen terms and voted (it answers vote requests)
	vSymTermState(r)
	l, a := vNewLog(0)
	r.storage.log = l
	r.fsm.FSM = &vFSM{}
	already := vBool("already.bootstrapped")
	if already {
		r.configs.Latest = vStableConfig("old", 2, 1, 1)
		r.configs.Committed = r.configs.Latest
	}
	nc := Config{Nodes: make(map[uint64]Node)}
	for i := 1; i <= n; i++ {
		id := uint64(i)
		nd := Node{ID: id, Addr: vAddr(i), Voter: vBool("new.voter" + string(rune('0'+i))), Action: Action(vU8("new.action" + string(rune('0'+i))))}
		vAssume(nd.Action <= ForceRemove)
		nc.Nodes[id] = nd
	}
	t := changeConfig{task: newTask(), newConf: nc}
	t0 := r.term
	vCrashArmed = true
	crashed := vRunToCrash(func() { r.bootstrap(t) })
	if !crashed {
		if already {
			vReach("already")
			vAssert(isClosed(t.Done()) && t.Err() != nil, "B-second-bootstrap-refused")
			vAssert(a.last() == 0 && r.state == Follower, "B-refused-bootstrap-changes-nothing")
		} else if t.Err() == nil {
			vReach("bootstrapped")
			self, ok := nc.Nodes[nid]
			vAssert(ok && self.Voter, "B-bootstrapping-node-is-a-voter-of-the-first-configuration")
			vAssert(nc.isStable(), "B-first-configuration-has-no-pending-action")
			vAssert(r.configs.Latest.Index == 1 && r.configs.Latest.Term == 1 && len(r.configs.Latest.Nodes) == n, "B-adopted-at-index-1")
			vAssert(a.last() == 1 && a.flushed == 1 && r.lastLogIndex == 1 && r.lastLogTerm == 1, "B-entry-stored-and-flushed")
			dt, _ := vDurable(".term")
			vAssert(dt >= 1 && dt >= t0 && r.term == dt, "B-term-at-least-1-durable-and-never-lowered")
			vAssert(r.state == Candidate, "B-node-campaigns")
		} else {
			vReach("rejected")
			vAssert(a.last() == 0 && r.configs.Latest.Index == 0 && r.state == Follower, "B-rejected-bootstrap-changes-nothing")
		}
	}
	st, a2, err := vRestart(a)
	vAssert(err == nil, "restart-opens")
	if err != nil {
		return
	}
	vReach("restarted")
	if a2.last() == 0 {
		vAssert(st.configs.Latest.Index == 0 && st.lastLogIndex == 0, "B-restart-unbootstrapped-is-clean")
		vAssert(crashed || already || t.Err() != nil, "B-acknowledged-bootstrap-survives-restart")
	} else {
		vAssert(a2.last() == 1 && st.configs.Latest.Index == 1 && len(st.configs.Latest.Nodes) == n, "B-restart-sees-the-bootstrap-configuration")
		vAssert(st.configs.Latest.isVoter(nid), "B-restarted-node-is-a-voter")
	}
	vReach("end")
}

//verif:check C08,C11 stubs=env,valuefile,abslog reach=voter-added,voter-refused,nonvoter-added,action-set,action-refused,end desc="the public Config builders a client uses to prepare a membership request: a voter can be added directly only to a configuration that was never adopted (bootstrap); in an adopted configuration a new node joins as a non-voter, with Promote pending iff asked; an existing id is never overwritten; SetAction stores an action only if it fits the node (no Promote for a voter, no Demote for a non-voter) and leaves voting rights alone; a refused call changes nothing" bounds="configurations of <= 3 nodes with symbolic flags/actions and symbolic index (bootstrapped or not); new node id 1..4; every action value"
func VH_C08_config_builders() {
	n := vChoice(4)
	c := vMkConfigLoose("cfg", n, vU64("cfg.index"))
	before := c.clone()
	id := uint64(1 + vChoice(4))
	_, existed := c.Nodes[id]
	switch vChoice(3) {
	case 0:
		err := c.AddVoter(id, vAddr(int(id)))
		if err == nil {
			vReach("voter-added")
			vAssert(before.Index == 0, "CB-voter-added-directly-only-before-bootstrap")
			vAssert(!existed && c.Nodes[id].Voter && c.Nodes[id].Action == None && len(c.Nodes) == len(before.Nodes)+1, "CB-added-as-plain-voter")
		} else {
			vReach("voter-refused")
			vAssert(before.Index != 0 || existed, "CB-refusal-has-a-reason")
			vAssert(vSameMembership(c, before), "CB-refused-call-changes-nothing")
		}
	case 1:
		promote := vBool("promote")
		err := c.AddNonvoter(id, vAddr(int(id)), promote)
		if err == nil {
			vReach("nonvoter-added")
			nd := c.Nodes[id]
			vAssert(!existed && !nd.Voter, "CB-new-node-joins-as-non-voter")
			vAssert(vImp(promote, nd.Action == Promote) && vImp(!promote, nd.Action == None), "CB-promote-pending-iff-asked")
			vAssert(c.numVoters() == before.numVoters(), "CB-adding-a-non-voter-leaves-the-voters-alone")
		} else {
			vAssert(existed && vSameMembership(c, before), "CB-existing-id-never-overwritten")
		}
	case 2:
		action := Action(vU8("action"))
		vAssume(action <= ForceRemove)
		err := c.SetAction(id, action)
		if err == nil {
			vReach("action-set")
			nd := c.Nodes[id]
			vAssert(existed && nd.Action == action && nd.Voter == before.Nodes[id].Voter, "CB-action-stored-voting-right-untouched")
			vAssert(vNot(vAnd(action == Promote, nd.Voter)) && vNot(vAnd(action == Demote, !nd.Voter)), "CB-action-fits-the-node")
			vAssert(c.numVoters() == before.numVoters(), "CB-setting-an-action-changes-no-vote")
		} else {
			vReach("action-refused")
			vAssert(vSameMembership(c, before), "CB-refused-call-changes-nothing")
		}
	}
	vReach("end")
}

// vMkConfigLoose: n nodes (ids 1..n) with symbolic voter flags and actions obeying Node.validate, any index.
func vMkConfigLoose(name string, n int, index uint64) Config {
	c := Config{Nodes: make(map[uint64]Node), Index: index, Term: 1}
	for i := 1; i <= n; i++ {
		nd := Node{ID: uint64(i), Addr: vAddr(i), Voter: vBool(name + ".voter" + string(rune('0'+i))), Action: Action(vU8(name + ".action" + string(rune('0'+i))))}
		vAssume(nd.Action <= ForceRemove)
		vAssume(vNot(vAnd(nd.Action == Promote, nd.Voter)))
		vAssume(vNot(vAnd(nd.Action == Demote, !nd.Voter)))
		c.Nodes[nd.ID] = nd
	}
	return c
}

//verif:check C08 stubs=env,valuefile,abslog reach=accepted,rejected,end desc="leader.onChangeConfig against requests that drop members outright: from a committed 3-voter configuration, a request that deletes any subset of the existing nodes (and may add up to two new non-voters, possibly to be promoted) is rejected unless it deletes nobody - members leave only through Remove/ForceRemove actions, one voter at a time" bounds="current configuration of 3 plain voters; every subset of deleted nodes; 0..2 new non-voters with or without Promote"
func VH_C08_onChangeConfig_drops() {
	r, l, _ := vMkLeader(3, 2, true)
	cfg := r.configs.Latest
	for id := uint64(1); id <= 3; id++ {
		vAssume(cfg.Nodes[id].Voter)
	}
	r.configs.Committed = cfg
	vAssume(r.commitIndex >= l.startIndex && cfg.Index <= r.commitIndex)
	nc := cfg.clone()
	dropped := 0
	for id := uint64(1); id <= 3; id++ {
		if vChoice(2) == 1 {
			delete(nc.Nodes, id)
			dropped++
		}
	}
	for k, add := 0, vChoice(3); k < add; k++ {
		id := uint64(6 + k)
		nd := Node{ID: id, Addr: vAddr(int(id))}
		if vChoice(2) == 1 {
			nd.Action = Promote
		}
		nc.Nodes[id] = nd
	}
	t := changeConfig{task: newTask(), newConf: nc}
	vWatchConfigAppends(r, l)
	vRequested = &t.newConf
	l.onChangeConfig(t)
	if len(vCfgAppends) > 0 {
		vReach("accepted")
		vAssert(dropped == 0, "G1-members-leave-only-through-actions")
	} else {
		vReach("rejected")
		vAssert(isClosed(t.Done()) && t.Err() != nil, "rejected-request-answered-with-an-error")
	}
	vCheckConfigAppends("G1d", true)
	vReach("end")
}
