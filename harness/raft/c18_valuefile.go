package raft

// C18, persisted identity/term values: value.set followed by openValue reads back exactly what was written, for every
// 64-bit value. The file name is modelled at the digit level: valueFile's "%d-%d%s" emits the decimal digits of its
// arguments (the documented meaning of %d on a uint64); the digits are the free variables and the real
// filepath.Base / TrimSuffix / IndexByte / strconv parsing run on them.

//verif:stub vfdigits raft.valueFile vValueFileDigits
//verif:stub vfdigits os.Rename vRenameDigits
//verif:stub vfdigits raft.syncDir vSyncDirNop
//verif:stub vfdigits path/filepath.Glob vGlobDigits

var (
	vDigitNames = map[uint64]map[uint64]string{} // not used: names are looked up by the pending pair below
	vPend1, vPend2   uint64
	vPendName        string
	vDirName         string // the single "*<ext>" entry of the ghost directory
)

func vValueFileDigits(dir, ext string, v1, v2 uint64) string {
	if v1 == 0 && v2 == 0 {
		return dir + "/0-0" + ext
	}
	// the harness announced the digits of the pair about to be written
	vAssert(v1 == vPend1 && v2 == vPend2, "valueFile-called-with-the-written-pair")
	return vPendName
}
func vRenameDigits(oldpath, newpath string) error { vDirName = newpath; return nil }
func vSyncDirNop(dir string) error                { return nil }
func vGlobDigits(pattern string) ([]string, error) {
	if vDirName == "" {
		return nil, nil
	}
	return []string{vDirName}, nil
}

// vDecimal: a decimal numeral made of a concrete prefix followed by nsym symbolic digits (no leading zero), and the
// uint64 it denotes (assumed not to overflow). Concrete leading digits keep the solver's work to the digits that
// matter: the property depends on where the value lies relative to 2^63 and 2^64, not on every digit.
func vDecimal(name string, prefix string, nsym int) (string, uint64) {
	ds := append([]byte(prefix), vBytes(name, nsym)...)
	var v uint64
	for i, d := range ds {
		vAssume(d >= '0' && d <= '9')
		if i == 0 && len(ds) > 1 {
			vAssume(d != '0')
		}
		// v*10 + digit must fit in 64 bits: v <= (2^64-1-digit)/10
		dig := uint64(d - '0')
		vAssume(v < 1844674407370955161 || (v == 1844674407370955161 && dig <= 5))
		v *= uint64(10)
		v1 := v + dig
		v = v1
	}
	return string(ds), v
}

func vValueFileRoundTrip(p1 string, n1 int, p2 string, n2 int, id string) {
	s1, v1 := vDecimal("d1", p1, n1)
	s2, v2 := vDecimal("d2", p2, n2)
	vAssume(v1 != 0 || v2 != 0)
	dir, ext := "/ghost", ".term"
	val := &value{dir: dir, ext: ext}
	vDirName = dir + "/0-0" + ext
	vPend1, vPend2, vPendName = v1, v2, dir+"/"+s1+"-"+s2+ext
	err := val.set(v1, v2)
	vAssert(err == nil, id+"-set-ok")
	got, oerr := openValue(dir, ext)
	vAssert(oerr == nil, id+"-reopen-succeeds")
	if oerr == nil {
		vAssert(got.v1 == v1 && got.v2 == v2, id+"-reads-back-what-was-written")
	}
	vReach("end")
}

//verif:check C18 stubs=vfdigits reach=end desc="value file: (v1,v2) written by value.set is what openValue reads back, small values" bounds="first value 1..4 free decimal digits, second value 1..2 free digits"
func VH_C18_valuefile_small() {
	vValueFileRoundTrip("", 1+vChoice(4), "", 1+vChoice(2), "vf")
}

//verif:check C18 stubs=vfdigits reach=end desc="value file around 2^63 and 2^64: 19- and 20-digit values read back exactly" bounds="values 9223372036854775ddd (straddles 2^63), 18446744073709551ddd (up to 2^64-1, overflow excluded), 1844674407370955dddd, in either position; ddd free digits"
func VH_C18_valuefile_large() {
	pre := []string{"9223372036854775", "18446744073709551", "922337203685477"}[vChoice(3)]
	n := 20 - len(pre)
	if pre[0] == '9' {
		n = 19 - len(pre)
	}
	if vChoice(2) == 0 {
		vValueFileRoundTrip(pre, n, "", 1, "vfL")
	} else {
		vValueFileRoundTrip("", 1, pre, n, "vfL")
	}
}

// ---- the formatting side, on concrete boundary values ----
//
// The digit-level harnesses above model valueFile's "%d" (its documented meaning); this one runs the real valueFile
// (fmt.Sprintf on concrete arguments is the real one in the engine) on the values where a formatting change would show:
// 0, 1, 9, 10, 2^32, 2^63-1, 2^63, 2^63+1, 2^64-1. It ties the model to the code; the all-values claim is the
// digit-level one.

//verif:stub vfs os.Rename vRenameDigits
//verif:stub vfs raft.syncDir vSyncDirNop
//verif:stub vfs path/filepath.Glob vGlobDigits

//verif:check C18 stubs=vfs reach=end desc="real valueFile + value.set + openValue on boundary values: the name written is the name parsed back, for both positions" bounds="(v1,v2) over {0,1,9,10,2^32,2^63-1,2^63,2^63+1,2^64-1}^2 (81 concrete pairs, except (0,0))"
func VH_C18_valuefile_boundaries() {
	vals := []uint64{0, 1, 9, 10, 1 << 32, 1<<63 - 1, 1 << 63, 1<<63 + 1, 1<<64 - 1}
	dir, ext := "/ghost", ".id"
	for _, v1 := range vals {
		for _, v2 := range vals {
			if v1 == 0 && v2 == 0 {
				continue
			}
			val := &value{dir: dir, ext: ext}
			vDirName = valueFile(dir, ext, 0, 0)
			vAssert(val.set(v1, v2) == nil, "vfB-set-ok")
			got, err := openValue(dir, ext)
			vAssert(err == nil, "vfB-reopen-succeeds")
			if err == nil {
				vAssert(got.v1 == v1 && got.v2 == v2, "vfB-reads-back-what-was-written")
			}
		}
	}
	vReach("end")
}
