package raft

import "bytes"

// C12: what label (index, term, configuration) a stored snapshot gets, for every interleaving of the snapshot request
// with commits of membership changes and FSM progress.

// vSnapNode: a node (follower role) with a log of L entries, applied/committed up to c0, a committed configuration
// at index ci and possibly a newer, not yet committed configuration entry at index li in its log.
func vSnapNode(L int) (*Raft, *vAbsLog, uint64, uint64) {
	r := vMkRaft(1)
	vSymTermState(r)
	vAssume(r.term >= 1)
	a := vInitLog(r, L, 1)
	r.fsm.FSM = &vFSM{}
	r.commitIndex = vU64("commitIndex")
	vAssume(r.commitIndex <= r.lastLogIndex && r.commitIndex >= r.snaps.index && r.commitIndex >= a.base)
	r.fsm.index = r.commitIndex
	// case-split the applied position so that the applied term is a plain variable, not an ite-chain
	if off := vConcreteInt(int(r.commitIndex - a.base)); off == 0 {
		r.fsm.term = vBaseTerm
	} else {
		r.fsm.term = vEntries[off-1].term
	}
	// configurations: ci <= commitIndex; li is either ci (latest is committed) or the index of a config entry above commitIndex
	ci := vU64("cfg.committed.index")
	vAssume(ci >= 1 && ci <= r.commitIndex)
	cc := vStableConfig("ccfg", 2, ci, 1)
	r.configs.Committed = cc
	r.fsm.config = cc // the newest configuration entry at or below the applied index
	li := ci
	if vBool("pendingConfig") {
		li = vU64("cfg.latest.index")
		vAssume(li > r.commitIndex && li <= r.lastLogIndex)
		lc := vStableConfig("lcfg", 2, li, 1)
		r.configs.Latest = lc
		// the log entry at li is that configuration entry (a real encoding: the FSM loop decodes what it applies)
		k := vConcreteInt(int(li - a.base - 1))
		vAssume(vEntries[k].typ == entryConfig)
		lc.Index, lc.Term = a.base+uint64(k)+1, vEntries[k].term
		a.ents[k] = vEncodeEntry(lc.encode())
		r.configs.Latest = lc
	} else {
		r.configs.Latest = cc
	}
	// no other configuration entry above the committed one
	for k, e := range vEntries {
		idx := a.base + uint64(k) + 1
		vAssume(vImp(vAnd(idx > ci, idx != li), e.typ != entryConfig))
	}
	// the published snapshot, if any, is consistent with the log
	if r.snaps.index > 0 {
		vPublishSnapshot(r, r.snaps.index, r.snaps.term, vStableConfig("scfg", 2, 1, 1), 10)
	}
	return r, a, ci, li
}

//verif:check C12 stubs=env,valuefile,abslog,snapfs reach=taken,commit-between,end desc="take-snapshot request, then 0..1 follower commit steps (which may commit a pending configuration entry and feed the FSM), then the snapshot goroutine runs: the stored label has the FSM's applied index/term and the newest configuration entry at or below that index" bounds="log of 3 entries, at most one pending configuration entry, 2-node configurations; the goroutine body runs after 0 or 1 commit steps"
func VH_C12_label() {
	r, a, ci, li := vSnapNode(3)
	vSetIdleHook(func() { vDrainFSM(r) })
	t := takeSnapshot{task: newTask(), threshold: 0}
	r.onTakeSnapshot(t)
	vAssert(vNumSpawned() == 1 && r.snapTakenCh != nil, "snapshot-goroutine-started")
	// the scheduler may run the goroutine now or after the next commit step
	if vChoice(2) == 1 {
		c1 := vU64("newCommit")
		vAssume(c1 > r.commitIndex && c1 <= r.lastLogIndex)
		r.setCommitIndex(c1)
		r.applyCommitted(nil)
		vDrainFSM(r)
		vReach("commit-between")
	}
	applied, appliedTerm := r.fsm.index, r.fsm.term
	vRunSpawned(0)
	vAssert(len(r.snapTakenCh) == 1, "snapshot-result-delivered")
	res := <-r.snapTakenCh
	if res.err == nil {
		vReach("taken")
		vAssert(res.meta.index == applied && res.meta.term == appliedTerm, "label-index-term-are-last-applied")
		// what is on disk
		g := vSLookup(vMetaFile(r.snaps.dir, res.meta.index))
		vAssert(g != nil, "meta-file-published")
		var m snapshotMeta
		vAssert(m.decode(bytes.NewReader(g.content)) == nil, "meta-file-decodes")
		vAssert(m.index == applied && m.term == appliedTerm, "stored-label-index-term")
		want := ci
		if li <= applied {
			want = li
		}
		vAssert(vImp(li <= applied && li != ci, m.config.Index == want), "label-config-is-newest-at-or-below-index/config-committed-after-request")
		vAssert(vImp(vNot(li <= applied && li != ci), m.config.Index == want), "label-config-is-newest-at-or-below-index")
		vAssert(m.index <= r.commitIndex, "snapshot-holds-only-committed-state")
	}
	_ = a
	vReach("end")
}

//verif:check C12,C08 stubs=env,valuefile,abslog,snapfs reach=taken,pending-config,end desc="a follower that adopted configuration entries through the real changeConfig/commitConfig bookkeeping, then commits further and takes a snapshot: the label's configuration is the newest configuration entry at or below the snapshot index" bounds="log of 3..4 entries from index 1 (bootstrap configuration + update/configuration entries), symbolic commit indexes before and after"
func VH_C12_follower_label() {
	L := 3 + vChoice(2)
	n := vCfgFollower(L)
	r, a := n.r, n.a
	vSetIdleHook(func() { vDrainFSM(r) })
	// commit progress reported by the leader
	c1 := vU64("newCommit")
	vAssume(c1 >= r.commitIndex && c1 <= r.lastLogIndex)
	c1 = vConcrete(c1)
	if c1 > r.commitIndex {
		r.setCommitIndex(c1)
		r.applyCommitted(nil)
		vDrainFSM(r)
	}
	if !r.configs.IsCommitted() {
		vReach("pending-config")
	}
	applied := r.fsm.index
	t := takeSnapshot{task: newTask(), threshold: 0}
	r.onTakeSnapshot(t)
	vRunSpawned(0)
	res := <-r.snapTakenCh
	if res.err == nil {
		vReach("taken")
		var want uint64
		for k, kind := range n.kinds {
			if kind == entryConfig && uint64(k)+1 <= applied {
				want = uint64(k) + 1
			}
		}
		vAssert(res.meta.index == applied, "label-index-is-last-applied")
		// never an older membership than the one in force at the snapshot index
		vAssert(res.meta.config.Index >= want, "label-config-not-older-than-in-force")
		// and not a newer one either (configs.Committed can already be a configuration entry above the applied index)
		vAssert(res.meta.config.Index <= want, "label-config-not-newer-than-in-force/committed-config-above-applied-index")
	}
	_ = a
	vReach("end")
}

//verif:check C12,C09,C19 sched=coop maxsteps=400000 onunwind=violation stubs=env,valuefile,abslog,snapfs onblock=violation reach=both-done,end desc="two snapshots being completed at the same time in one store - the node's own (snapshot goroutine) and one installed by the leader (raft goroutine) - with every file-system call a scheduling point: each completes without error, and the label stored for each index is that snapshot's own label (index, term, configuration, size); the store's latest index is the larger one" bounds="two sinks (indexes 3 and 5, different terms and sizes), round-robin interleaving call by call of the real snapshotSink.done; retain 2"
func VH_C12_concurrent_sinks() {
	r := vMkRaft(1)
	vSnapYield = true
	snaps := &snapshots{dir: vDir + "/snapshots", retain: 2, used: map[uint64]int{}}
	cfg := vStableConfig("cfg", 2, 1, 1)
	type res struct {
		meta snapshotMeta
		err  error
	}
	run := func(index, term uint64, n int, out chan res) {
		sink, err := snaps.new(index, term, cfg)
		if err != nil {
			out <- res{err: err}
			return
		}
		for i := 0; i < n; i++ {
			_, _ = sink.file.Write([]byte{byte(i)})
		}
		m, err := sink.done(nil)
		out <- res{m, err}
	}
	ca, cb := make(chan res, 1), make(chan res, 1)
	go run(3, 1, 2, ca)
	go run(5, 2, 4, cb)
	ra, rb := <-ca, <-cb
	vSnapYield = false
	vReach("both-done")
	vAssert(ra.err == nil && rb.err == nil, "CS-both-snapshots-complete-without-error")
	for _, want := range []struct {
		index, term uint64
	}{{3, 1}, {5, 2}} {
		g := vSLookup(vMetaFile(snaps.dir, want.index))
		vAssert(g != nil, "CS-label-published")
		if g != nil {
			var m snapshotMeta
			vAssert(m.decode(bytes.NewReader(g.content)) == nil, "CS-label-decodes")
			vAssert(m.index == want.index && m.term == want.term, "CS-label-is-that-snapshots-own")
			d := vSLookup(vSnapFile(snaps.dir, want.index))
			vAssert(d != nil && d.size == m.size, "CS-label-size-is-that-snapshots-data-size")
		}
	}
	vAssert(snaps.index == 5 && snaps.term == 2, "CS-latest-is-the-newer-one")
	_ = r
	vReach("end")
}

//verif:check C15,C09 sched=coop+2 maxsteps=400000 onunwind=violation stubs=env,valuefile,abslog,snapfs onblock=violation reach=opened,end desc="a replication (or the FSM loop) opening the latest snapshot while another snapshot completes and retention (keep 1) removes older ones, with every file-system call a scheduling point and every schedule within two deviations from round robin: opening never fails (no storage fault is injected: a failure here makes the replication panic and the leader shut itself down), and the snapshot it hands out keeps its files until it is released" bounds="store holding snapshot 5, retain 1; one snapshots.open racing one snapshotSink.done for index 9"
func VH_C15_snapshot_open_vs_retention() { vSnapshotOpenVsRetention() }

//verif:check C15,C09 tier=thorough sched=coop+4 maxsteps=400000 onunwind=violation stubs=env,valuefile,abslog,snapfs onblock=violation reach=opened,end desc="as VH_C15_snapshot_open_vs_retention, every schedule within four deviations from round robin" bounds="store holding snapshot 5, retain 1; one snapshots.open racing one snapshotSink.done for index 9"
func VH_C15_snapshot_open_vs_retention_sched4() { vSnapshotOpenVsRetention() }

func vSnapshotOpenVsRetention() {
	r := vMkRaft(1)
	snaps := &snapshots{dir: vDir + "/snapshots", retain: 1, used: map[uint64]int{}}
	cfg := vStableConfig("cfg", 2, 1, 1)
	s5, err := snaps.new(5, 1, cfg)
	vAssert(err == nil, "setup")
	_, err = s5.done(nil)
	vAssert(err == nil && snaps.index == 5, "setup-5-published")
	s9, err := snaps.new(9, 1, cfg)
	vAssert(err == nil, "setup")
	vSnapYieldAtRename = true // the completing snapshot runs up to its publishing rename first; interleave from there
	var got *snapshot
	var openErr, doneErr error
	da, db := make(chan struct{}), make(chan struct{})
	go func() { _, doneErr = s9.done(nil); close(db) }()
	go func() { got, openErr = snaps.open(); close(da) }()
	<-da
	<-db
	vSnapYield, vSnapYieldAtRename = false, false
	vAssert(doneErr == nil, "OR-newer-snapshot-completes")
	vAssert(openErr == nil, "OR-opening-the-latest-snapshot-does-not-fail")
	if openErr == nil {
		vReach("opened")
		vAssert(got.meta.index == 5 || got.meta.index == 9, "OR-one-of-the-two")
		vAssert(vSLookup(vSnapFile(snaps.dir, got.meta.index)) != nil && vSLookup(vMetaFile(snaps.dir, got.meta.index)) != nil, "OR-snapshot-in-use-keeps-its-files")
		got.release()
	}
	_ = r
	vReach("end")
}
