package raft

import "time"

// vMkLeader: node `nid` leads term r.term over configuration cfg, with the leader-state invariant LI of DESIGN.md §4:
// one replication per other member with a symbolic match index <= lastLogIndex.
func vMkLeader(n int, L int, stable bool) (*Raft, *leader, *vAbsLog) {
	nid := uint64(1 + vChoice(n))
	r := vMkRaft(nid)
	vSymTermState(r)
	vAssume(r.term >= 1 && r.votedFor == nid)
	a := vInitLog(r, L, 1)
	r.state, r.leader = Leader, nid
	r.fsm.FSM = &vFSM{}
	var cfg Config
	if stable {
		cfg = vStableConfig("cfg", n, vU64("cfg.index"), 1)
	} else {
		cfg = vMkConfig("cfg", n, vU64("cfg.index"), 1)
	}
	vAssume(cfg.Index >= 1 && cfg.Index <= r.lastLogIndex)
	r.configs.Latest = cfg
	r.commitIndex = vU64("commitIndex")
	vAssume(r.commitIndex <= r.lastLogIndex && r.commitIndex >= r.snaps.index)
	r.fsm.index = r.commitIndex
	l := r.ldr
	l.node = cfg.Nodes[nid]
	l.numVoters = cfg.numVoters()
	// a leader is a non-voter only between demoting itself and that configuration committing; no request can be
	// accepted in that window, so the only action it can carry then is the remainder of a Remove
	vAssume(vImp(!l.node.Voter, l.node.Action != Promote))
	l.startIndex = vU64("startIndex")
	vAssume(l.startIndex >= 1 && l.startIndex <= r.lastLogIndex && l.startIndex > a.base)
	// entries from startIndex on carry the leader's term (they were appended by storeEntry in this term),
	// entries before it carry older terms
	for k, e := range vEntries {
		idx := a.base + uint64(k) + 1
		vAssume(vImp(idx >= l.startIndex, e.term == r.term))
		vAssume(vImp(idx < l.startIndex, e.term < r.term))
	}
	l.replUpdateCh = make(chan replUpdate, 64)
	l.removeLTE = a.prev
	for id, nd := range cfg.Nodes {
		if id == nid {
			continue
		}
		repl := &replication{
			node:           nd,
			status:         replicationStatus{id: id, node: nd, removeLTE: a.prev},
			stopCh:         make(chan struct{}),
			leaderUpdateCh: make(chan leaderUpdate, 1),
			replUpdateCh:   l.replUpdateCh,
		}
		repl.status.matchIndex = vU64("match" + string(rune('0'+id)))
		vAssume(repl.status.matchIndex <= r.lastLogIndex)
		if vBool("unreachable" + string(rune('0'+id))) {
			repl.status.noContact = time.Now()
		}
		l.repls[id] = repl
	}
	return r, l, a
}

// vMajorityHas: at least a majority of the voters of cfg have everything up to idx (self counts with selfHas).
func vMajorityHas(r *Raft, l *leader, cfg Config, idx uint64, selfHas uint64) bool {
	var voters, have uint64
	for id, nd := range cfg.Nodes {
		voters += vIte64(nd.Voter, 1, 0)
		var m uint64
		if id == r.nid {
			m = selfHas
		} else if repl, ok := l.repls[id]; ok {
			m = repl.status.matchIndex
		}
		have += vIte64(vAnd(nd.Voter, m >= idx), 1, 0)
	}
	return have >= voters/2+1
}
