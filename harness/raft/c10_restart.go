package raft

// C10: crash at any storage operation boundary inside a handler, then the real openStorage on what the ghost disk
// holds (process-kill model: completed file operations survive, the unflushed log tail may be lost).

import (
	"os"

	"github.com/santhosh-tekuri/raft/log"
)

//verif:stub restart raft.openValue vOpenValue
//verif:stub restart raft/log.Open vLogOpen

var vCrashedLog *vAbsLog

// vCrashedLogs: per storage directory (cluster harnesses restart one node among several); falls back to vCrashedLog.
var vCrashedLogs = map[string]*vAbsLog{}

func vOpenValue(dir, ext string) (*value, error) {
	d := vDisk[vKey(dir, ext)]
	if d == nil {
		return &value{dir: dir, ext: ext}, nil
	}
	// process kill: the directory entry is whatever the last completed rename left
	return &value{dir: dir, ext: ext, v1: d.vol.v1, v2: d.vol.v2}, nil
}

func vLogOpen(dir string, dirMode os.FileMode, opt log.Options) (*log.Log, error) {
	old := vCrashedLog
	if o, ok := vCrashedLogs[dir]; ok {
		old = o
	}
	l, a := vNewLog(old.base)
	a.prev = old.prev
	a.bounds = append([]uint64(nil), old.bounds...)
	// entries beyond the last flush may or may not have reached the header: keep any prefix that includes the flushed part
	keep := vU64("restart.keep")
	vAssume(keep >= old.flushed && keep <= old.last() && keep >= old.base)
	n := vConcreteInt(int(keep - old.base))
	a.ents = append([][]byte(nil), old.ents[:n]...)
	a.flushed = a.last()
	return l, nil
}

// vRestart runs the real openStorage on the ghost disk and returns the new storage (volatile state is gone).
func vRestart(oldLog *vAbsLog) (*storage, *vAbsLog, error) {
	vCrashedLog = oldLog
	vCrashAt = 0
	vCrashArmed = false
	st, err := openStorage(vDir, Options{SnapshotsRetain: 1})
	if err != nil {
		return nil, nil, err
	}
	return st, vAbs(st.log), nil
}

// vNoConfigEntries: the symbolic log entries of these harnesses carry 1-byte payloads, which is not a decodable
// configuration; restart scans the log for configuration entries, so they are update/no-op entries here
// (configuration entries across restart are C08.G4's subject).
func vNoConfigEntries() {
	for _, e := range vEntries {
		vAssume(e.typ != entryConfig)
	}
}

func vAssertRestartInvariant(st *storage, a *vAbsLog, tag string) {
	vAssert(a.prev <= st.snaps.index, tag+"-log-starts-at-or-before-snapshot")
	vAssert(st.snaps.index <= st.lastLogIndex, tag+"-snapshot-not-beyond-last-index")
	vAssert(st.lastLogIndex == a.last() || (a.last() == a.prev && st.lastLogIndex == st.snaps.index), tag+"-last-index-is-the-logs-or-the-snapshots")
	// the next entry a leader sends goes to lastLogIndex+1: the log must be able to take it there
	vAssert(a.last() == st.lastLogIndex, tag+"-log-contiguous-with-snapshot/log-behind-snapshot")
	// where the log still holds the snapshot's last index it agrees with the snapshot there (otherwise everything the
	// log holds up to that index contradicts committed history, and a later leadership of this node would replicate it)
	if a.prev < st.snaps.index && st.snaps.index <= a.last() {
		vAssert(vTermAt(a, a.base, st.snaps.index) == st.snaps.term, tag+"-log-agrees-with-snapshot-at-its-index")
	}
}

//verif:check C10 stubs=env,valuefile,abslog,snapfs,restart reach=crash,restarted,end desc="crash at every storage-operation boundary inside onInstallSnapRequest, then openStorage: opens, term not older, log contiguous with the latest snapshot" bounds="follower log of 1 entry, crash at any storage-operation boundary or none; all 64-bit values"
func VH_C10_install_crash() {
	c := vInstallSetup(1, true)
	r, a, req := c.r, c.a, c.req
	vNoConfigEntries()
	t0 := r.term
	vCrashArmed = true
	var res rpcResult
	crashed := vRunToCrash(func() { res, _ = r.onInstallSnapRequest(req, c.conn) })
	if !crashed {
		vAssume(res == success || res == staleTerm || res == readErr)
	}
	st, a2, err := vRestart(a)
	vAssert(err == nil, "restart-opens")
	if err != nil {
		return
	}
	vReach("restarted")
	vAssert(st.term >= t0, "restart-term-not-older")
	if !crashed && res == success {
		vAssert(st.snaps.index == req.lastIndex, "acknowledged-snapshot-survives")
	}
	vAssertRestartInvariant(st, a2, "R")
	vReach("end")
}

//verif:check C10 stubs=env,valuefile,abslog,snapfs,restart reach=crash,restarted,granted,end desc="crash at every boundary of persisting a vote (before/after rename, after directory sync) or after the reply, then openStorage: term never older than before, (term,vote) is the old or the new pair, and an acknowledged vote is what restart reads" bounds="all 64-bit values; crash at any boundary or none"
func VH_C10_vote_crash() {
	r := vMkRaft(2)
	vSymTermState(r)
	r.leader = vU64("leader")
	a := vInitLog(r, 1, 1)
	vNoConfigEntries()
	if r.snaps.index > 0 {
		vPublishSnapshot(r, r.snaps.index, r.snaps.term, vStableConfig("scfg", 2, 1, 1), 10)
	}
	req := &voteReq{req: req{vU64("req.term"), vU64("req.src")},
		lastLogIndex: vU64("req.lastLogIndex"), lastLogTerm: vU64("req.lastLogTerm"), transfer: vBool("req.transfer")}
	vAssume(req.src != 0 && req.src != r.nid)
	t0, v0 := r.term, r.votedFor
	vCrashArmed = true
	var res rpcResult
	crashed := vRunToCrash(func() { res, _ = r.onVoteRequest(req) })
	st, _, err := vRestart(a)
	vAssert(err == nil, "restart-opens")
	if err != nil {
		return
	}
	vReach("restarted")
	vAssert(st.term >= t0, "restart-term-not-older")
	vAssert(vOr(vAnd(st.term == t0, st.votedFor == v0), vOr(vAnd(st.term == req.term, st.votedFor == req.src), vAnd(st.term == req.term, st.votedFor == 0))), "restart-pair-is-old-or-new")
	vAssert(vImp(st.term == t0, vOr(v0 == 0, st.votedFor == v0)), "restart-keeps-a-recorded-vote")
	if !crashed && res == success {
		vReach("granted")
		vAssert(st.term == req.term && st.votedFor == req.src, "acknowledged-vote-survives-restart")
	}
	vReach("end")
}

//verif:check C10 stubs=env,valuefile,abslog,snapfs,restart reach=crash,restarted,acked,end desc="crash at every storage boundary inside onAppendEntriesRequest (append, truncate, flush, term persist) or after the reply, then openStorage: opens, invariants hold, and everything a success reply acknowledged is in the reopened log" bounds="follower log of 1 entry, request of 0..1 entries, crash at any storage-operation boundary or none"
func VH_C10_append_crash() {
	E := vChoice(2)
	c := vAppendSetup(1, E, true)
	r, a, req := c.r, c.a, c.req
	vNoConfigEntries()
	if r.snaps.index > 0 {
		vPublishSnapshot(r, r.snaps.index, r.snaps.term, r.configs.Latest, 10)
	}
	t0 := r.term
	vCrashArmed = true
	var res rpcResult
	crashed := vRunToCrash(func() { res, _ = r.onAppendEntriesRequest(req, c.conn) })
	st, a2, err := vRestart(a)
	vAssert(err == nil, "restart-opens")
	if err != nil {
		return
	}
	vReach("restarted")
	vAssert(st.term >= t0, "restart-term-not-older")
	vAssertRestartInvariant(st, a2, "R")
	if !crashed && res == success {
		vReach("acked")
		vAssert(st.lastLogIndex >= req.prevLogIndex+uint64(E), "acknowledged-entries-survive-restart")
	}
	vReach("end")
}

// ---- the real findSnapshots / openSnapshots over a directory listing (stub set "globfs") ----

//verif:stub globfs path/filepath.Glob vGlobNamesFn
//verif:stub globfs os.MkdirAll vMkdirAll

var vGlobNames []string

func vGlobNamesFn(pattern string) ([]string, error) { return vGlobNames, nil }

func vDec(v uint64) string {
	if v == 0 {
		return "0"
	}
	var b []byte
	for v > 0 {
		b = append([]byte{byte('0' + v%10)}, b...)
		v /= 10
	}
	return string(b)
}

//verif:check C10,C18,C09 stubs=globfs reach=listed,end desc="the real findSnapshots over a directory listing in arbitrary order: every published snapshot index is parsed back exactly from its file name and the list is newest first, so a restart picks the latest snapshot" bounds="2 meta files with 1..3 free decimal digits each plus one file with a fixed boundary index (2^63 or 2^64-1), listed in any order"
func VH_C10_findSnapshots() {
	var want []uint64
	vGlobNames = nil
	for f := 0; f < 2; f++ {
		n := 1 + vChoice(3)
		d := vBytes("digits", n)
		var v uint64
		for k := 0; k < n; k++ {
			vAssume(d[k] >= '0' && d[k] <= '9')
			v = v*10 + uint64(d[k]-'0')
		}
		vAssume(vImp(n > 1, d[0] != '0'))
		want = append(want, v)
		vGlobNames = append(vGlobNames, vDir+"/snapshots/"+string(d)+".meta")
	}
	big := []uint64{1 << 63, 1<<64 - 1}[vChoice(2)]
	want = append(want, big)
	name := vDir + "/snapshots/" + vDec(big) + ".meta"
	if vChoice(2) == 0 {
		vGlobNames = append(vGlobNames, name)
	} else {
		vGlobNames = append([]string{name}, vGlobNames...)
	}
	vAssume(want[0] != want[1]) // two files cannot share a name
	got, err := findSnapshots(vDir + "/snapshots")
	vAssert(err == nil && len(got) == 3, "FS-lists-every-published-snapshot")
	vReach("listed")
	vAssert(got[0] == big, "FS-latest-snapshot-first")
	vAssert(got[0] > got[1] && got[1] > got[2], "FS-newest-to-oldest")
	for _, v := range want {
		vAssert(vOr(got[0] == v, vOr(got[1] == v, got[2] == v)), "FS-index-parsed-back-exactly")
	}
	vReach("end")
}

//verif:check C10 stubs=env,valuefile,abslog,snapfs,restart reach=crash,restarted,partial-reset,end desc="crash inside the log reset of onInstallSnapRequest when the log spans several segments (the reset unlinks them oldest first, so a crash leaves a suffix of the old log that may start beyond the snapshot), then openStorage: the node starts, and its log is contiguous with its latest snapshot" bounds="follower (state Follower, no pending configuration) with a log of 3 uncommitted update entries, one per segment, after a symbolic base; a snapshot request of the node's term with an empty payload that makes it discard the log; crash at any storage-operation boundary incl. between the unlinks"
func VH_C10_install_crash_segments() { vInstallCrashSegments(true) }

//verif:check C10 tier=thorough stubs=env,valuefile,abslog,snapfs,restart reach=crash,restarted,partial-reset,end desc="as VH_C10_install_crash_segments without the simplifying assumptions" bounds="any role, optional pending configuration, any request term and payload size" maxdec=3000
func VH_C10_install_crash_segments_full() { vInstallCrashSegments(false) }

func vInstallCrashSegments(lean bool) {
	c := vInstallSetup(3, true)
	r, a, req := c.r, c.a, c.req
	vNoConfigEntries()
	if lean {
		vAssume(r.state == Follower && r.configs.IsCommitted() && req.size == 0 && req.term == r.term)
		for _, e := range vEntries {
			vAssume(e.typ == entryUpdate)
		}
	}
	a.bounds = []uint64{a.base + 1, a.base + 2}
	vAssume(r.commitIndex == a.base && r.fsm.index == a.base && r.snaps.index == a.base)
	// the request makes the node discard its log
	vAssume(req.term >= r.term)
	vAssume(vNot(vAnd(vAnd(req.lastIndex > a.prev, req.lastIndex <= a.last()), vTermAt(a, a.base, req.lastIndex) == req.lastTerm)))
	vCrashArmed = true
	crashed := vRunToCrash(func() { _, _ = r.onInstallSnapRequest(req, c.conn) })
	if crashed && vCrashedAt == "log.reset.partial" {
		vReach("partial-reset")
	}
	st, a2, err := vRestart(a)
	vAssert(err == nil, "restart-opens")
	if err != nil {
		return
	}
	vReach("restarted")
	vAssertRestartInvariant(st, a2, "R")
	vReach("end")
}
