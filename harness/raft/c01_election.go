package raft

// C01 step obligations on the election code (DESIGN.md §5 C01: E1, E2, Q1, S1) and C11 (no authority for non-voters).

// vElectionNode: a node with symbolic term state and a symbolic 1..n node configuration in which it has id `nid`.
func vElectionNode(n int) *Raft {
	nid := uint64(1 + vChoice(n+1)) // n+1 = not a member
	r := vMkRaft(nid)
	vSymTermState(r)
	r.lastLogIndex, r.lastLogTerm = vU64("lastLogIndex"), vU64("lastLogTerm")
	vAssume(r.lastLogTerm <= r.term)
	cfg := vMkConfig("cfg", n, vU64("cfg.index"), 1)
	r.configs.Latest, r.configs.Committed = cfg, cfg
	return r
}

//verif:check C01 stubs=env,valuefile reach=end,requests,retry desc="candidate.init / candidate.onTimeout -> startElection: needs a voter; term+1 and self-vote durable before any request is built; votesNeeded = quorum of latest config; fresh reply channel holding only the self vote; one request per other voter carrying the new term" bounds="configurations of n<=4 nodes with symbolic voter flags/actions; all 64-bit terms"
func VH_C01_startElection() {
	n := 1 + vChoice(4)
	r := vElectionNode(n)
	vAssume(r.configs.Latest.isVoter(r.nid))
	vAssume(r.term < ^uint64(0))
	t0 := r.term
	r.state = Candidate
	c := r.cnd
	c.transfer = vBool("cnd.transfer")
	// elections are started by the state loop through candidate.init (on entering the state) and candidate.onTimeout
	// (every retry). Run the first one, and on half of the paths a retry after it, and look at the last election started.
	c.init()
	if vChoice(2) == 1 {
		vReach("retry")
		first := c.respCh
		vAssume(r.term < ^uint64(0))
		nsp := vNumSpawned()
		c.onTimeout()
		vAssert(c.respCh != first, "E1-fresh-reply-channel-per-election")
		vSpawnBase = nsp
		t0 = r.term - 1
	}
	old := (chan rpcResponse)(nil)
	dt, dv := vDurable(".term")
	vAssert(dt == t0+1 && dv == r.nid, "E1-selfvote-durable")
	vAssert(r.term == t0+1 && r.votedFor == r.nid, "E1-selfvote-in-memory")
	voters := 0
	for _, nd := range r.configs.Latest.Nodes {
		if nd.Voter {
			voters++
		}
	}
	vAssert(c.votesNeeded == voters/2+1, "E1-votes-needed-is-majority-of-voters")
	vAssert(c.respCh != old && c.respCh != nil, "E1-fresh-reply-channel")
	vAssert(len(c.respCh) == 1, "E1-only-self-vote-queued")
	self := <-c.respCh
	vAssert(self.from == r.nid && self.err == nil && self.getResult() == success && self.getTerm() == t0+1, "E1-self-vote-shape")
	vAssert(vNumSpawned()-vSpawnBase == voters-1, "E1-one-request-per-other-voter")
	if vNumSpawned() > 0 {
		vReach("requests")
	}
	vAssert(cap(c.respCh) >= voters, "E1-reply-channel-never-blocks")
	vReach("end")
}

//verif:check C01 stubs=env,valuefile reach=leader,stepdown,counted,ignored,end desc="candidate.onVoteResult: only an error-free success with term <= own term is counted; leader exactly when the count reaches zero; a higher term makes it a follower at that term" bounds="all 64-bit values; votesNeeded 1..3"
func VH_C01_onVoteResult() {
	r := vElectionNode(3)
	vAssume(r.configs.Latest.isVoter(r.nid))
	r.state = Candidate
	vAssume(r.votedFor == r.nid && r.term >= 1)
	c := r.cnd
	c.votesNeeded = 1 + vChoice(3)
	need0 := c.votesNeeded
	t0 := r.term
	resp := rpcResponse{response: &voteResp{resp{vU64("resp.term"), rpcResult(vU8("resp.result")), nil}}, from: vU64("resp.from")}
	if vChoice(2) == 1 {
		resp.err = vIOError{"dial"}
	}
	c.onVoteResult(resp)
	dt, _ := vDurable(".term")
	counted := c.votesNeeded == need0-1
	if counted {
		vReach("counted")
		vAssert(resp.err == nil && resp.getResult() == success && resp.getTerm() <= t0, "E2-only-success-counts")
	} else {
		vReach("ignored")
		vAssert(c.votesNeeded == need0, "E2-count-otherwise-unchanged")
	}
	if r.state == Leader {
		vReach("leader")
		vAssert(counted && c.votesNeeded == 0 && r.leader == r.nid && r.term == t0, "E2-leader-iff-count-zero")
	}
	if resp.err == nil && resp.getTerm() > t0 {
		vReach("stepdown")
		vAssert(r.state == Follower && r.term == resp.getTerm() && dt == r.term && r.votedFor == 0, "E2-higher-term-stepdown")
	}
	vAssert(r.term >= t0 && dt == r.term, "S1-term-monotone-and-durable")
	vAssert(vImp(r.term != t0, r.state == Follower), "S1-term-change-implies-follower")
	vReach("end")
}

//verif:check C01 reach=end desc="quorum intersection with the real Config.quorum arithmetic: any two vote sets that each reach quorum() of voters share a voter; also for two configurations whose voter sets differ in at most one node" bounds="configurations of n<=5 nodes, symbolic voter flags and symbolic vote sets"
func VH_C01_quorum_intersection() {
	n := 1 + vChoice(5)
	c1 := vStableConfig("c1", n, 1, 1)
	// a second configuration that differs from c1 in the voting right of at most one node
	c2 := Config{Nodes: make(map[uint64]Node), Index: 2, Term: 1}
	flip := uint64(vChoice(n + 1)) // 0 = identical
	for id, nd := range c1.Nodes {
		if id == flip {
			nd.Voter = !nd.Voter
		}
		c2.Nodes[id] = nd
	}
	q1, q2 := c1.quorum(), c2.quorum()
	// two arbitrary sets of granted votes, one counted under c1 and one under c2
	var n1, n2 uint64
	common := false
	for id := uint64(1); id <= uint64(n); id++ {
		in1, in2 := vBool("set1"), vBool("set2")
		v1, v2 := c1.Nodes[id].Voter, c2.Nodes[id].Voter
		n1 += vIte64(vAnd(in1, v1), 1, 0)
		n2 += vIte64(vAnd(in2, v2), 1, 0)
		common = vOr(common, vAnd(in1, in2))
	}
	vAssume(c1.numVoters() >= 1 && c2.numVoters() >= 1)
	vAssert(vImp(vAnd(n1 >= uint64(q1), n2 >= uint64(q2)), common), "Q1-quorums-intersect")
	vReach("end")
}

var vSpawnBase int

// ---- C11 ----

//verif:check C11 stubs=env,valuefile reach=candidate,aborted,end desc="follower.onTimeout: becomes candidate only if bootstrapped, member and voter of its own latest configuration" bounds="n<=3 nodes, node may be a non-member; symbolic voter flags"
func VH_C11_onTimeout() {
	r := vElectionNode(3)
	r.state = Follower
	r.leader = vU64("leader")
	f := &follower{Raft: r}
	f.onTimeout()
	nd, member := r.configs.Latest.Nodes[r.nid]
	isVoter := member && nd.Voter && r.configs.Latest.Index > 0
	if r.state == Candidate {
		vReach("candidate")
		vAssert(isVoter, "only-voter-becomes-candidate")
	} else {
		vReach("aborted")
		vAssert(r.state == Follower && !isVoter && f.electionAborted, "nonvoter-stays-follower")
	}
	vAssert(r.leader == 0, "timeout-forgets-leader")
	vReach("end")
}

//verif:check C11 stubs=env,valuefile reach=refused,accepted,end desc="onTimeoutNowRequest: a node that is not a voter in its latest configuration refuses and changes nothing" bounds="n<=3 nodes, node may be a non-member"
func VH_C11_timeoutNow() {
	r := vElectionNode(3)
	r.state = State(vU8("state"))
	vAssume(r.state == Follower || r.state == Candidate)
	r.leader = vU64("leader")
	s0, l0, t0 := r.state, r.leader, r.term
	res, err := r.onTimeoutNowRequest(&timeoutNowReq{req{r.term, 9}})
	nd, member := r.configs.Latest.Nodes[r.nid]
	isVoter := member && nd.Voter
	vAssert(err == nil, "no-error")
	if res == nonVoter {
		vReach("refused")
		vAssert(!isVoter && r.state == s0 && r.leader == l0 && r.term == t0, "nonvoter-refuses-unchanged")
	} else {
		vReach("accepted")
		vAssert(res == success && isVoter && r.state == Candidate && r.cnd.transfer, "voter-becomes-transfer-candidate")
	}
	vReach("end")
}
