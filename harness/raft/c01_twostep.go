package raft

// Multi-step obligations around voting (C01/C05 K2, C02 U1).

//verif:check C05,C01 stubs=env,valuefile,abslog,snapfs,restart reach=first-granted,second-granted,restarted,end desc="two vote requests for the same term from different candidates, with anything in between (leader contact, leader loss, role changes by havoc, an optional crash and restart through the real openStorage): never both granted" bounds="all 64-bit values; two requests; optional process-kill restart in between"
func VH_C05_two_requests_same_term() {
	r := vMkRaft(2)
	vSymTermState(r)
	r.leader = vU64("leader")
	a := vInitLog(r, 1, 1)
	vNoConfigEntries()
	if r.snaps.index > 0 {
		vPublishSnapshot(r, r.snaps.index, r.snaps.term, vStableConfig("scfg", 2, 1, 1), 10)
	}
	T := vU64("T")
	req1 := &voteReq{req: req{T, vU64("c1")}, lastLogIndex: vU64("c1.lli"), lastLogTerm: vU64("c1.llt"), transfer: vBool("c1.transfer")}
	req2 := &voteReq{req: req{T, vU64("c2")}, lastLogIndex: vU64("c2.lli"), lastLogTerm: vU64("c2.llt"), transfer: vBool("c2.transfer")}
	vAssume(req1.src != 0 && req2.src != 0 && req1.src != req2.src && req1.src != r.nid && req2.src != r.nid)
	res1, _ := r.onVoteRequest(req1)
	if res1 == success {
		vReach("first-granted")
	}
	// in between: the node may hear from a leader, lose it, change role - none of which may touch (term, votedFor)
	// other than raising the term; model the worst case: same term kept, volatile state arbitrary
	r.leader = vU64("leader'")
	r.state = State(vU8("state'"))
	vAssume(r.state == Follower || r.state == Candidate)
	if vBool("restart") {
		st, _, err := vRestart(a)
		vAssert(err == nil, "restart-opens")
		if err != nil {
			return
		}
		vReach("restarted")
		r.storage = st
		r.leader = 0
		r.state = Follower
	}
	res2, _ := r.onVoteRequest(req2)
	if res2 == success {
		vReach("second-granted")
	}
	vAssert(vNot(vAnd(res1 == success, res2 == success)), "K2-at-most-one-vote-per-term")
	vReach("end")
}

//verif:check C02,C01 stubs=env,valuefile reach=granted,refused-stale-log,end desc="up-to-date rule: a vote is granted only to a candidate whose (lastLogTerm, lastLogIndex) is lexicographically >= the voter's" bounds="all 64-bit values"
func VH_C02_vote_up_to_date() {
	r := vMkRaft(vU64("nid"))
	vSymTermState(r)
	r.leader = vU64("leader")
	r.lastLogIndex, r.lastLogTerm = vU64("lastLogIndex"), vU64("lastLogTerm")
	vAssume(r.nid != 0 && r.lastLogTerm <= r.term)
	req := &voteReq{req: req{vU64("req.term"), vU64("req.src")},
		lastLogIndex: vU64("req.lastLogIndex"), lastLogTerm: vU64("req.lastLogTerm"), transfer: vBool("req.transfer")}
	vAssume(req.src != 0 && req.src != r.nid)
	v0, t0 := r.votedFor, r.term
	res, _ := r.onVoteRequest(req)
	upToDate := vOr(req.lastLogTerm > r.lastLogTerm, vAnd(req.lastLogTerm == r.lastLogTerm, req.lastLogIndex >= r.lastLogIndex))
	if res == success {
		vReach("granted")
		// a repeated grant to the candidate already voted for in this term re-states an earlier decision
		repeat := vAnd(req.term == t0, v0 == req.src)
		vAssert(vOr(repeat, upToDate), "U1-new-vote-only-for-up-to-date-log")
	}
	if res == logNotUptodate {
		vReach("refused-stale-log")
		vAssert(vNot(upToDate), "U1-up-to-date-candidate-not-refused-for-log")
	}
	vReach("end")
}
