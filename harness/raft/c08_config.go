package raft

import "bytes"

// C08: every configuration entry a leader appends, on every path that can append one.

type vCfgAppend struct {
	conf        Config
	prev        Config // Latest at the moment of the append
	isCommitted bool
	commitReady bool
	inTransfer  bool
}

var vCfgAppends []vCfgAppend

func vWatchConfigAppends(r *Raft, l *leader) {
	vWatchR, vCommitted0 = r, r.configs.Committed.clone()
	vAppendHook = func(b []byte) {
		e := &entry{}
		if err := e.decode(bytes.NewReader(b)); err != nil {
			panic(err)
		}
		if e.typ != entryConfig {
			return
		}
		var c Config
		if err := c.decode(e); err != nil {
			panic(err)
		}
		vCfgAppends = append(vCfgAppends, vCfgAppend{
			conf: c, prev: r.configs.Latest,
			isCommitted: r.configs.IsCommitted(),
			commitReady: r.commitIndex >= l.startIndex,
			inTransfer:  l.transfer.inProgress(),
		})
	}
}

var (
	vRequested  *Config // the configuration submitted by the request under test, if any
	vWatchR     *Raft
	vCommitted0 Config // deep copy of the committed configuration when watching started
)

// vSameMembership: same nodes with the same voter flags and pending actions.
func vSameMembership(a, b Config) bool {
	if len(a.Nodes) != len(b.Nodes) {
		return false
	}
	same := true
	for id, x := range a.Nodes {
		y, ok := b.Nodes[id]
		same = vAnd(same, vAnd(ok, vAnd(x.Voter == y.Voter, x.Action == y.Action)))
	}
	return same
}

// vCheckConfigAppends asserts the C08 obligations for every configuration appended while watching.
func vCheckConfigAppends(tag string, checkReady bool) {
	// a configuration is identified by its index: as long as the committed configuration keeps its index its
	// membership is what it was (a pending change must be built on a copy, never written into the shared map)
	if vWatchR != nil && vWatchR.configs.Committed.Index == vCommitted0.Index {
		vAssert(vSameMembership(vWatchR.configs.Committed, vCommitted0), tag+"-committed-configuration-content-unchanged-while-its-index-is")
	}
	for _, ap := range vCfgAppends {
		vReach("config-appended")
		var diff, voters, plain uint64
		for id, nn := range ap.conf.Nodes {
			old, ok := ap.prev.Nodes[id]
			was := vAnd(ok, old.Voter)
			diff += vIte64(was != nn.Voter, 1, 0)
			voters += vIte64(nn.Voter, 1, 0)
			plain += vIte64(vAnd(nn.Voter, nn.Action == None), 1, 0)
		}
		for id, old := range ap.prev.Nodes {
			if _, ok := ap.conf.Nodes[id]; !ok {
				diff += vIte64(old.Voter, 1, 0)
			}
		}
		// a vote is gained only by carrying out a Promote that was pending in the configuration before (C11: never by
		// re-introducing an older configuration on top of a newer one)
		gained := true
		for id, nn := range ap.conf.Nodes {
			old, ok := ap.prev.Nodes[id]
			asked := false // ... or a Promote the request being processed asks for (carried out at once if the node has caught up)
			if vRequested != nil {
				if rn, rok := vRequested.Nodes[id]; rok {
					asked = vAnd(!rn.Voter, rn.Action == Promote)
				}
			}
			gained = vAnd(gained, vImp(vAnd(nn.Voter, vNot(vAnd(ok, old.Voter))), vAnd(ok, vOr(old.Action == Promote, asked))))
		}
		vAssert(gained, tag+"-a-vote-is-gained-only-through-a-pending-promote")
		vAssert(diff <= 1, tag+"-voter-set-changes-by-at-most-one")
		vAssert(voters >= 1, tag+"-a-voter-remains")
		vAssert(plain >= 1, tag+"-a-voter-without-pending-action-remains")
		vAssert(ap.isCommitted, tag+"-previous-config-committed")
		vAssert(!ap.inTransfer, tag+"-not-during-transfer")
		if checkReady {
			vAssert(ap.commitReady, tag+"-own-term-entry-committed-first")
		}
	}
}

//verif:check C08 stubs=env,valuefile,abslog reach=config-appended,rejected,end desc="leader.onChangeConfig with any submitted configuration: every configuration entry appended changes the voter set by at most one node, keeps a voter, and is appended only when the previous configuration is committed, the leader has committed an entry of its term, and no transfer is in progress" bounds="current configuration n<=2 nodes (symbolic voter flags, stable), submitted configuration: same nodes with symbolic voter flags/actions, one may be dropped, one new node may be added; log of 2 entries"
func VH_C08_onChangeConfig() { vOnChangeConfig(1 + vChoice(2)) }

//verif:check C08 tier=thorough stubs=env,valuefile,abslog reach=config-appended,rejected,end desc="as VH_C08_onChangeConfig with a 3-node current configuration" bounds="current configuration n=3 nodes; submitted: same nodes, one may be dropped, one may be added"
func VH_C08_onChangeConfig_n3() { vOnChangeConfig(3) }

func vOnChangeConfig(n int) {
	r, l, _ := vMkLeader(n, 2, true)
	cfg := r.configs.Latest
	vAssume(cfg.numVoters() >= 1 && l.node.Voter)
	if vBool("latestCommitted") {
		r.configs.Committed = cfg
	} else {
		r.configs.Committed = vStableConfig("ccfg", n, 0, 1)
		vAssume(r.configs.Committed.Index < cfg.Index)
	}
	if vBool("transferInProgress") {
		l.transfer.timer.active = true
		l.transfer.transferLdr = transferLdr{task: newTask()}
	}
	// the submitted configuration
	nc := Config{Nodes: make(map[uint64]Node), Index: vU64("new.index"), Term: cfg.Term}
	drop := uint64(vChoice(n + 1)) // 0 = nobody dropped
	for id, nd := range cfg.Nodes {
		if id == drop {
			continue
		}
		nn := Node{ID: id, Addr: nd.Addr, Voter: vBool("new.voter" + string(rune('0'+id))), Action: Action(vU8("new.action" + string(rune('0'+id))))}
		vAssume(nn.Action <= ForceRemove)
		nc.Nodes[id] = nn
	}
	if vChoice(2) == 1 {
		id := uint64(n + 1)
		nn := Node{ID: id, Addr: vAddr(n + 1), Voter: vBool("new.voterX"), Action: Action(vU8("new.actionX"))}
		vAssume(nn.Action <= ForceRemove)
		nc.Nodes[id] = nn
	}
	vWatchConfigAppends(r, l)
	t := changeConfig{task: newTask(), newConf: nc}
	vRequested = &t.newConf
	l.onChangeConfig(t)
	if len(vCfgAppends) == 0 {
		vReach("rejected")
	}
	vCheckConfigAppends("G1", true)
	vReach("end")
}

//verif:check C08,C09 stubs=env,valuefile,abslog reach=config-appended,repl-view,end desc="leader.init with pending actions in the latest configuration: configuration entries appended while becoming leader obey the same rules; every replication task is started with a non-nil view beginning at the log's current first index, whatever compaction happened while this node was not leader and whatever removeLTE a previous leadership left in the reused leader struct" bounds="n<=3 nodes, symbolic voter flags and actions, log of 2 entries after a symbolic base, any stale removeLTE"
func VH_C08_leader_init() {
	n := 1 + vChoice(3)
	nid := uint64(1 + vChoice(n))
	r := vMkRaft(nid)
	vSymTermState(r)
	vAssume(r.term >= 1 && r.votedFor == nid)
	a := vInitLog(r, 2, 1)
	r.state, r.leader = Leader, nid
	r.fsm.FSM = &vFSM{}
	cfg := vMkConfig("cfg", n, vU64("cfg.index"), 1)
	vAssume(cfg.Index >= 1 && cfg.Index <= r.lastLogIndex)
	vAssume(cfg.isVoter(nid))
	r.configs.Latest = cfg
	r.commitIndex = vU64("commitIndex")
	vAssume(r.commitIndex <= r.lastLogIndex && r.commitIndex >= r.snaps.index)
	r.fsm.index = r.commitIndex
	if vBool("latestCommitted") {
		r.configs.Committed = cfg
		vAssume(cfg.Index <= r.commitIndex)
	} else {
		r.configs.Committed = vStableConfig("ccfg", n, 0, 1)
		vAssume(r.configs.Committed.Index < cfg.Index && cfg.Index > r.commitIndex)
	}
	l := r.ldr
	// the leader struct is reused across terms of one process: whatever removeLTE a previous leadership left behind
	l.removeLTE = vU64("stale.removeLTE")
	first := a.prevIndex()
	vWatchConfigAppends(r, l)
	l.init()
	vCheckConfigAppends("G2-init", true)
	// C09: every replication task starts with a readable view of the log as compacted so far (by this node as
	// follower, by an installed snapshot, or before a restart), not one derived from a previous leadership
	vAssert(l.removeLTE == first, "R1-leader-starts-from-the-log's-first-index")
	for _, repl := range l.repls {
		vAssert(repl.log != nil, "R1-replication-has-a-log-view")
		if repl.log != nil {
			vAssert(repl.log.PrevIndex() == first, "R1-replication-view-starts-at-the-log's-first-index")
			vAssert(repl.status.removeLTE == first, "R1-replication-removeLTE-is-current")
			vReach("repl-view")
		}
	}
	vReach("end")
}

//verif:check C08 stubs=env,valuefile,abslog reach=config-appended,end desc="configuration actions started when a pending configuration commits (checkReplUpdates -> setCommitIndex -> checkConfigActions) and on transfer timeout" bounds="n=2 nodes, symbolic voter flags and actions, log of 2 entries"
func VH_C08_commit_then_action() { vCommitThenAction(2) }

//verif:check C08 tier=thorough stubs=env,valuefile,abslog reach=config-appended,end desc="as VH_C08_commit_then_action with 3 nodes" bounds="n=3 nodes"
func VH_C08_commit_then_action_n3() { vCommitThenAction(3) }

func vCommitThenAction(n int) {
	r, l, _ := vMkLeader(n, 2, false)
	cfg := r.configs.Latest
	vAssume(cfg.numVoters() >= 1)
	if vBool("latestCommitted") {
		r.configs.Committed = cfg
		vAssume(cfg.Index <= r.commitIndex)
	} else {
		r.configs.Committed = vStableConfig("ccfg", n, 0, 1)
		vAssume(r.configs.Committed.Index < cfg.Index && cfg.Index > r.commitIndex)
	}
	// a leader whose latest configuration is committed is a voter of it (Raft.setCommitIndex steps it down otherwise)
	vAssume(vImp(r.configs.IsCommitted(), l.node.Voter))
	vWatchConfigAppends(r, l)
	if vChoice(2) == 0 {
		var st *replicationStatus
		k := vChoice(n - 1)
		i := 0
		for _, repl := range l.repls {
			if i == k {
				st = &repl.status
			}
			i++
		}
		m := vU64("update.match")
		vAssume(m <= r.lastLogIndex && m >= st.matchIndex)
		l.checkReplUpdates(replUpdate{status: st, update: matchIndex{m}})
	} else {
		l.transfer.timer.active = true
		l.transfer.transferLdr = transferLdr{task: newTask()}
		l.transfer.term = r.term
		l.onTransferTimeout()
	}
	vCheckConfigAppends("G2", true)
	vReach("end")
}

//verif:check C17,C08 stubs=env,valuefile,abslog reach=started,end desc="progress step P5: a membership action that is pending in a committed configuration and needs nothing else (demote/force-remove of a follower) is started in the very step in which it becomes permitted - when the leader commits the first entry of its term" bounds="2..3 nodes, the follower carries Demote or ForceRemove, the leader's no-op is the entry being committed"
func VH_C17_pending_action_started() {
	n := 2 + vChoice(2)
	r, l, a := vMkLeader(n, 2, false)
	cfg := r.configs.Latest
	vAssume(r.nid == 1 && l.node.Voter && l.node.Action == None)
	nd2 := cfg.Nodes[2]
	vAssume(vOr(vAnd(nd2.Voter, nd2.Action == Demote), nd2.Action == ForceRemove))
	if n == 3 {
		nd3 := cfg.Nodes[3]
		vAssume(nd3.Action == None)
	}
	r.configs.Committed = cfg
	// the leader has just been elected: its no-op is the last entry, nothing of its term is committed yet
	vAssume(l.startIndex == r.lastLogIndex && r.commitIndex < l.startIndex && cfg.Index <= r.commitIndex)
	_ = a
	vWatchConfigAppends(r, l)
	vAssert(!l.canChangeConfig(), "P5-not-permitted-before-own-term-commit")
	// every voter acknowledges the no-op
	for _, repl := range l.repls {
		repl.status.matchIndex = r.lastLogIndex
	}
	l.onMajorityCommit()
	vAssert(r.commitIndex >= l.startIndex, "P3-no-op-committed")
	vAssert(len(vCfgAppends) >= 1, "P5-pending-action-started-when-permitted")
	if len(vCfgAppends) >= 1 {
		vReach("started")
		nn, still := vCfgAppends[0].conf.Nodes[2]
		vAssert(!still || !nn.Voter, "P5-the-action-is-the-pending-one")
	}
	vCheckConfigAppends("P5", true)
	vReach("end")
}

//verif:check C17,C16,C08 stubs=env,valuefile,abslog reach=started,end desc="progress step P5 after a leadership transfer that times out: membership actions are held back while a transfer is in progress; when the transfer timer fires (leader.onTransferTimeout) the transfer task fails with a timeout error and a pending action that needs nothing else (demote/force-remove of a follower) is started in that very step - nothing else would re-evaluate it in an idle cluster" bounds="2..3 nodes, the follower carries Demote or ForceRemove, own-term entry committed, transfer in progress"
func VH_C17_pending_action_after_transfer_timeout() {
	n := 2 + vChoice(2)
	r, l, a := vMkLeader(n, 2, false)
	cfg := r.configs.Latest
	vAssume(r.nid == 1 && l.node.Voter && l.node.Action == None)
	nd2 := cfg.Nodes[2]
	vAssume(vOr(vAnd(nd2.Voter, nd2.Action == Demote), nd2.Action == ForceRemove))
	if n == 3 {
		nd3 := cfg.Nodes[3]
		vAssume(nd3.Action == None)
	}
	r.configs.Committed = cfg
	vAssume(r.commitIndex >= l.startIndex && cfg.Index <= r.commitIndex)
	_ = a
	tr := transferLdr{task: newTask(), timeout: 1000}
	l.transfer.timer.active = true
	l.transfer.transferLdr = tr
	l.transfer.term = r.term
	vWatchConfigAppends(r, l)
	vAssert(!l.canChangeConfig(), "P5-not-permitted-while-a-transfer-is-in-progress")
	// stateLoop's transfer-timer arm: l.transfer.timer.active = false; l.onTransferTimeout()
	l.transfer.timer.active = false
	l.onTransferTimeout()
	vAssert(isClosed(tr.Done()) && tr.Err() != nil, "T-timed-out-transfer-fails-with-an-error")
	vAssert(!l.transfer.inProgress() && r.state == Leader, "T-leader-keeps-leading-after-the-timeout")
	vAssert(len(vCfgAppends) >= 1, "P5-pending-action-started-when-the-transfer-times-out")
	if len(vCfgAppends) >= 1 {
		vReach("started")
		nn, still := vCfgAppends[0].conf.Nodes[2]
		vAssert(!still || !nn.Voter, "P5-the-action-is-the-pending-one")
	}
	vCheckConfigAppends("P5t", true)
	vReach("end")
}

//verif:check C15,C16,C08 stubs=env,valuefile,abslog reach=stepped-down,still-leader,end desc="a match-index report that commits a pending configuration while a leadership transfer is waiting for a ready target: whatever that commit does (including the leader stepping down because the committed configuration no longer has it as voter), the rest of the step - quorum check, transfer target selection - runs without a self-inflicted failure, and a transfer still pending has its task unanswered exactly while its timer runs" bounds="n=3 nodes, followers plain voters, the leader's own voter flag/action symbolic, log of 2 entries, pending or committed latest configuration, transfer to a named voter or to any"
func VH_C15_commit_stepdown_with_transfer() { vCommitStepdownWithTransfer(false) }

//verif:check C15,C16,C08 tier=thorough stubs=env,valuefile,abslog reach=stepped-down,still-leader,end desc="as VH_C15_commit_stepdown_with_transfer with the followers' voter flags and pending actions symbolic too" bounds="n=3 nodes, all voter flags/actions symbolic, log of 2 entries"
func VH_C15_commit_stepdown_with_transfer_full() { vCommitStepdownWithTransfer(true) }

func vCommitStepdownWithTransfer(full bool) {
	r, l, _ := vMkLeader(3, 2, false)
	cfg := r.configs.Latest
	vAssume(cfg.numVoters() >= 1)
	for id, nd := range cfg.Nodes {
		if id != r.nid && !full {
			vAssume(nd.Voter && nd.Action == None) // the followers are plain voters; the leader's own flags are free
		}
	}
	if vBool("latestCommitted") {
		r.configs.Committed = cfg
		vAssume(cfg.Index <= r.commitIndex)
	} else {
		r.configs.Committed = vStableConfig("ccfg", 3, 0, 1)
		vAssume(r.configs.Committed.Index < cfg.Index && cfg.Index > r.commitIndex)
	}
	vAssume(vImp(r.configs.IsCommitted(), l.node.Voter))
	// a transfer was accepted earlier (validateTransfer: at least two voters, a named target is a voter other than the
	// leader) and no target was ready yet
	vAssume(cfg.numVoters() >= 2)
	t := transferLdr{task: newTask()}
	if vBool("transfer.named") {
		t.target = vU64("transfer.target")
		vAssume(t.target != r.nid && cfg.isVoter(t.target))
	}
	l.transfer.transferLdr = t
	l.transfer.term = r.term
	l.transfer.timer.active = true
	var st *replicationStatus
	k := vChoice(2)
	i := 0
	for _, repl := range l.repls {
		if i == k {
			st = &repl.status
		}
		i++
	}
	m := vU64("update.match")
	vAssume(m <= r.lastLogIndex && m >= st.matchIndex)
	spawned0 := vNumSpawned()
	l.checkReplUpdates(replUpdate{status: st, update: matchIndex{m}})
	_ = spawned0
	if r.state != Leader {
		vReach("stepped-down")
	} else {
		vReach("still-leader")
	}
	vAssert(isClosed(t.task.done) == !l.transfer.timer.active, "TS-transfer-task-open-exactly-while-its-timer-runs")
	vReach("end")
}
