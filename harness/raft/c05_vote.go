package raft

// C05 / C01.V*: the vote handler, for every voter state and every request.

//verif:check C05,C01,C17 stubs=env,valuefile reach=granted,refused,end desc="onVoteRequest from any (term,votedFor,leader,lastLog) and any request: granted => durable (term,candidate); term file monotone; reply term <= durable term" bounds="all 64-bit values; one request"
func VH_C05_vote_durable() {
	r := vMkRaft(vU64("nid"))
	vSymTermState(r)
	r.leader = vU64("leader")
	r.state = State(vU8("state"))
	vAssume(r.state == Follower || r.state == Candidate || r.state == Leader)
	r.lastLogIndex, r.lastLogTerm = vU64("lastLogIndex"), vU64("lastLogTerm")
	vAssume(r.nid != 0 && r.lastLogTerm <= r.term)
	// a leader or candidate has voted for itself in its term; a leader knows itself as leader
	vAssume(vImp(r.state != Follower, r.votedFor == r.nid))
	vAssume(vImp(r.state == Leader, r.leader == r.nid))
	vAssume(vImp(r.state == Candidate, r.leader == 0))

	req := &voteReq{req: req{vU64("req.term"), vU64("req.src")},
		lastLogIndex: vU64("req.lastLogIndex"), lastLogTerm: vU64("req.lastLogTerm"), transfer: vBool("req.transfer")}
	vAssume(req.src != 0 && req.src != r.nid)
	t0, v0 := vDurable(".term")
	viaLeader := vAnd(!req.transfer, vAnd(r.leader != 0, req.src == r.leader))

	res, err := r.onVoteRequest(req)
	resp := rpcVote.createResp(r, res, err)

	dt, dv := vDurable(".term")
	vAssert(err == nil, "no-error")
	if res == success {
		vReach("granted")
		// the vote that the reply announces is on disk for the requested term
		vAssert(vImp(viaLeader, vAnd(dt == req.term, dv == req.src)), "V1-granted-durable/known-leader-shortcut")
		vAssert(vImp(vNot(viaLeader), vAnd(dt == req.term, dv == req.src)), "V1-granted-durable")
		vAssert(vImp(vNot(viaLeader), vAnd(r.term == req.term, r.votedFor == req.src)), "V1-granted-in-memory")
	} else {
		vReach("refused")
	}
	// the term file only moves forward, and within a term a recorded vote is never changed
	vAssert(vOr(dt > t0, vAnd(dt == t0, vOr(v0 == 0, dv == v0))), "V2-term-file-monotone")
	vAssert(vAnd(r.term == dt, r.votedFor == dv), "memory-equals-disk")
	vAssert(resp.getTerm() <= dt, "reply-term-not-above-durable")
	vAssert(resp.getTerm() >= t0, "reply-term-not-below-previous")
	// C17 safety half: leader known and no transfer permission => refused, nothing changes
	if !req.transfer && r.leader != 0 && req.src != r.leader {
		vAssert(vAnd(res == leaderKnown, vAnd(dt == t0, dv == v0)), "V3-leader-known-refusal")
	}
	vReach("end")
}
