package raft

import "bytes"

// C05 / C01.V*: the vote handler, for every voter state and every request.

//verif:check C05,C01,C17 stubs=env,valuefile reach=granted,refused,end desc="onVoteRequest from any (term,votedFor,leader,lastLog) and any request: granted => durable (term,candidate); term file monotone; reply term <= durable term" bounds="all 64-bit values; one request"
func VH_C05_vote_durable() {
	r := vMkRaft(vU64("nid"))
	vSymTermState(r)
	r.leader = vU64("leader")
	r.state = State(vU8("state"))
	vAssume(r.state == Follower || r.state == Candidate || r.state == Leader)
	r.lastLogIndex, r.lastLogTerm = vU64("lastLogIndex"), vU64("lastLogTerm")
	vAssume(r.nid != 0 && r.lastLogTerm <= r.term)
	// a leader or candidate has voted for itself in its term; a leader knows itself as leader
	vAssume(vImp(r.state != Follower, r.votedFor == r.nid))
	vAssume(vImp(r.state == Leader, r.leader == r.nid))
	vAssume(vImp(r.state == Candidate, r.leader == 0))

	req := &voteReq{req: req{vU64("req.term"), vU64("req.src")},
		lastLogIndex: vU64("req.lastLogIndex"), lastLogTerm: vU64("req.lastLogTerm"), transfer: vBool("req.transfer")}
	vAssume(req.src != 0 && req.src != r.nid)
	t0, v0 := vDurable(".term")
	viaLeader := vAnd(!req.transfer, vAnd(r.leader != 0, req.src == r.leader))

	res, err := r.onVoteRequest(req)
	resp := rpcVote.createResp(r, res, err)

	dt, dv := vDurable(".term")
	vAssert(err == nil, "no-error")
	if res == success {
		vReach("granted")
		// the vote that the reply announces is on disk for the requested term
		vAssert(vImp(viaLeader, vAnd(dt == req.term, dv == req.src)), "V1-granted-durable/known-leader-shortcut")
		vAssert(vImp(vNot(viaLeader), vAnd(dt == req.term, dv == req.src)), "V1-granted-durable")
		vAssert(vImp(vNot(viaLeader), vAnd(r.term == req.term, r.votedFor == req.src)), "V1-granted-in-memory")
	} else {
		vReach("refused")
	}
	// the term file only moves forward, and within a term a recorded vote is never changed
	vAssert(vOr(dt > t0, vAnd(dt == t0, vOr(v0 == 0, dv == v0))), "V2-term-file-monotone")
	vAssert(vAnd(r.term == dt, r.votedFor == dv), "memory-equals-disk")
	vAssert(resp.getTerm() <= dt, "reply-term-not-above-durable")
	vAssert(resp.getTerm() >= t0, "reply-term-not-below-previous")
	// a request whose higher term is adopted always sends the node back to follower (a candidate that stayed candidate in
	// the new term would count grants it collected for the old one)
	// (the leader-known refusal deliberately ignores the request's term)
	vAssert(vImp(vAnd(req.term > t0, res != leaderKnown), r.state == Follower), "V4-higher-term-request-reverts-to-follower")
	// C17 safety half: leader known and no transfer permission => refused, nothing changes
	if !req.transfer && r.leader != 0 && req.src != r.leader {
		vAssert(vAnd(res == leaderKnown, vAnd(dt == t0, dv == v0)), "V3-leader-known-refusal")
	}
	vReach("end")
}

//verif:check C05,C10 stubs=env,valuefile,abslog reach=persist-failed,replied,end desc="a vote request whose term/vote cannot be persisted (the rename of the term file fails): whatever reply leaves the node carries a term no newer than the durable one and is not a grant, and the node's in-memory term and vote still equal the durable pair" bounds="all 64-bit values; one request through Raft.replyRPC; I/O error injected at the first rename"
func VH_C05_vote_persist_failure() {
	r := vMkRaft(vU64("nid"))
	vSymTermState(r)
	r.leader = vU64("leader")
	r.state = State(vU8("state"))
	vAssume(r.state == Follower || r.state == Candidate || r.state == Leader)
	r.lastLogIndex, r.lastLogTerm = vU64("lastLogIndex"), vU64("lastLogTerm")
	vAssume(r.nid != 0 && r.lastLogTerm <= r.term)
	vAssume(vImp(r.state != Follower, r.votedFor == r.nid))
	vAssume(vImp(r.state == Leader, r.leader == r.nid))
	vAssume(vImp(r.state == Candidate, r.leader == 0))
	req := &voteReq{req: req{vU64("req.term"), vU64("req.src")},
		lastLogIndex: vU64("req.lastLogIndex"), lastLogTerm: vU64("req.lastLogTerm"), transfer: vBool("req.transfer")}
	vAssume(req.src != 0 && req.src != r.nid)
	t0, v0 := vDurable(".term")
	vRenameFailAt = 1
	c, _ := vMkConn(nil)
	x := &rpc{req: req, conn: c, done: make(chan struct{})}
	func() {
		defer func() { _ = recover() }() // replyRPC re-panics with the storage error after publishing the reply
		r.replyRPC(x)
	}()
	dt, dv := vDurable(".term")
	if vRenameFailAt == 0 {
		vReach("persist-failed")
		vAssert(dt == t0 && dv == v0, "failed-rename-leaves-the-term-file")
		vAssert(r.term == dt && r.votedFor == dv, "V5-memory-equals-disk-after-a-failed-persist")
	}
	if isClosed(x.done) && x.resp != nil {
		vReach("replied")
		vAssert(x.resp.getTerm() <= dt, "V5-reply-term-not-above-durable-when-persisting-fails")
		vAssert(vImp(vRenameFailAt == 0, x.resp.getResult() != success), "V5-no-grant-without-a-durable-vote")
	}
	vReach("end")
}

//verif:check C05,C10 stubs=env,valuefile,abslog reach=persist-failed,replied,end desc="an AppendEntries request whose higher term cannot be persisted (the rename of the term file fails): whatever reply leaves the node carries a term no newer than the durable one, and the node's in-memory term and vote still equal the durable pair" bounds="follower log of 1 entry, heartbeat request with any term; I/O error injected at the first rename; all 64-bit values"
func VH_C05_append_persist_failure() {
	c := vAppendSetup(1, 0, false)
	r := c.r
	t0, v0 := vDurable(".term")
	var w bytes.Buffer
	if err := c.req.encode(&w); err != nil {
		panic(err)
	}
	conn, _ := vMkConn(w.Bytes())
	x := &rpc{req: &appendReq{}, conn: conn, done: make(chan struct{})}
	vRenameFailAt = 1
	func() {
		defer func() { _ = recover() }()
		r.replyRPC(x)
	}()
	dt, dv := vDurable(".term")
	if vRenameFailAt == 0 {
		vReach("persist-failed")
		vAssert(dt == t0 && dv == v0, "failed-rename-leaves-the-term-file")
		vAssert(r.term == dt && r.votedFor == dv, "V5-memory-equals-disk-after-a-failed-persist")
	}
	if isClosed(x.done) && x.resp != nil {
		vReach("replied")
		vAssert(x.resp.getTerm() <= dt, "V5-reply-term-not-above-durable-when-persisting-fails")
	}
	vReach("end")
}
