package raft

import "bytes"

// C19 (and C08.G3): the relations between the fields a status report shows, as a one-step invariant of the
// follower-side handlers, with configuration entries in the follower's log and in the request.

type vCfgNode struct {
	r     *Raft
	a     *vAbsLog
	kinds []entryType
}

func vEntryOfKind(name string, kind entryType, index, term uint64) *entry {
	if kind == entryConfig {
		// the membership itself is irrelevant to the bookkeeping under test: a concrete 2-node configuration
		c := Config{Nodes: map[uint64]Node{1: {ID: 1, Addr: vAddr(1), Voter: true}, 2: {ID: 2, Addr: vAddr(2), Voter: true}}, Index: index, Term: term}
		return c.encode()
	}
	return &entry{index: index, term: term, typ: kind, data: vBytes(name+".data", 1)}
}

// vCfgFollower: follower whose log (base 0, L entries) may contain configuration entries; configs bookkeeping is
// produced by the real changeConfig/commitConfig, the way the append handler and openStorage produce it.
func vCfgFollower(L int) *vCfgNode {
	r := vMkRaft(2)
	vSymTermState(r)
	vAssume(r.term >= 1)
	r.fsm.FSM = &vFSM{}
	l, a := vNewLog(0)
	r.storage.log = l
	boot := Config{Nodes: map[uint64]Node{1: {ID: 1, Addr: vAddr(1), Voter: true}, 2: {ID: 2, Addr: vAddr(2), Voter: true}}, Index: 1, Term: 1}
	n := &vCfgNode{r: r, a: a}
	t := uint64(1)
	for k := 0; k < L; k++ {
		kind := entryUpdate
		if k == 0 || vChoice(2) == 1 {
			kind = entryConfig
		}
		term := vU64("log.term")
		vAssume(term >= t && term <= r.term)
		t = term
		var e *entry
		if k == 0 {
			boot.Term = term
			e = boot.encode()
		} else {
			e = vEntryOfKind("log.e"+string(rune('1'+k)), kind, uint64(k)+1, term)
		}
		a.ents = append(a.ents, vEncodeEntry(e))
		n.kinds = append(n.kinds, kind)
		r.lastLogIndex, r.lastLogTerm = e.index, e.term
		if kind == entryConfig {
			var c Config
			if err := c.decode(e); err != nil {
				panic(err)
			}
			r.changeConfig(c)
		}
	}
	a.flushed = a.last()
	r.commitIndex = vU64("commitIndex")
	vAssume(r.commitIndex >= 1 && r.commitIndex <= r.lastLogIndex)
	if !r.configs.IsCommitted() && r.configs.Latest.Index <= r.commitIndex {
		r.commitConfig()
	}
	// at most one configuration entry above the commit index that was itself proposed before its predecessor committed
	// cannot happen: a leader proposes C2 only after C1 committed; nothing to assume on the follower
	r.fsm.index = r.commitIndex
	// the FSM loop's view of the configuration: the newest configuration entry at or below what it has applied
	for k, kind := range n.kinds {
		if idx := uint64(k) + 1; kind == entryConfig && idx <= r.fsm.index {
			e := &entry{}
			if err := e.decode(bytes.NewReader(a.ents[k])); err != nil {
				panic(err)
			}
			var c Config
			if err := c.decode(e); err != nil {
				panic(err)
			}
			r.fsm.config = c
		}
	}
	r.leader = vU64("leader")
	return n
}

// vNewestConfigIndex: index of the newest configuration entry in the abstract log (0 if none).
func vNewestConfigIndex(a *vAbsLog) uint64 {
	var idx uint64
	for k, b := range a.ents {
		e := &entry{}
		if err := e.decode(bytes.NewReader(b)); err != nil {
			panic(err)
		}
		if e.typ == entryConfig {
			idx = a.base + uint64(k) + 1
		}
	}
	return idx
}

// vInfo: the status report a GetInfo task would return now: the real Raft.info(), whose last-applied field is
// answered by the FSM goroutine's real loop (run by the idle hook when info() waits for it) after everything that
// was queued for the FSM before.
func vInfo(r *Raft) Info {
	vSetIdleHook(func() { vDrainFSM(r) })
	return r.info()
}

func vAssertNI(r *Raft, a *vAbsLog, tag string) {
	inf := vInfo(r)
	// the report shows the node's state
	vAssert(inf.Term == r.term && inf.Committed == r.commitIndex && inf.LastLogIndex == r.lastLogIndex && inf.LastLogTerm == r.lastLogTerm, tag+"-report-shows-term-commit-last")
	vAssert(inf.SnapshotIndex == r.snaps.index && inf.FirstLogIndex == a.prev+1 && inf.LastApplied == r.fsm.index, tag+"-report-shows-snapshot-first-applied")
	vAssert(inf.Configs.Committed.Index == r.configs.Committed.Index && inf.Configs.Latest.Index == r.configs.Latest.Index, tag+"-report-shows-configs")
	vAssert(inf.State == r.state && inf.Leader == r.leader && inf.NID == r.nid && inf.CID == r.cid, tag+"-report-shows-identity-and-role")
	// and the property's relations hold in it
	vAssert(inf.LastApplied <= inf.Committed, tag+"-applied-le-commit")
	vAssert(inf.Committed <= inf.LastLogIndex, tag+"-commit-le-last")
	vAssert(inf.FirstLogIndex-1 <= inf.SnapshotIndex && inf.SnapshotIndex <= inf.LastLogIndex, tag+"-first-1-le-snapshot-le-last")
	vAssert(inf.Configs.Committed.Index <= inf.Configs.Latest.Index, tag+"-committed-config-le-latest-config")
	vAssert(r.lastLogIndex == a.last(), tag+"-last-index-tracks-log")
}

//verif:check C19,C08,C02 stubs=env,valuefile,abslog reach=success,rejected,truncated,config-adopted,end desc="onAppendEntriesRequest with configuration entries on both sides, under leader completeness: term, commit index, applied index never decrease; applied <= commit <= last; committed config index <= latest config index; the latest configuration is the newest configuration entry of the resulting log" bounds="follower log of 2..3 entries from index 1 (first is the bootstrap configuration, others update or 2-node configuration entries), request of 1..2 entries of either kind; all 64-bit terms"
func VH_C19_append_configs() {
	L := 2 + vChoice(2)
	n := vCfgFollower(L)
	r, a := n.r, n.a
	E := 1 + vChoice(2)
	req := &appendReq{req: req{vU64("req.term"), vU64("req.src")},
		ldrCommitIndex: vU64("req.ldrCommitIndex"), prevLogIndex: vU64("req.prevLogIndex"), prevLogTerm: vU64("req.prevLogTerm"),
		numEntries: uint64(E)}
	vAssume(req.src != 0 && req.src != r.nid)
	vAssume(req.prevLogIndex >= 1 && req.prevLogIndex <= r.lastLogIndex+1)
	p := vConcrete(req.prevLogIndex)
	var script bytes.Buffer
	t := req.prevLogTerm
	var ents []*entry
	for j := 0; j < E; j++ {
		kind := entryUpdate
		if vChoice(2) == 1 {
			kind = entryConfig
		}
		term := vU64("req.eterm")
		vAssume(term >= t && term <= req.term && term >= 1)
		t = term
		e := vEntryOfKind("req.e"+string(rune('1'+j)), kind, p+uint64(j)+1, term)
		ents = append(ents, e)
		script.Write(vEncodeEntry(e))
	}
	c, _ := vMkConn(script.Bytes())
	// leader completeness: the sender agrees with everything this node has committed
	termAt := func(i uint64) uint64 {
		e := &entry{}
		if err := e.decode(bytes.NewReader(a.ents[i-1])); err != nil {
			panic(err)
		}
		return e.term
	}
	// a leader proposes a configuration only after its predecessor is committed, so when this node holds two
	// configuration entries, everything up to the older one is committed cluster-wide even if this node has not
	// heard so yet: the sender agrees with that prefix too
	known := r.commitIndex
	var newest, second uint64
	for k, kind := range n.kinds {
		if kind == entryConfig {
			second, newest = newest, uint64(k)+1
		}
	}
	if second > known {
		known = second
	}
	if p <= known {
		vAssume(termAt(p) == req.prevLogTerm)
	}
	for _, e := range ents {
		if e.index <= known {
			vAssume(termAt(e.index) == e.term)
		}
	}
	// log matching for configuration entries: same (index, term) => same entry (kinds and payloads agree)
	for _, e := range ents {
		if e.index <= a.last() {
			same := termAt(e.index) == e.term
			vAssume(vImp(same, bytes.Equal(a.ents[e.index-1], vEncodeEntry(e))))
		}
	}
	t0, c0, f0, s0 := r.term, r.commitIndex, r.fsm.index, r.snaps.index
	res, _ := r.onAppendEntriesRequest(req, c)
	vDrainFSM(r)
	switch res {
	case success:
		vReach("success")
	case staleTerm, prevEntryNotFound, prevTermMismatch:
		vReach("rejected")
	}
	if a.nRemoveGTE > 0 {
		vReach("truncated")
	}
	vAssert(r.term >= t0, "term-never-decreases")
	vAssert(r.commitIndex >= c0, "commit-never-decreases")
	vAssert(r.fsm.index >= f0, "applied-never-decreases")
	vAssert(r.snaps.index >= s0, "snapshot-index-never-decreases")
	vAssertNI(r, a, "NI")
	newest = vNewestConfigIndex(a)
	vAssert(r.configs.Latest.Index == newest, "G3-latest-is-newest-config-entry-in-log")
	if newest > 1 && a.nAppend > 0 {
		vReach("config-adopted")
	}
	vAssert(vImp(r.configs.Latest.Index <= r.commitIndex, r.configs.IsCommitted()), "G3-config-at-or-below-commit-is-committed")
	vReach("end")
}

//verif:check C08,C12,C10 stubs=env,valuefile,abslog,snapfs,restart reach=restarted,from-snapshot,from-log,end desc="openStorage rebuilds the configuration pair from log and snapshot label: after a restart the latest configuration is the newest configuration entry of the log, or the snapshot label's configuration if the log has none above the snapshot; the committed one is its predecessor (or the same)" bounds="log of 2..3 entries from index 1 (bootstrap configuration + update/configuration entries), optional snapshot at a committed index with compaction of a whole prefix"
func VH_C08_restart_configs() {
	L := 2 + vChoice(2)
	n := vCfgFollower(L)
	r, a := n.r, n.a
	latest0 := r.configs.Latest.Index
	// optionally a snapshot at a committed index; its label carries the newest configuration entry at or below it
	si := uint64(vChoice(int(r.commitIndex) + 1))
	if si > 0 {
		var cfgAt Config
		for k, kind := range n.kinds {
			if kind == entryConfig && uint64(k)+1 <= si {
				e := &entry{}
				if err := e.decode(bytes.NewReader(a.ents[k])); err != nil {
					panic(err)
				}
				if err := cfgAt.decode(e); err != nil {
					panic(err)
				}
			}
		}
		term := uint64(0)
		{
			e := &entry{}
			_ = e.decode(bytes.NewReader(a.ents[si-1]))
			term = e.term
		}
		vPublishSnapshot(r, si, term, cfgAt, 10)
		// and the log compacted up to it (whole prefix) or not
		if vChoice(2) == 1 {
			a.prev = si
		}
	}
	st, a2, err := vRestart(a)
	vAssert(err == nil, "restart-opens")
	if err != nil {
		return
	}
	vReach("restarted")
	newest := uint64(0)
	for k, kind := range n.kinds {
		if kind == entryConfig && uint64(k)+1 > a2.prev && uint64(k)+1 <= a2.last() && uint64(k)+1 > st.snaps.index {
			newest = uint64(k) + 1
		}
	}
	if newest == 0 {
		vReach("from-snapshot")
		vAssert(st.configs.Latest.Index <= st.snaps.index && st.configs.Latest.Index >= 1, "G4-latest-from-snapshot-label")
	} else {
		vReach("from-log")
		vAssert(st.configs.Latest.Index == newest, "G4-latest-is-newest-config-entry")
	}
	vAssert(st.configs.Latest.Index == latest0 || a2.last() < a.last(), "G4-same-latest-as-before-restart")
	// (with a single configuration entry and no snapshot the predecessor is the empty configuration of index 0, exactly
	// as right after bootstrap)
	vAssert(st.configs.Committed.Index <= st.configs.Latest.Index, "G4-committed-is-a-predecessor")
	// the committed one is the configuration BEFORE the newest: the second newest configuration entry above the
	// snapshot, else the snapshot label's (index 0 without a snapshot). A restarted node must not take its newest,
	// possibly uncommitted, configuration entry for committed: reverting it after a truncation would be impossible.
	second, label := uint64(0), uint64(0)
	for k, kind := range n.kinds {
		i := uint64(k) + 1
		if kind == entryConfig && i <= st.snaps.index {
			label = i
		}
		if kind == entryConfig && i > a2.prev && i <= a2.last() && i > st.snaps.index && i < newest {
			second = i
		}
	}
	if newest == 0 {
		vAssert(st.configs.Committed.Index == st.configs.Latest.Index, "G4-committed-from-snapshot-label")
	} else if second != 0 {
		vAssert(st.configs.Committed.Index == second, "G4-committed-is-the-previous-config-entry")
	} else {
		vAssert(st.configs.Committed.Index == label, "G4-committed-is-the-snapshot-labels-config-when-one-entry-above")
	}
	vReach("end")
}
