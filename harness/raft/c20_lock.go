package raft

// C20, storage exclusivity and set-once identity: lockDir / unlockDir / SetIdentity over a ghost directory in which
// link(2) is atomic (it fails if the target name exists), which is the OS guarantee the protocol relies on.

import (
	"net"
	"os"
	"time"
)

//verif:stub lockfs path/filepath.Abs vAbsPath
//verif:stub lockfs io/ioutil.TempFile vTempFile
//verif:stub lockfs os.Link vLink
//verif:stub lockfs os.Lstat vLstat
//verif:stub lockfs os.SameFile vSameFile
//verif:stub lockfs os.IsExist vIsExist
//verif:stub lockfs os.Getpid vGetpid
//verif:stub lockfs os.Remove vLRemove
//verif:stub lockfs os.RemoveAll vLRemove
//verif:stub lockfs os.Stat vLStatDir
//verif:stub lockfs path/filepath.Join vJoin
//verif:stub lockfs (*os.File).Close vLClose
//verif:stub lockfs (*os.File).Name vLName
//verif:stub lockfs (*os.File).Write vLWrite
//verif:stub lockfs (*os.File).WriteString vLWriteString

type vLFile struct {
	inode int
}

var (
	vLDir    = map[string]*vLFile{} // directory entries: name -> inode
	vLHandle = map[*os.File]string{}
	vLInodes int
	vLTemps  int
)

type vErrExistT struct{}

func (vErrExistT) Error() string { return "file exists" }

func vAbsPath(path string) (string, error) { return path, nil }
func vGetpid() int                        { return 42 }
func vTempFile(dir, pattern string) (*os.File, error) {
	vLTemps++
	name := dir + "/lock" + string(rune('0'+vLTemps)) + ".tmp"
	vLInodes++
	vLDir[name] = &vLFile{inode: vLInodes}
	h := &os.File{}
	vLHandle[h] = name
	return h, nil
}
func vLink(oldname, newname string) error {
	if _, ok := vLDir[newname]; ok {
		return vErrExistT{}
	}
	src, ok := vLDir[oldname]
	if !ok {
		return vIOError{"link: no such file"}
	}
	vLDir[newname] = src
	return nil
}

type vLInfo struct {
	inode int
	dir   bool
}

func (i vLInfo) Name() string       { return "ghost" }
func (i vLInfo) Size() int64        { return 0 }
func (i vLInfo) Mode() os.FileMode  { return 0600 }
func (i vLInfo) ModTime() time.Time { return time.Time{} }
func (i vLInfo) IsDir() bool        { return i.dir }
func (i vLInfo) Sys() interface{}   { return nil }

func vLstat(name string) (os.FileInfo, error) {
	f, ok := vLDir[name]
	if !ok {
		return nil, vIOError{"lstat: no such file"}
	}
	return vLInfo{inode: f.inode}, nil
}
func vLStatDir(name string) (os.FileInfo, error) { return vLInfo{dir: true}, nil }
func vSameFile(a, b os.FileInfo) bool          { return a.(vLInfo).inode == b.(vLInfo).inode }
func vIsExist(err error) bool                   { _, ok := err.(vErrExistT); return ok }
func vLRemove(name string) error {
	delete(vLDir, name)
	return nil
}
func vLClose(f *os.File) error                      { return nil }
func vLName(f *os.File) string                      { return vLHandle[f] }
func vLWrite(f *os.File, b []byte) (int, error)     { return len(b), nil }
func vLWriteString(f *os.File, s string) (int, error) { return len(s), nil }

func vLockHeld(dir string) bool { _, ok := vLDir[dir+"/lock"]; return ok }

//verif:check C20 stubs=lockfs,valuefile,restart reach=second-refused,relock,end desc="lockDir/unlockDir: while one instance holds the directory lock a second lockDir fails with ErrLockExists and leaves the first lock in place; after unlockDir the directory can be locked again; no temporary file is left behind" bounds="one directory, sequences of up to 4 lock/unlock calls"
func VH_C20_lockDir() {
	dir := vDir
	vAssert(lockDir(dir) == nil, "L-first-lock-succeeds")
	vAssert(vLockHeld(dir), "L-lock-file-exists")
	first := vLDir[dir+"/lock"]
	err := lockDir(dir)
	vReach("second-refused")
	vAssert(err == ErrLockExists, "L-second-lock-refused")
	vAssert(vLDir[dir+"/lock"] == first, "L-first-lock-untouched")
	vAssert(len(vLDir) == 1, "L-no-temporary-files-left")
	vAssert(unlockDir(dir) == nil && !vLockHeld(dir), "L-unlock-releases")
	vAssert(lockDir(dir) == nil && vLockHeld(dir), "L-relock-after-unlock")
	vReach("relock")
	vReach("end")
}

//verif:check C20 stubs=lockfs,valuefile,restart reach=refused-while-served,kept,set,end desc="SetIdentity: refused with ErrLockExists while another instance holds the directory, and that instance's lock survives; an identity that is set is never changed by a call with any other (cid,nid); an unset identity gets set; the lock is released afterwards" bounds="all 64-bit ids; directory served by another instance or not"
func VH_C20_SetIdentity() {
	dir := vDir
	c0, n0 := vU64("stored.cid"), vU64("stored.nid")
	vAssume(vOr(vAnd(c0 == 0, n0 == 0), vAnd(c0 != 0, n0 != 0)))
	vDiskInit(".id", c0, n0)
	cid, nid := vU64("cid"), vU64("nid")
	served := vBool("servedByAnotherInstance")
	if served {
		vAssert(lockDir(dir) == nil, "other-instance-locks")
	}
	held := vLDir[dir+"/lock"]
	err := SetIdentity(dir, cid, nid)
	c1, n1 := vVolatile(".id")
	if served {
		vReach("refused-while-served")
		vAssert(err == ErrLockExists || cid == 0 || nid == 0, "S-refused-while-directory-is-served")
		vAssert(vLDir[dir+"/lock"] == held && held != nil, "S-serving-instances-lock-survives")
		vAssert(c1 == c0 && n1 == n0, "S-no-change-while-served")
		return
	}
	vAssert(!vLockHeld(dir), "S-lock-released-afterwards")
	if c0 != 0 {
		vReach("kept")
		vAssert(c1 == c0 && n1 == n0, "S-identity-once-set-is-never-changed")
		// and the caller is told: the same identity again is fine, another one is refused with the documented error
		vAssert(vImp(vAnd(vAnd(cid != 0, nid != 0), vNot(vAnd(cid == c0, nid == n0))), err == ErrIdentityAlreadySet), "S-refusal-is-reported-as-identity-already-set")
		vAssert(vImp(vAnd(cid == c0, nid == n0), err == nil), "S-same-identity-again-succeeds")
	} else if err == nil && cid != 0 && nid != 0 {
		vReach("set")
		vAssert(c1 == cid && n1 == nid, "S-unset-identity-gets-set")
	}
	vReach("end")
}

type vListener struct{ closed bool }

type vNetAddr struct{}

func (vNetAddr) Network() string { return "ghost" }
func (vNetAddr) String() string  { return "ghost:0" }

func (l *vListener) Accept() (net.Conn, error) { return nil, vIOError{"accept"} }
func (l *vListener) Close() error              { l.closed = true; return nil }
func (l *vListener) Addr() net.Addr            { return vNetAddr{} }

//verif:check C20 stubs=lockfs,rt,timers,valuefile,abslog reach=refused,serving-with-lock,end desc="Raft.Serve takes the storage directory's lock before it serves anything: if another instance holds it, Serve returns ErrLockExists with that instance's lock untouched, without starting the state loop or the FSM loop; otherwise the lock is held for as long as the state loop runs" bounds="directory locked by another instance or not; the serving path is followed until the state loop's first idle point"
func VH_C20_Serve() {
	r := vLoopNode(Follower)
	dir := vDir
	other := vBool("servedByAnotherInstance")
	if other {
		vAssert(lockDir(dir) == nil, "other-instance-locks")
	}
	held := vLDir[dir+"/lock"]
	looped := false
	vSetIdleHook(func() {
		// the state loop is running and idle
		looped = true
		vAssert(!other, "V-state-loop-never-runs-on-a-directory-served-by-another-instance")
		vAssert(vLockHeld(dir), "V-lock-held-while-serving")
		vReach("serving-with-lock")
		vStop()
	})
	err := r.Serve(&vListener{})
	// only the refused path returns here
	vReach("refused")
	vAssert(other && err == ErrLockExists, "V-serve-refused-while-directory-is-served")
	vAssert(!looped && vNumSpawned() == 0, "V-nothing-started-without-the-lock")
	vAssert(vLDir[dir+"/lock"] == held && held != nil, "V-serving-instances-lock-survives")
	vReach("end")
}

//verif:check C20,C10 stubs=env,valuefile,abslog,snapfs,restart reach=no-identity,opened,end desc="raft.New over the real openStorage on a ghost storage directory: a directory whose identity was never set is refused with ErrIdentityNotSet, otherwise the node carries exactly the stored cluster id, node id, term and vote" bounds="all 64-bit identity/term/vote values (identity unset = both zero); empty log, no snapshot"
func VH_C20_New_identity() {
	c0, n0 := vU64("stored.cid"), vU64("stored.nid")
	vAssume(vOr(vAnd(c0 == 0, n0 == 0), vAnd(c0 != 0, n0 != 0))) // SetIdentity writes both or nothing
	vDiskInit(".id", c0, n0)
	t0, v0 := vU64("stored.term"), vU64("stored.vote")
	vDiskInit(".term", t0, v0)
	_, a := vNewLog(0)
	vCrashedLog = a
	opt := DefaultOptions()
	opt.Logger = nil
	r, err := New(opt, &vFSM{}, vDir)
	if c0 == 0 {
		vReach("no-identity")
		vAssert(err == ErrIdentityNotSet && r == nil, "N-unset-identity-is-refused")
	} else {
		vReach("opened")
		vAssert(err == nil && r != nil, "N-opens")
		vAssert(r.cid == c0 && r.nid == n0, "N-node-carries-the-stored-identity")
		vAssert(r.term == t0 && r.votedFor == v0, "N-node-carries-the-stored-term-and-vote")
		vAssert(r.state == Follower && r.leader == 0, "N-starts-as-follower")
	}
	vReach("end")
}

// ---- stub set "servefs": the lock ghost and the snapshot ghost together (for running the real Raft.Serve) ----
// Listed after snapfs and lockfs it overrides the callees both of them model, dispatching on whose file it is.

//verif:stub servefs os.Remove vBRemove
//verif:stub servefs os.RemoveAll vBRemove
//verif:stub servefs os.Stat vBStat
//verif:stub servefs (*os.File).Close vBClose
//verif:stub servefs (*os.File).Name vBName
//verif:stub servefs (*os.File).Write vBWrite

func vIsLockName(name string) bool {
	if _, ok := vLDir[name]; ok {
		return true
	}
	n := len(name)
	return n >= 5 && name[n-5:] == "/lock"
}

func vBRemove(name string) error {
	if vIsLockName(name) {
		return vLRemove(name)
	}
	return vOSRemove(name)
}
func vBStat(name string) (os.FileInfo, error) {
	if g := vSLookup(name); g != nil {
		return vOSStat(name)
	}
	if _, _, k := vNameInfo(name); k != 0 {
		return vOSStat(name)
	}
	return vLStatDir(name)
}
func vBClose(f *os.File) error {
	if _, ok := vLHandle[f]; ok {
		return vLClose(f)
	}
	return vFileClose(f)
}
func vBName(f *os.File) string {
	if n, ok := vLHandle[f]; ok {
		return n
	}
	return vFileName(f)
}
func vBWrite(f *os.File, b []byte) (int, error) {
	if _, ok := vLHandle[f]; ok {
		return vLWrite(f, b)
	}
	return vFileWrite(f, b)
}

//verif:check C10,C20 stubs=lockfs,valuefile,restart reach=killed desc="restart after the process was killed while serving: the directory lock is a hard link, which the dead process cannot remove; a new process started on the same directory must nevertheless be able to take the lock (nobody else serves the directory), otherwise the node cannot restart without an operator deleting the file" bounds="one directory; lock taken, process killed (no unlock), lock attempted again by a new process"
func VH_C10_restart_after_kill_lock() {
	dir := vDir
	vAssert(lockDir(dir) == nil, "first-process-locks")
	// kill -9: no deferred unlockDir runs, the lock file stays; the process is gone
	vReach("killed")
	err := lockDir(dir)
	vAssert(err == nil, "K-restart-after-kill-can-lock-the-directory")
	vReach("end")
}
