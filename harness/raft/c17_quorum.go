package raft

import "time"

// C17, mechanism "leader steps down when it cannot reach a quorum" (leader.go checkQuorum), through the real
// leader.checkReplUpdates (reachability reports from the replication tasks) and leader.onTimeout (the quorum timer).
// Both directions matter for availability: a leader that cannot reach a majority must give way (after quorumWait),
// and a leader that can reach one must NOT step down or leave the quorum timer running.

// vReachableMajority: the leader itself (if voter) plus the voters whose replication reports contact form a majority.
// (repls: the replications as they were when the leader was set up - a leader that steps down stops and drops them.)
func vReachableMajority(r *Raft, repls map[uint64]*replication) bool {
	voters, reach := 0, 0
	for id, n := range r.configs.Latest.Nodes {
		if n.Voter {
			voters++
			if id == r.nid || repls[id].status.noContact.IsZero() {
				reach++
			}
		}
	}
	return reach >= voters/2+1
}

//verif:check C17,C11 stubs=env,valuefile,abslog reach=reachable,unreachable-wait,unreachable-stepdown,timeout-stepdown,timeout-stays,end desc="leader.checkQuorum via checkReplUpdates(noContact) and onTimeout: after a reachability report, a leader reaching a majority of the voters stays leader with the quorum timer stopped; one that does not either steps down at once (quorumWait 0: state Follower, leader 0) or stays leader with the quorum timer armed; when that timer fires it steps down iff a majority is still unreachable" bounds="n=2..3 nodes, symbolic voter flags and per-follower reachability, quorumWait zero or positive, quorum timer armed or not; one report then one timer expiry"
func VH_C17_checkQuorum() {
	n := 2 + vChoice(2)
	r, l, _ := vMkLeader(n, 2, true)
	vAssume(r.configs.Latest.numVoters() >= 1)
	r.configs.Committed = r.configs.Latest
	repls := map[uint64]*replication{}
	for id, repl := range l.repls {
		repls[id] = repl
	}
	if vBool("quorumWait.positive") {
		r.quorumWait = time.Second
	} else {
		r.quorumWait = 0
	}
	// the quorum timer is armed exactly while the leader knows a majority is unreachable and is waiting
	l.timer.active = !vReachableMajority(r, repls) && r.quorumWait > 0
	var st *replicationStatus
	k := vChoice(n - 1)
	idx := 0
	for _, repl := range l.repls {
		if idx == k {
			st = &repl.status
		}
		idx++
	}
	var u noContact
	if vBool("report.lost") {
		u = noContact{time: time.Now(), err: vIOError{"dial"}}
	}
	term0 := r.term
	l.checkReplUpdates(replUpdate{status: st, update: u})
	vAssert(st.noContact.IsZero() == u.time.IsZero(), "Q0-report-recorded")
	vAssert(r.term == term0, "Q-term-unchanged")
	if vReachableMajority(r, repls) {
		vReach("reachable")
		vAssert(r.state == Leader && r.leader == r.nid, "Q1-leader-with-reachable-majority-stays")
		vAssert(!l.timer.active, "Q1-quorum-timer-stopped-when-majority-reachable")
	} else if r.quorumWait == 0 {
		vReach("unreachable-stepdown")
		vAssert(r.state == Follower && r.leader == 0, "Q2-no-quorum-no-wait-steps-down")
	} else {
		vReach("unreachable-wait")
		vAssert(r.state == Leader, "Q2-no-quorum-waits-as-leader")
		vAssert(l.timer.active, "Q2-quorum-timer-armed")
	}
	if r.state == Leader && l.timer.active {
		// the quorum timer expires (stateLoop: r.timer.active = false; ldr.onTimeout()); meanwhile another follower's
		// status may have changed
		if vBool("other.recovers") {
			for _, repl := range l.repls {
				repl.status.noContact = time.Time{}
			}
		}
		l.timer.active = false
		l.onTimeout()
		if vReachableMajority(r, repls) {
			vReach("timeout-stays")
			vAssert(r.state == Leader, "Q3-timer-expiry-with-reachable-majority-stays")
		} else {
			vReach("timeout-stepdown")
			vAssert(r.state == Follower && r.leader == 0, "Q3-timer-expiry-without-quorum-steps-down")
		}
	}
	vReach("end")
}

//verif:check C17,C11,C08 stubs=env,valuefile,abslog reach=config-pending,end desc="leader.notifyFlr: a configuration handed to a replication (the node's new voting right: it decides whether the replication sends idle heartbeats) is not lost when the replication has not picked the update up before the next one arrives: whatever update is pending for a replication after two notifications, the first of which carried the configuration, still carries it; log view and commit index are those of the latest notification" bounds="2..3 nodes; two notifications without the replication running in between; symbolic commit index"
func VH_C17_notifyFlr_keeps_config() {
	n := 2 + vChoice(2)
	r, l, _ := vMkLeader(n, 2, true)
	r.configs.Committed = r.configs.Latest
	l.notifyFlr(true)
	c1 := r.commitIndex
	r.commitIndex = vU64("commitIndex2")
	vAssume(r.commitIndex >= c1 && r.commitIndex <= r.lastLogIndex)
	l.notifyFlr(false)
	for _, repl := range l.repls {
		vAssert(len(repl.leaderUpdateCh) == 1, "N-one-update-pending")
		u := <-repl.leaderUpdateCh
		vReach("config-pending")
		vAssert(u.config != nil, "N-pending-update-still-carries-the-configuration")
		vAssert(u.commitIndex == r.commitIndex && u.log != nil && u.log.LastIndex() == r.lastLogIndex, "N-pending-update-is-the-latest-view")
	}
	vReach("end")
}
