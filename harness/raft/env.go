package raft

// Environment models shared by the raft-level harnesses (DESIGN.md §3). Everything here is ordinary Go that the
// engine executes symbolically; the //verif:stub lines tell the engine which real callee each model replaces.

import (
	"time"
)

// ---- timers and randomised time (stub set "env") ----

//verif:stub env (*raft.safeTimer).stop vTimerStop
//verif:stub env (*raft.safeTimer).reset vTimerReset
//verif:stub env (raft.randTime).duration vRandDuration
//verif:stub env (raft.randTime).deadline vRandDeadline
//verif:stub env raft.newRandTime vNewRandTime
//verif:stub env raft.newSafeTimer vMkTimer

func vTimerStop(t *safeTimer)                   { t.active = false }
func vTimerReset(t *safeTimer, d time.Duration) { t.active = true }
func vMkTimer() *safeTimer                      { return &safeTimer{C: make(chan time.Time, 1)} }
func vNewRandTime() randTime                    { return randTime{} }
func vRandDuration(rt randTime, min time.Duration) time.Duration {
	d := time.Duration(vI64("rand.duration"))
	vAssume(d >= min && d < 2*min+1)
	return d
}
func vRandDeadline(rt randTime, min time.Duration) time.Time { return time.Now() }

// ---- the term / identity value files (stub set "valuefile") ----
//
// value.set is executed for real; underneath it the file name is a token standing for (v1,v2), os.Rename changes
// the volatile directory entry and syncDir makes it durable.

//verif:stub valuefile raft.valueFile vValueFile
//verif:stub valuefile os.Rename vRename
//verif:stub valuefile raft.syncDir vSyncDir

type vPair struct{ v1, v2 uint64 }

type vDirEnt struct {
	vol, dur vPair // volatile (page cache) and durable (after directory sync) content of the single "*<ext>" entry
	renames  int
	syncs    int
}

var (
	vNameVals = map[string]vPair{}
	vNameExt  = map[string]string{}
	vDisk     = map[string]*vDirEnt{} // by ext
	vNameSeq  int

	vCrashAt  int // 0 = never; k = crash at the k-th crash point
	vCrashSeq int
	vRenameFailAt int // 0 = never; inject an I/O error at the k-th rename (storage error paths)
)

type vCrash struct{ at string }

// vCrashArmed: every crash point reached while armed is a nondeterministic choice "crash here / go on" (one crash per
// path). vCrashAt (k-th crash point) is the older, index-based selection and still works.
var vCrashArmed bool
var vCrashedAt string

func vCrashPoint(id string) {
	vCrashSeq++
	if vCrashAt == vCrashSeq {
		vReach("crash")
		vCrashedAt = id
		vCrashNow()
	}
	if vCrashArmed && vChoice(2) == 1 {
		vCrashArmed = false
		vReach("crash")
		vCrashedAt = id
		vCrashNow()
	}
}

func vValueFile(dir, ext string, v1, v2 uint64) string {
	vNameSeq++
	name := dir + "/#" + string(rune('a'+vNameSeq)) + ext
	vNameVals[name] = vPair{v1, v2}
	vNameExt[name] = vKey(dir, ext)
	return name
}

// vKey: the ghost directory entry for (dir, ext). The default storage directory keeps the bare extension as key;
// a second node's directory (cluster harnesses) gets its own entries.
func vKey(dir, ext string) string {
	if dir == vDir {
		return ext
	}
	return dir + ext
}

func vDiskInitAt(dir, ext string, v1, v2 uint64) { vDiskInit(vKey(dir, ext), v1, v2) }

func vDiskInit(ext string, v1, v2 uint64) {
	vDisk[ext] = &vDirEnt{vol: vPair{v1, v2}, dur: vPair{v1, v2}}
}

type vIOError struct{ op string }

func (e vIOError) Error() string { return "ghost i/o error: " + e.op }

func vRename(oldpath, newpath string) error {
	ext := vNameExt[oldpath]
	d := vDisk[ext]
	if d == nil {
		return vIOError{"rename: no such directory entry"}
	}
	old, nw := vNameVals[oldpath], vNameVals[newpath]
	if old.v1 != d.vol.v1 || old.v2 != d.vol.v2 {
		// the in-memory value and the directory disagree: the real rename(2) fails with ENOENT
		return vIOError{"rename: ENOENT"}
	}
	vCrashPoint("rename.before")
	if vRenameFailAt > 0 {
		vRenameFailAt--
		if vRenameFailAt == 0 {
			return vIOError{"rename: injected I/O error"}
		}
	}
	d.vol = nw
	d.renames++
	vCrashPoint("rename.after")
	return nil
}

func vSyncDir(dir string) error {
	for _, d := range vDisk {
		d.dur = d.vol
		d.syncs++
	}
	vCrashPoint("syncdir.after")
	return nil
}

// vDurable is what a restart after power loss reads back; vVolatile what a restart after a process kill reads.
func vDurable(ext string) (uint64, uint64)  { d := vDisk[ext]; return d.dur.v1, d.dur.v2 }
func vDurableAt(dir, ext string) (uint64, uint64) { return vDurable(vKey(dir, ext)) }
func vVolatile(ext string) (uint64, uint64) { d := vDisk[ext]; return d.vol.v1, d.vol.v2 }

// ---- building a node by hand (no I/O) ----

const vDir = "/ghost"

func vMkRaft(nid uint64) *Raft { return vMkRaftAt(vDir, nid) }

func vMkRaftAt(dir string, nid uint64) *Raft {
	st := &storage{
		idVal:   &value{dir: dir, ext: ".id"},
		termVal: &value{dir: dir, ext: ".term"},
		snaps:   &snapshots{dir: dir + "/snapshots", retain: 1, used: make(map[uint64]int)},
	}
	st.nid = nid
	r := &Raft{
		timer:         vMkTimer(),
		rpcCh:         make(chan *rpc),
		disconnected:  make(chan uint64, 20),
		fsmRestoredCh: make(chan error, 5),
		snapTimer:     vMkTimer(),
		storage:       st,
		state:         Follower,
		hbTimeout:     1000,
		promoteThreshold: 1000,
		logger:        nopLogger{},
		alerts:        nopAlerts{},
		connPools:     make(map[uint64]*connPool),
		taskCh:        make(chan Task),
		fsmTaskCh:     make(chan FSMTask),
		newEntryCh:    make(chan *newEntry),
		close:         make(chan struct{}),
		closed:        make(chan struct{}),
	}
	r.fsm = &stateMachine{id: nid, ch: make(chan interface{}, 64), snaps: st.snaps}
	r.resolver = &resolver{addrs: make(map[uint64]string), logger: r.logger, alerts: r.alerts}
	r.ldr = &leader{
		Raft:  r,
		repls: make(map[uint64]*replication),
		transfer: transfer{timer: vMkTimer(), newTermTimer: vMkTimer()},
	}
	r.cnd = &candidate{Raft: r}
	return r
}

// vSymTermState gives the node an arbitrary (term, votedFor) consistent with its value file (invariant SI).
func vSymTermState(r *Raft) {
	r.term, r.votedFor = vU64("term"), vU64("votedFor")
	r.termVal.v1, r.termVal.v2 = r.term, r.votedFor
	vDiskInit(".term", r.term, r.votedFor)
}
