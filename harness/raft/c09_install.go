package raft

// onInstallSnapRequest from an arbitrary follower state (C09.S4, C19, C10 step obligations).

type vInstallCase struct {
	r    *Raft
	a    *vAbsLog
	req  *installSnapReq
	conn *conn
}

func vInstallSetup(L int, withCR bool) *vInstallCase {
	r := vMkRaft(2)
	vSymTermState(r)
	vAssume(r.term >= 1)
	r.leader = vU64("leader")
	r.state = State(vU8("state"))
	vAssume(r.state == Follower || r.state == Candidate || r.state == Leader)
	a := vInitLog(r, L, 1)
	// one segment boundary somewhere inside the log (compaction removes whole segments only)
	if L > 1 && vBool("twoSegments") {
		b := vU64("log.boundary")
		vAssume(b > a.prev && b < a.last())
		a.bounds = []uint64{b}
	}
	a.flushed = a.last()
	r.fsm.FSM = &vFSM{}
	r.commitIndex = vU64("commitIndex")
	vAssume(r.commitIndex <= r.lastLogIndex && r.commitIndex >= r.snaps.index && r.commitIndex >= a.base)
	r.fsm.index = vU64("fsm.index")
	vAssume(r.fsm.index <= r.commitIndex && r.fsm.index >= r.snaps.index && r.fsm.index >= a.base)
	cfg := vStableConfig("cfg", 2, 1, 1)
	r.configs.Latest, r.configs.Committed = cfg, cfg
	if r.snaps.index > 0 {
		vPublishSnapshot(r, r.snaps.index, r.snaps.term, cfg, 10)
	}
	// the node may also hold a newer, not yet committed configuration entry (e.g. from a leader that has since been
	// deposed) at some index above its commit index
	if vBool("pendingConfig") {
		lc := vStableConfig("lcfg", 2, vU64("lcfg.index"), 1)
		vAssume(lc.Index > r.commitIndex && lc.Index <= r.lastLogIndex)
		r.configs.Latest = lc
	}
	rcfg := vStableConfig("rcfg", 2, vU64("rcfg.index"), 1)
	req := &installSnapReq{req: req{vU64("req.term"), vU64("req.src")},
		lastIndex: vU64("req.lastIndex"), lastTerm: vU64("req.lastTerm"),
		lastConfig: rcfg, size: vI64("req.size")}
	vAssume(rcfg.Index >= 1 && rcfg.Index <= req.lastIndex)
	vAssume(req.src != 0 && req.src != r.nid)
	vAssume(req.size >= 0 && req.size < 1<<40)
	vAssume(req.lastIndex >= 1 && req.lastIndex < 1<<41 && req.lastTerm >= 1 && req.lastTerm <= req.term)
	// log matching with the sender: same (index, term) at lastIndex means the same entry; nothing more is needed here
	if withCR {
		// CR: a snapshot is sent only when the follower needs entries the leader compacted; a legitimate leader's
		// snapshot covers at least what this node has committed and snapshotted
		vAssume(vOr(req.term < r.term, vAnd(req.lastIndex >= r.commitIndex, req.lastIndex >= r.snaps.index)))
		// LC: the sender agrees with everything this node has committed
		vAssume(vImp(vAnd(req.lastIndex > a.base, req.lastIndex <= r.commitIndex), vTermAt(a, a.base, req.lastIndex) == req.lastTerm))
		vAssume(vImp(req.lastIndex == a.base, req.lastTerm == vBaseTerm))
		vAssume(vImp(req.lastIndex == r.snaps.index, req.lastTerm == r.snaps.term))
	}
	c, _ := vMkConn(nil)
	// the FSM goroutine: whenever the raft goroutine waits for it (onInstallSnapRequest lets it finish what is queued
	// before it resets the log) it runs its real loop over its queue
	vSetIdleHook(func() { vDrainFSM(r) })
	return &vInstallCase{r: r, a: a, req: req, conn: c}
}

//verif:check C19,C09,C04,C03,C12 stubs=env,valuefile,abslog,snapfs reach=success,kept,reset,rejected,end desc="onInstallSnapRequest under the request preconditions CR/LC: the log suffix is kept only if the entry at the snapshot index has the snapshot's term, otherwise the log is reset and the FSM restored; term, commit index, applied index, snapshot index never decrease; applied <= commit <= last; first-1 <= snapshot <= last; on success the published label is the request's" bounds="follower log of 1 entry after a symbolic base, 2-node configurations, optional pending configuration entry; all 64-bit values"
func VH_C19_install() { vInstall(1) }

//verif:check C19,C09 tier=thorough stubs=env,valuefile,abslog,snapfs reach=success,kept,reset,rejected,end desc="as VH_C19_install with a longer log and a segment boundary" bounds="follower log of 2 entries, 0..1 segment boundary"
func VH_C19_install_L2() { vInstall(2) }

func vInstall(L int) {
	c := vInstallSetup(L, true)
	r, a, req := c.r, c.a, c.req
	t0, c0, f0, s0 := r.term, r.commitIndex, r.fsm.index, r.snaps.index
	// did the log hold the snapshot's last entry (same index, same term) before the request?
	hadMatch := vAnd(vAnd(req.lastIndex > a.prev, req.lastIndex <= a.last()), vTermAt(a, a.base, req.lastIndex) == req.lastTerm)
	res, _ := r.onInstallSnapRequest(req, c.conn)
	vDrainFSM(r)
	for len(r.fsmRestoredCh) > 0 {
		vAssert(<-r.fsmRestoredCh == nil, "fsm-restore-ok")
	}
	vAssert(r.term >= t0, "term-never-decreases")
	vAssert(r.commitIndex >= c0, "commit-never-decreases")
	vAssert(r.fsm.index >= f0, "applied-never-decreases")
	vAssert(r.snaps.index >= s0, "snapshot-index-never-decreases")
	vAssertNI(r, a, "NI")
	switch res {
	case success:
		vReach("success")
		if req.lastIndex <= s0 {
			// not newer than what the node has: acknowledged and ignored (under CR this is lastIndex == old snapshot index)
			vAssert(r.snaps.index == s0 && a.nReset == 0 && a.nRemoveLTE == 0 && r.commitIndex == c0, "stale-snapshot-changes-nothing")
			break
		}
		vAssert(r.snaps.index == req.lastIndex && r.snaps.term == req.lastTerm, "label-is-the-requests")
		if a.nReset > 0 {
			vReach("reset")
			vAssert(a.prev == req.lastIndex && a.last() == req.lastIndex && r.lastLogTerm == req.lastTerm, "A4-log-reset-to-snapshot")
			vAssert(vNot(hadMatch), "A4-log-discarded-only-if-no-matching-entry")
			vAssert(r.commitIndex == req.lastIndex && r.fsm.index == req.lastIndex, "A4-state-restored-from-snapshot")
			vAssert(r.configs.Latest.Index == req.lastConfig.Index && r.configs.IsCommitted(), "A4-config-from-label")
			vAssert(r.configs.Latest.Nodes[1].Voter == req.lastConfig.Nodes[1].Voter && r.configs.Latest.Nodes[2].Voter == req.lastConfig.Nodes[2].Voter, "A4-membership-is-the-labels")
		} else {
			vReach("kept")
			// suffix kept: only because the entry at the snapshot index matched
			vAssert(a.last() >= req.lastIndex, "A4-kept-only-if-log-reaches-snapshot")
			vAssert(hadMatch, "A4-suffix-kept-only-if-entry-at-snapshot-index-has-snapshot-term")
			// the FSM was not restored, so everything it still has to apply must still be in the log. This holds when
			// the FSM has reached the snapshot index. When it has not (fsm.index < lastIndex), the arm compacts entries
			// the FSM still needs - but that combination needs a request no legitimate sender builds: a leader sends a
			// snapshot only after probing went below its first index, and probing stops at the first matching entry,
			// which is at or above the snapshot index whenever the follower holds a matching entry there (DESIGN.md §6,
			// observation S4). It is therefore not asserted.
			vAssert(vImp(vNot(r.fsm.index < req.lastIndex), a.prev <= r.fsm.index), "S4-unapplied-entries-not-compacted")
		}
	case staleTerm:
		vReach("rejected")
		vAssert(r.snaps.index == s0 && a.nReset == 0 && a.nRemoveLTE == 0, "stale-request-changes-nothing")
	}
	vReach("end")
}

//verif:check C19,C09 stubs=env,valuefile,abslog,snapfs reach=success,stale-snapshot,end desc="a stale install-snapshot request of the current term - delivered late, e.g. from an old connection of the same leader: its snapshot is at or below what this node already has - must not take the node backwards: snapshot index, commit index and applied index never decrease and the status relations keep holding" bounds="follower log of 1..2 entries after a symbolic base, request with lastIndex anywhere at or below the commit index, consistent with the follower's log (same leader, same history)"
func VH_C19_install_stale() {
	c := vInstallSetup(1+vChoice(2), false)
	r, a, req := c.r, c.a, c.req
	// the request comes from the legitimate leader of the current or a newer term, but it is old: it describes a snapshot
	// of a prefix this node has already committed (so wherever the node still has that position, it agrees)
	vAssume(req.term >= r.term)
	vAssume(req.lastIndex <= r.commitIndex)
	vAssume(vImp(vAnd(req.lastIndex > a.base, req.lastIndex <= a.last()), vTermAt(a, a.base, req.lastIndex) == req.lastTerm))
	vAssume(vImp(req.lastIndex == a.base, req.lastTerm == vBaseTerm))
	vAssume(vImp(req.lastIndex == r.snaps.index, req.lastTerm == r.snaps.term))
	t0, c0, f0, s0 := r.term, r.commitIndex, r.fsm.index, r.snaps.index
	res, _ := r.onInstallSnapRequest(req, c.conn)
	vDrainFSM(r)
	for len(r.fsmRestoredCh) > 0 {
		<-r.fsmRestoredCh
	}
	if res == success {
		vReach("success")
	}
	if req.lastIndex < s0 {
		vReach("stale-snapshot")
	}
	vAssert(r.term >= t0, "term-never-decreases")
	vAssert(r.commitIndex >= c0, "commit-never-decreases/stale-install")
	vAssert(r.fsm.index >= f0, "applied-never-decreases/stale-install")
	vAssert(r.snaps.index >= s0, "snapshot-index-never-decreases/stale-install")
	vAssertNI(r, a, "NI-stale")
	vReach("end")
}

//verif:check C09,C15,C03 stubs=env,valuefile,abslog,snapfs reach=pending-apply,reset,applied-after,end desc="a follower whose state machine is still behind its commit index (the apply request with its log view is queued for the FSM loop, as Raft.applyCommitted leaves it) receives a snapshot that makes it discard its log: when the FSM loop gets to the queued apply and then to the restore, it reads no log data the reset has unmapped, and ends at the snapshot's position" bounds="follower log of 1 entry after a symbolic base; FSM behind by that entry; request under CR/LC; all 64-bit values"
func VH_C09_install_pending_apply() { vInstallPendingApply(1) }

//verif:check C09,C15 tier=thorough stubs=env,valuefile,abslog,snapfs reach=pending-apply,reset,applied-after,end desc="as VH_C09_install_pending_apply with a longer log" bounds="follower log of 2 entries; FSM behind by 1..2 entries"
func VH_C09_install_pending_apply_L2() { vInstallPendingApply(2) }

func vInstallPendingApply(L int) {
	c := vInstallSetup(L, true)
	r, a, req := c.r, c.a, c.req
	vNoConfigEntries()
	vAssume(r.fsm.index < r.commitIndex && r.fsm.index >= a.prev)
	// what setCommitIndex/applyCommitted left behind when the commit index last moved
	r.applyCommitted(nil)
	vAssert(len(r.fsm.ch) == 1, "apply-queued")
	vReach("pending-apply")
	// requests that make the node discard its log (the keep-suffix arm with the state machine behind the snapshot
	// index is observation S4 of DESIGN.md §6: no legitimate sender builds such a request)
	vAssume(vNot(vAnd(vAnd(req.lastIndex > a.prev, req.lastIndex <= a.last()), vTermAt(a, a.base, req.lastIndex) == req.lastTerm)))
	res, _ := r.onInstallSnapRequest(req, c.conn)
	if res == success && a.nReset > 0 {
		vReach("reset")
	}
	vDrainFSM(r)
	for len(r.fsmRestoredCh) > 0 {
		vAssert(<-r.fsmRestoredCh == nil, "fsm-restore-ok")
	}
	if res == success && a.nReset > 0 {
		vReach("applied-after")
		vAssert(r.fsm.index == req.lastIndex, "PA-state-machine-ends-at-the-snapshot")
	}
	vReach("end")
}
