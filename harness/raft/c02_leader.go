package raft

// Leader commit rule (C02.M1, C06 leader flush, C11 non-voter acks, C17.P3 commit enabledness).

//verif:check C02,C06,C11,C07 stubs=env,valuefile,abslog reach=committed,notcommitted,end desc="leader.checkReplUpdates(matchIndex): commit index only forward; a new commit index is >= startIndex, <= lastLogIndex, held by a majority of the voters of the latest configuration (non-voters never count, self only if voter), and flushed locally first" bounds="n<=3 nodes with symbolic voter flags, log of 2 entries, all 64-bit values"
func VH_C02_leader_commit() {
	n := 1 + vChoice(3)
	r, l, a := vMkLeader(n, 2, true)
	vAssume(r.configs.Latest.numVoters() >= 1)
	r.configs.Committed = r.configs.Latest
	c0 := r.commitIndex
	// pick the follower whose acknowledgement arrives
	if n == 1 {
		// single node: the commit step is driven by storeEntry; here just run the rule itself
		l.onMajorityCommit()
	} else {
		var st *replicationStatus
		k := vChoice(n - 1)
		i := 0
		for _, repl := range l.repls {
			if i == k {
				st = &repl.status
			}
			i++
		}
		m := vU64("update.match")
		vAssume(m <= r.lastLogIndex && m >= st.matchIndex)
		l.checkReplUpdates(replUpdate{status: st, update: matchIndex{m}})
	}
	vAssert(r.commitIndex >= c0, "M1-commit-monotone")
	if r.commitIndex > c0 {
		vReach("committed")
		vAssert(r.commitIndex >= l.startIndex, "M1-commit-own-term-only")
		vAssert(r.commitIndex <= r.lastLogIndex, "M1-commit-le-last")
		vAssert(vMajorityHas(r, l, r.configs.Latest, r.commitIndex, r.lastLogIndex), "M1-majority-of-voters-have-it")
		vAssert(vImp(l.node.Voter, a.flushed >= r.commitIndex), "C06-leader-flushed-before-commit")
	} else {
		vReach("notcommitted")
	}
	vAssert(r.state == Leader || !r.configs.Latest.isVoter(r.nid), "no-spurious-stepdown")
	vReach("end")
}

//verif:check C17 stubs=env,valuefile,abslog reach=enabled,end desc="commit enabledness (progress step P3): if a majority of the voters hold an index N >= startIndex after an acknowledgement, the leader's commit index reaches N in that same step" bounds="n<=3 nodes, symbolic voter flags, log of 2 entries"
func VH_C17_commit_enabled() {
	n := 2 + vChoice(2)
	r, l, _ := vMkLeader(n, 2, true)
	vAssume(r.configs.Latest.numVoters() >= 1)
	r.configs.Committed = r.configs.Latest
	var st *replicationStatus
	k := vChoice(n - 1)
	i := 0
	for _, repl := range l.repls {
		if i == k {
			st = &repl.status
		}
		i++
	}
	m := vU64("update.match")
	vAssume(m <= r.lastLogIndex && m >= st.matchIndex)
	l.checkReplUpdates(replUpdate{status: st, update: matchIndex{m}})
	N := vU64("N")
	vAssume(N >= l.startIndex && N <= r.lastLogIndex)
	if vMajorityHas(r, l, r.configs.Latest, N, vIte64(l.node.Voter, r.lastLogIndex, 0)) {
		vReach("enabled")
		vAssert(r.commitIndex >= N, "P3-majority-implies-commit")
	}
	vReach("end")
}

//verif:check C06,C11,C07 stubs=env,valuefile,abslog reach=committed,notcommitted,removed,end desc="D3: appending a configuration that changes the voter count (promotion, demotion or removal of a node, incl. the leader itself; 1->2, 2->1, 2->3 voters): whatever the leader commits in that same step is held by a majority of the voters of the configuration now in force" bounds="n=2..3 nodes, symbolic voter flags, one voter flag flipped or one node removed, log of 2 entries"
func VH_C06_config_commit() {
	n := 2 + vChoice(2)
	r, l, a := vMkLeader(n, 2, true)
	cfg := r.configs.Latest
	vAssume(cfg.numVoters() >= 1 && l.node.Voter)
	r.configs.Committed = cfg
	vAssume(r.commitIndex >= l.startIndex && cfg.Index <= r.commitIndex)
	c0 := r.commitIndex
	flip := uint64(1 + vChoice(n))
	nc := cfg.clone()
	if vChoice(2) == 0 {
		nd := nc.Nodes[flip]
		nd.Voter = !nd.Voter
		nc.Nodes[flip] = nd
	} else {
		delete(nc.Nodes, flip) // removal, incl. of the leader itself
		vReach("removed")
	}
	vAssume(nc.numVoters() >= 1)
	l.storeEntry(&newEntry{entry: nc.encode(), task: newTask()})
	vAssert(r.configs.Latest.Index == r.lastLogIndex, "config-adopted-on-append")
	vAssert(r.commitIndex >= c0, "M1-commit-monotone")
	if r.commitIndex > c0 {
		vReach("committed")
		vAssert(vMajorityHas(r, l, r.configs.Latest, r.commitIndex, vIte64(r.configs.Latest.isVoter(r.nid), r.lastLogIndex, 0)), "D3-majority-of-new-config-has-it")
		vAssert(a.flushed >= r.commitIndex || !r.configs.Latest.isVoter(r.nid), "C06-leader-flushed-before-commit")
	} else {
		vReach("notcommitted")
	}
	vReach("end")
}
