package raft

import (
	"bytes"
	"errors"
	"io"
	"time"
)

// C18: every codec, for every field value: decode(encode(x) ++ tail) == (x, tail); every proper prefix fails with an
// error (no value, no panic). Field values are free SMT variables; byte strings have case-split lengths 0..2.

// plainReader hides ReadByte so that readUint8 takes its io.ReadFull arm.
type plainReader struct{ r io.Reader }

func (p plainReader) Read(b []byte) (int, error) { return p.r.Read(b) }

// vRoundTrip encodes once, then decodes from both reader kinds with trailing bytes, and from every proper prefix.
func vRoundTrip(id string, enc func(w io.Writer) error, dec func(r io.Reader) error, same func() bool) {
	w := new(bytes.Buffer)
	err := enc(w)
	vAssert(err == nil, id+"-encode-ok")
	full := append([]byte(nil), w.Bytes()...)
	n := len(full)
	tail := vBytes("tail", 3)
	stream := append(append([]byte(nil), full...), tail...)
	for kind := 0; kind < 2; kind++ {
		br := bytes.NewReader(stream)
		var rd io.Reader = br
		if kind == 1 {
			rd = plainReader{br}
		}
		derr := dec(rd)
		vAssert(derr == nil, id+"-decode-ok")
		vAssert(same(), id+"-roundtrip-value")
		vAssert(br.Len() == 3, id+"-consumes-exactly-its-bytes")
		rest := make([]byte, 3)
		io.ReadFull(br, rest)
		vAssert(bytes.Equal(rest, tail), id+"-stream-stays-framed")
	}
	for k := 0; k < n; k++ {
		derr := dec(bytes.NewReader(full[:k]))
		vAssert(derr != nil, id+"-truncated-is-error")
	}
	vReach("end")
}

func vSymBytes(name string) []byte {
	n := vChoice(3)
	if n == 0 {
		return nil
	}
	return vBytes(name, n)
}
func vSymString(name string) string { return vString(name, vChoice(3)) }

//verif:check C18 reach=end desc="entry codec round-trip/truncation" bounds="payload 0..2 bytes, all field values"
func VH_C18_entry() {
	x := &entry{index: vU64("index"), term: vU64("term"), typ: entryType(vU8("typ")), data: vSymBytes("data")}
	y := &entry{}
	vRoundTrip("entry", x.encode, y.decode, func() bool {
		return x.index == y.index && x.term == y.term && x.typ == y.typ && bytes.Equal(x.data, y.data)
	})
}

//verif:check C18 reach=end desc="request codecs: identity, vote, append, timeout-now" bounds="all field values"
func VH_C18_requests() {
	switch vChoice(4) {
	case 0:
		x := &identityReq{req: req{vU64("term"), vU64("src")}, cid: vU64("cid"), nid: vU64("nid")}
		y := &identityReq{}
		vRoundTrip("identityReq", x.encode, y.decode, func() bool { return *x == *y })
	case 1:
		x := &voteReq{req: req{vU64("term"), vU64("src")}, lastLogIndex: vU64("lli"), lastLogTerm: vU64("llt"), transfer: vBool("transfer")}
		y := &voteReq{}
		vRoundTrip("voteReq", x.encode, y.decode, func() bool { return *x == *y })
	case 2:
		x := &appendReq{req: req{vU64("term"), vU64("src")}, prevLogIndex: vU64("pli"), prevLogTerm: vU64("plt"), ldrCommitIndex: vU64("lci"), numEntries: vU64("n")}
		y := &appendReq{}
		vRoundTrip("appendReq", x.encode, y.decode, func() bool { return *x == *y })
	case 3:
		x := &timeoutNowReq{req: req{vU64("term"), vU64("src")}}
		y := &timeoutNowReq{}
		vRoundTrip("timeoutNowReq", x.encode, y.decode, func() bool { return *x == *y })
	}
}

func vSymNode(name string) Node {
	return Node{ID: vU64(name + ".id"), Addr: vSymString(name + ".addr"), Voter: vBool(name + ".voter"), Data: vSymString(name + ".data"), Action: Action(vU8(name + ".action"))}
}

func vSymConfig(name string, n int) Config {
	c := Config{Nodes: make(map[uint64]Node), Index: vU64(name + ".index"), Term: vU64(name + ".term")}
	for i := 0; i < n; i++ {
		nd := vSymNode(name + ".n" + string(rune('1'+i)))
		c.Nodes[nd.ID] = nd
	}
	return c
}

func vSameConfig(a, b Config) bool {
	if a.Index != b.Index || a.Term != b.Term || len(a.Nodes) != len(b.Nodes) {
		return false
	}
	for id, n := range a.Nodes {
		m, ok := b.Nodes[id]
		if !ok || n != m {
			return false
		}
	}
	return true
}

//verif:check C18 reach=end desc="Node and Config codecs (configuration entry payload)" bounds="0..2 nodes with symbolic ids, strings of 0..2 symbolic bytes"
func VH_C18_config() {
	if vChoice(2) == 0 {
		x := vSymNode("n")
		y := Node{}
		vRoundTrip("Node", x.encode, y.decode, func() bool { return x == y })
		return
	}
	x := vSymConfig("c", vChoice(3))
	var y Config
	vRoundTrip("Config", func(w io.Writer) error { return x.encode().encode(w) },
		func(r io.Reader) error {
			e := &entry{}
			if err := e.decode(r); err != nil {
				return err
			}
			return y.decode(e)
		},
		func() bool { return vSameConfig(x, y) })
}

//verif:check C18 reach=end desc="installSnapReq and snapshotMeta codecs" bounds="configuration of 0..1 nodes; all integer fields"
func VH_C18_snapshot() {
	cfg := vSymConfig("c", vChoice(2))
	if vChoice(2) == 0 {
		x := &installSnapReq{req: req{vU64("term"), vU64("src")}, lastIndex: vU64("li"), lastTerm: vU64("lt"), lastConfig: cfg, size: vI64("size")}
		y := &installSnapReq{}
		vRoundTrip("installSnapReq", x.encode, y.decode, func() bool {
			return x.req == y.req && x.lastIndex == y.lastIndex && x.lastTerm == y.lastTerm && x.size == y.size && vSameConfig(x.lastConfig, y.lastConfig)
		})
		return
	}
	x := &snapshotMeta{index: vU64("index"), term: vU64("term"), config: cfg, size: vI64("size")}
	y := &snapshotMeta{}
	vRoundTrip("snapshotMeta", x.encode, y.decode, func() bool {
		return x.index == y.index && x.term == y.term && x.size == y.size && vSameConfig(x.config, y.config)
	})
}

//verif:check C18 reach=end,opError,plainErr,reused-receiver desc="response codecs incl. unexpectedErr with and without OpError, into a fresh receiver and into one that held an error reply before" bounds="result any byte; error strings of 0..2 symbolic bytes"
func VH_C18_responses() {
	x := resp{term: vU64("term"), result: rpcResult(vU8("result"))}
	if x.result == unexpectedErr {
		msg := vSymString("err")
		if vChoice(2) == 0 {
			x.err = errors.New(msg)
			vReach("plainErr")
		} else {
			op := vSymString("op")
			vAssume(op != "") // an OpError always names its operation; an empty Op is indistinguishable on the wire by design
			x.err = OpError{op, errors.New(msg)}
			vReach("opError")
		}
	} else {
		vReach("opError")
		vReach("plainErr")
	}
	sameErr := func(a, b error) bool {
		if a == nil || b == nil {
			return a == nil && b == nil
		}
		ao, aok := a.(OpError)
		bo, bok := b.(OpError)
		if aok != bok {
			return false
		}
		if aok {
			return ao.Op == bo.Op && ao.Err.Error() == bo.Err.Error()
		}
		return a.Error() == b.Error()
	}
	// the receiver is fresh, or reused after holding an error reply (replication.replicate decodes every reply of a
	// connection into one appendResp): decoding replaces every field either way
	stale := resp{}
	if vChoice(2) == 1 {
		stale = resp{term: 9, result: unexpectedErr, err: errors.New("left over from the previous reply")}
		vReach("reused-receiver")
	}
	if vChoice(2) == 0 {
		y := stale
		vRoundTrip("resp", x.encode, y.decode, func() bool { return x.term == y.term && x.result == y.result && sameErr(x.err, y.err) })
	} else {
		xa := &appendResp{x, vU64("lastLogIndex")}
		ya := &appendResp{resp: stale, lastLogIndex: 77}
		vRoundTrip("appendResp", xa.encode, ya.decode, func() bool {
			return xa.term == ya.term && xa.result == ya.result && sameErr(xa.err, ya.err) && xa.lastLogIndex == ya.lastLogIndex
		})
	}
}

func vSymReplication(name string) Replication {
	r := Replication{ID: vU64(name + ".id"), MatchIndex: vU64(name + ".match"), ErrMessage: vSymString(name + ".err"), Round: vU64(name + ".round")}
	if r.ErrMessage != "" {
		r.Err = errors.New(r.ErrMessage)
	}
	if vChoice(2) == 1 {
		t := time.Now() // an Unreachable instant is a time.Now() reading, never the zero of the encoding
		r.Unreachable = &t
	}
	return r
}

func vSameReplication(a, b Replication) bool {
	if a.ID != b.ID || a.MatchIndex != b.MatchIndex || a.ErrMessage != b.ErrMessage || a.Round != b.Round {
		return false
	}
	if (a.Unreachable == nil) != (b.Unreachable == nil) {
		return false
	}
	if a.Unreachable != nil && a.Unreachable.UnixNano() != b.Unreachable.UnixNano() {
		return false
	}
	if (a.Err == nil) != (b.Err == nil) {
		return false
	}
	return a.Err == nil || a.Err.Error() == b.Err.Error()
}

//verif:check C18 reach=end desc="Replication and Info (status report) codecs" bounds="Replication: all fields, error text 0..2 bytes; Info: all integer fields, address 0..2 bytes, empty configurations, 0..1 followers"
func VH_C18_info() { vInfoCodec(1) }

//verif:check C18 tier=thorough reach=end desc="Info codec with non-empty configurations" bounds="configurations of 0..1 nodes, 0..1 followers, strings 0..2 bytes"
func VH_C18_info_deep() { vInfoCodec(2) }

func vInfoCodec(maxNodes int) {
	if maxNodes == 1 && vChoice(2) == 0 {
		x := vSymReplication("r")
		y := Replication{}
		vRoundTrip("Replication", x.encode, y.decode, func() bool { return vSameReplication(x, y) })
		return
	}
	x := Info{CID: vU64("cid"), NID: vU64("nid"), Addr: vSymString("addr"), Term: vU64("term"), State: State(vU8("state")), Leader: vU64("leader"),
		SnapshotIndex: vU64("si"), FirstLogIndex: vU64("fli"), LastLogIndex: vU64("lli"), LastLogTerm: vU64("llt"), Committed: vU64("ci"), LastApplied: vU64("la"),
		Configs: Configs{Committed: vSymConfig("cc", vChoice(maxNodes)), Latest: vSymConfig("cl", vChoice(maxNodes))}}
	if vChoice(2) == 1 {
		f := vSymReplication("f")
		x.Followers = map[uint64]Replication{f.ID: f}
	}
	y := Info{}
	vRoundTrip("Info", x.encode, y.decode, func() bool {
		if x.CID != y.CID || x.NID != y.NID || x.Addr != y.Addr || x.Term != y.Term || x.State != y.State || x.Leader != y.Leader ||
			x.SnapshotIndex != y.SnapshotIndex || x.FirstLogIndex != y.FirstLogIndex || x.LastLogIndex != y.LastLogIndex ||
			x.LastLogTerm != y.LastLogTerm || x.Committed != y.Committed || x.LastApplied != y.LastApplied {
			return false
		}
		if !vSameConfig(x.Configs.Committed, y.Configs.Committed) || !vSameConfig(x.Configs.Latest, y.Configs.Latest) {
			return false
		}
		if len(x.Followers) != len(y.Followers) {
			return false
		}
		for id, f := range x.Followers {
			g, ok := y.Followers[id]
			if !ok || !vSameReplication(f, g) {
				return false
			}
		}
		return true
	})
}

//verif:check C18 reach=end,notleader,inprogress,sentinel,value desc="admin task responses: result values survive; NotLeaderError (leader hint, lost flag), InProgressError, plain and temporary sentinel errors are recognisable by kind/equality after the round trip" bounds="error strings 0..2 bytes; results: nil, uint64, Config of 0..1 nodes"
func VH_C18_taskResp() {
	t := newTask()
	typ := taskChangeConfig
	var check func(res interface{}, err error) bool
	switch vChoice(7) {
	case 0:
		e := NotLeaderError{Leader: vSymNode("ldr"), Lost: vBool("lost")}
		t.reply(e)
		vReach("notleader")
		check = func(res interface{}, err error) bool { g, ok := err.(NotLeaderError); return ok && g == e }
	case 1:
		e := InProgressError(vSymString("what"))
		t.reply(e)
		vReach("inprogress")
		// recognisable by kind (the text is re-wrapped by Error(), so the value itself is not preserved; the property asks for kind)
		check = func(res interface{}, err error) bool { _, ok := err.(InProgressError); _ = e; return ok }
	case 2:
		t.reply(ErrNotCommitReady)
		vReach("sentinel")
		check = func(res interface{}, err error) bool { return err == ErrNotCommitReady }
	case 3:
		t.reply(ErrStaleConfig)
		check = func(res interface{}, err error) bool { return err == ErrStaleConfig }
	case 4:
		t.reply(nil)
		check = func(res interface{}, err error) bool { return err == nil && res == nil }
	case 5:
		typ = taskTakeSnapshot
		v := vU64("snapIndex")
		t.reply(v)
		vReach("value")
		check = func(res interface{}, err error) bool { g, ok := res.(uint64); return err == nil && ok && g == v }
	case 6:
		typ = taskWaitForStableConfig
		c := vSymConfig("c", vChoice(2))
		t.reply(c)
		check = func(res interface{}, err error) bool { g, ok := res.(Config); return err == nil && ok && vSameConfig(c, g) }
	}
	var res interface{}
	var derr error
	vRoundTrip("taskResp", func(w io.Writer) error { return encodeTaskResp(t, w) },
		func(r io.Reader) error {
			res, derr = decodeTaskResp(typ, r)
			if derr != nil {
				// an error-valued response decodes to (nil, that error); a framing failure is an io error
				if derr == io.EOF || derr == io.ErrUnexpectedEOF {
					return derr
				}
			}
			return nil
		},
		func() bool { return check(res, derr) })
}
