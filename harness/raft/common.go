package raft

// State builders shared by raft-level harnesses: symbolic configurations, storage over absLog, recording FSM,
// scripted connections. The predicates assumed here are the invariants SI / NI / LI of DESIGN.md §4.

import (
	"bufio"
	"bytes"
	"io"
	"net"
	"time"
)

// ---- configurations ----

// vMkConfig: n nodes with concrete ids 1..n and concrete addresses, symbolic Voter and Action.
func vMkConfig(name string, n int, index, term uint64) Config {
	c := Config{Nodes: make(map[uint64]Node), Index: index, Term: term}
	for i := 1; i <= n; i++ {
		id := uint64(i)
		nd := Node{ID: id, Addr: vAddr(i), Voter: vBool(name + ".voter" + string(rune('0'+i))), Action: Action(vU8(name + ".action" + string(rune('0'+i))))}
		vAssume(nd.Action <= ForceRemove)
		// Node.validate's rules hold for every configuration that was ever accepted
		vAssume(vNot(vAnd(nd.Action == Promote, nd.Voter)))
		vAssume(vNot(vAnd(nd.Action == Demote, !nd.Voter)))
		c.Nodes[id] = nd
	}
	// every configuration ever adopted keeps a voter with no pending action (onChangeConfig demands it of requests,
	// and no action touches such a voter); C08's harnesses assert it of every configuration they see appended
	vAssume(vHasPlainVoter(c))
	return c
}

func vAddr(i int) string { return "h" + string(rune('0'+i)) + ":80" }

// vStableConfig: n nodes, symbolic voter flags, no pending actions.
func vStableConfig(name string, n int, index, term uint64) Config {
	c := Config{Nodes: make(map[uint64]Node), Index: index, Term: term}
	for i := 1; i <= n; i++ {
		id := uint64(i)
		c.Nodes[id] = Node{ID: id, Addr: vAddr(i), Voter: vBool(name + ".voter" + string(rune('0'+i)))}
	}
	return c
}

func vNumVotersSym(c Config) uint64 {
	var n uint64
	for _, nd := range c.Nodes {
		n += vIte64(nd.Voter, 1, 0)
	}
	return n
}

func vHasPlainVoter(c Config) bool {
	res := false
	for _, nd := range c.Nodes {
		res = vOr(res, vAnd(nd.Voter, nd.Action == None))
	}
	return res
}

// ---- storage over absLog ----

// vInitLog gives the node a log of L symbolic entries after a symbolic base index, under SI:
// contiguous indexes, non-decreasing terms, all <= current term; lastLogIndex/lastLogTerm consistent.
// snapIndex/snapTerm describe the latest snapshot (0 if none); base <= snapIndex <= last.
func vInitLog(r *Raft, L int, dlen int) *vAbsLog {
	base := vU64("log.base")
	vAssume(base < 1<<40)
	l, a := vNewLog(base)
	r.storage.log = l
	snapIndex, snapTerm := vU64("snap.index"), vU64("snap.term")
	prevTerm := vU64("log.baseTerm") // term of the entry at index base (compacted away or the snapshot's)
	vAssume(vImp(base == 0, prevTerm == 0))
	vAssume(vImp(base != 0, prevTerm >= 1))
	vAssume(prevTerm <= r.term)
	t := prevTerm
	for k := 0; k < L; k++ {
		e := vSymEntry("log.e"+string(rune('1'+k)), base+uint64(k)+1, dlen)
		vAssume(e.term >= t && e.term <= r.term && e.term >= 1)
		vAssume(e.typ == entryUpdate || e.typ == entryNop || e.typ == entryConfig)
		t = e.term
		a.ents = append(a.ents, vEncodeEntry(e))
		vEntries = append(vEntries, e)
	}
	last := base + uint64(L)
	vAssume(snapIndex >= base && snapIndex <= last)
	vAssume(vImp(snapIndex == 0, snapTerm == 0))
	vAssume(vImp(snapIndex != 0, snapTerm >= 1))
	vAssume(snapTerm <= r.term)
	// the snapshot's term is the term of the entry at its index
	if snapIndex == base {
		vAssume(snapTerm == prevTerm)
	} else {
		k := vConcreteInt(int(snapIndex - base - 1))
		vAssume(snapTerm == vEntries[k].term)
	}
	r.snaps.index, r.snaps.term = snapIndex, snapTerm
	if L > 0 {
		r.lastLogIndex, r.lastLogTerm = last, t
	} else {
		// empty log: SI says last index/term are the snapshot's
		vAssume(snapIndex == base)
		r.lastLogIndex, r.lastLogTerm = snapIndex, snapTerm
	}
	a.flushed = vU64("log.flushed0")
	vAssume(a.flushed >= base && a.flushed <= last)
	// what a snapshot covers is committed, and a node flushes what it counts as committed (leader: before advancing
	// its commit index; follower: before acknowledging)
	vAssume(a.flushed >= snapIndex)
	vBaseTerm = prevTerm
	return a
}

// ghost copy of the symbolic entries the log was populated with (index order)
var vEntries []*entry
var vBaseTerm uint64

// vTermAt: the term of the pre-state log at index i (base <= i <= last), as a symbolic expression.
func vTermAt(a *vAbsLog, base uint64, i uint64) uint64 {
	t := vBaseTerm
	for k, e := range vEntries {
		t = vIte64(i == base+uint64(k)+1, e.term, t)
	}
	return t
}

// ---- recording FSM ----

type vFSM struct {
	updates [][]byte // payloads passed to Update, in order
	reads   []int    // len(updates) at each Read
	snaps   int
	restored int
	snapGate chan struct{} // when set, Snapshot() waits for it (cooperative harnesses: a slow snapshot)
	persistGate chan struct{} // when set, the state's Persist() waits for it (a slow write of the snapshot)
	restoreErr  error         // when set, Restore fails with it and leaves the state as it was
}

func (f *vFSM) Update(cmd []byte) interface{} {
	f.updates = append(f.updates, cmd)
	return len(f.updates)
}
func (f *vFSM) Read(cmd interface{}) interface{} {
	f.reads = append(f.reads, len(f.updates))
	return len(f.updates)
}
func (f *vFSM) Snapshot() (FSMState, error) {
	if f.snapGate != nil {
		<-f.snapGate
	}
	f.snaps++
	return vFSMState{n: len(f.updates), gate: f.persistGate}, nil
}
func (f *vFSM) Restore(r io.Reader) error {
	if f.restoreErr != nil {
		return f.restoreErr
	}
	f.restored++
	f.updates = nil
	return nil
}

type vFSMState struct {
	n    int
	gate chan struct{}
}

func (s vFSMState) Persist(w io.Writer) error {
	if s.gate != nil {
		<-s.gate
	}
	return nil
}
func (s vFSMState) Release()                  {}

// ---- scripted connection ----

type vConn struct {
	rd      []byte
	wr      bytes.Buffer
	closed  bool
	readErr error // returned when rd is exhausted (default io.EOF)
}

type vAddrT struct{}

func (vAddrT) Network() string { return "ghost" }
func (vAddrT) String() string  { return "ghost" }

func (c *vConn) Read(b []byte) (int, error) {
	if len(c.rd) == 0 {
		if c.readErr != nil {
			return 0, c.readErr
		}
		return 0, io.EOF
	}
	n := copy(b, c.rd)
	c.rd = c.rd[n:]
	return n, nil
}
func (c *vConn) Write(b []byte) (int, error)        { return c.wr.Write(b) }
func (c *vConn) Close() error                       { c.closed = true; return nil }
func (c *vConn) LocalAddr() net.Addr                { return vAddrT{} }
func (c *vConn) RemoteAddr() net.Addr               { return vAddrT{} }
func (c *vConn) SetDeadline(t time.Time) error      { return nil }
func (c *vConn) SetReadDeadline(t time.Time) error  { return nil }
func (c *vConn) SetWriteDeadline(t time.Time) error { return nil }

func vMkConn(script []byte) (*conn, *vConn) {
	vc := &vConn{rd: script}
	return &conn{rwc: vc, bufr: bufio.NewReaderSize(vc, 256), bufw: bufio.NewWriterSize(vc, 256)}, vc
}

// vDrainFSM runs the FSM goroutine's real loop (stateMachine.runLoop) over everything queued on fsm.ch, in order:
// the queued tasks are moved to a closed channel so that the loop's `range` ends when they are consumed.
func vDrainFSM(r *Raft) {
	for len(r.fsm.ch) > 0 {
		n := len(r.fsm.ch)
		tmp := make(chan interface{}, n)
		for k := 0; k < n; k++ {
			tmp <- <-r.fsm.ch
		}
		close(tmp)
		live := r.fsm.ch
		r.fsm.ch = tmp
		r.fsm.runLoop()
		r.fsm.ch = live
	}
}
