package raft

import "bytes"

// C03 / C07: the path a client entry takes on a leader - storeEntry, commit, applyCommitted, stateMachine.onApply -
// composed from the real functions, with a recording FSM.

type vSubmitted struct {
	ne  *newEntry
	typ entryType
}

//verif:check C03 stubs=env,valuefile,abslog reach=applied,read,second-round,end desc="updates reach the FSM exactly once, in index order, only when committed; fsm.index follows the commit index; reads/barriers are answered after everything before them and see exactly the committed updates before them" bounds="leader with 2 voters, pre-existing log of 1 entry, batch of up to 2 submitted tasks with symbolic kinds (update/read/barrier), two commit rounds with symbolic commit indexes"
func VH_C03_store_commit_apply() { vStoreCommitApply(1, 2) }

//verif:check C03 tier=thorough stubs=env,valuefile,abslog reach=applied,read,second-round,end desc="as VH_C03_store_commit_apply, deeper" bounds="pre-existing log of 2 entries, batch of up to 3 tasks, two commit rounds"
func VH_C03_store_commit_apply_deep() { vStoreCommitApply(2, 3) }

func vStoreCommitApply(L, maxQ int) {
	r, l, a := vMkLeader(2, L, true)
	// entries the FSM loop reads from the log are update/no-op entries here: since 6db2122 the loop decodes the
	// configuration entries it applies, and a symbolic 1-byte payload is not a configuration (real configuration
	// entries pass through the FSM loop in the cluster harnesses and in the C12 harnesses)
	vNoConfigEntries()
	cfg := r.configs.Latest
	vAssume(cfg.Nodes[1].Voter && cfg.Nodes[2].Voter)
	r.configs.Committed = cfg
	vAssume(cfg.Index <= r.commitIndex)
	fsm := r.fsm.FSM.(*vFSM)
	c0 := r.commitIndex

	// a batch of client tasks
	Q := 1 + vChoice(maxQ)
	var subs []vSubmitted
	var head, tail *newEntry
	for i := 0; i < Q; i++ {
		typ := entryType(vU8("task.typ"))
		vAssume(typ == entryUpdate || typ == entryRead || typ == entryBarrier)
		ne := &newEntry{task: newTask(), entry: &entry{typ: typ}}
		if typ == entryUpdate {
			ne.entry.data = vBytes("task.data", 1)
		}
		subs = append(subs, vSubmitted{ne, typ})
		if tail == nil {
			head, tail = ne, ne
		} else {
			tail.next, tail = ne, ne
		}
	}
	last0 := r.lastLogIndex
	l.storeEntry(head)
	vDrainFSM(r)
	// T2: accepted log entries get consecutive indexes in submission order; reads/barriers take lastLogIndex+1 and are not logged
	next := last0 + 1
	for _, s := range subs {
		vAssert(s.ne.index == next, "T2-index-assignment")
		if s.typ == entryUpdate {
			next++
		}
	}
	vAssert(r.lastLogIndex == next-1, "T2-only-updates-are-logged")

	// two rounds of commit progress
	applied := 0
	for round := 0; round < 2; round++ {
		c := vU64("newCommit")
		vAssume(c >= r.commitIndex && c <= r.lastLogIndex && c >= l.startIndex)
		if c > r.commitIndex {
			l.setCommitIndex(c)
			l.applyCommitted()
			l.notifyFlr(false)
		}
		vDrainFSM(r)
		if round == 1 {
			vReach("second-round")
		}
		vAssert(r.fsm.index == r.commitIndex, "A-fsm-index-equals-commit-after-apply")
		// expected: the update-typed entries of indexes c0+1..commit, in order
		exp := 0
		for k := range a.ents {
			idx := a.base + uint64(k) + 1
			if idx > c0 && idx <= r.commitIndex {
				e := &entry{}
				if err := e.decode(bytes.NewReader(a.ents[k])); err != nil {
					vAssert(false, "stored-entry-decodes")
				}
				if e.typ == entryUpdate {
					vAssert(exp < len(fsm.updates), "A-committed-update-was-applied")
					vAssert(bytes.Equal(fsm.updates[exp], e.data), "A-updates-applied-in-index-order")
					exp++
				}
			}
		}
		vAssert(len(fsm.updates) == exp, "A-nothing-uncommitted-and-nothing-twice")
		applied = exp
	}
	if applied > 0 {
		vReach("applied")
	}
	// every task: completed iff everything before it is committed; replied value = number of updates applied at its position
	for _, s := range subs {
		done := isClosed(s.ne.Done())
		if s.typ == entryUpdate {
			vAssert(done == (s.ne.index <= r.commitIndex), "T3-update-completes-iff-committed")
		} else {
			vAssert(done == (s.ne.index <= r.commitIndex+1), "T3-read-released-iff-all-before-committed")
			if done {
				vReach("read")
			}
		}
		if done {
			vAssert(s.ne.Err() == nil, "T4-completed-without-error")
		}
	}
	vReach("end")
}

//verif:check C07,C03,C15 stubs=env,valuefile,abslog reach=lost,closed,end desc="leader.release fails every still-queued task exactly once (NotLeaderError{Lost:true}, or ErrServerClosed when shutting down), and a task already completed is not completed again" bounds="leader with 2 voters, log of 1 entry, batch of up to 2 tasks, symbolic commit progress before release; every way leadership can end"
func VH_C07_release() { vRelease(1, 2) }

//verif:check C07 tier=thorough stubs=env,valuefile,abslog reach=lost,closed,end desc="as VH_C07_release, deeper" bounds="log of 2 entries, batch of up to 3 tasks"
func VH_C07_release_deep() { vRelease(2, 3) }

func vRelease(L, maxQ int) {
	r, l, _ := vMkLeader(2, L, true)
	vNoConfigEntries()
	cfg := r.configs.Latest
	vAssume(cfg.Nodes[1].Voter && cfg.Nodes[2].Voter)
	r.configs.Committed = cfg
	vAssume(cfg.Index <= r.commitIndex)
	Q := 1 + vChoice(maxQ)
	var subs []*newEntry
	var head, tail *newEntry
	for i := 0; i < Q; i++ {
		typ := entryType(vU8("task.typ"))
		vAssume(typ == entryUpdate || typ == entryRead || typ == entryBarrier)
		ne := &newEntry{task: newTask(), entry: &entry{typ: typ}}
		subs = append(subs, ne)
		if tail == nil {
			head, tail = ne, ne
		} else {
			tail.next, tail = ne, ne
		}
	}
	l.storeEntry(head)
	c := vU64("newCommit")
	vAssume(c >= r.commitIndex && c <= r.lastLogIndex && c >= l.startIndex)
	if c > r.commitIndex {
		l.setCommitIndex(c)
		l.applyCommitted()
	}
	vDrainFSM(r)
	var before []bool
	for _, ne := range subs {
		before = append(before, isClosed(ne.Done()))
	}
	closing := vBool("closing")
	if closing {
		r.doClose(ErrServerClosed)
	}
	// how leadership ended: quorum loss / higher term in a reply (no leader known), or an append/install request from
	// the new leader (that leader is known by the time release runs)
	r.setState(Follower)
	if vBool("deposedByNewLeader") {
		r.setLeader(2)
	} else if vBool("leaderForgotten") {
		r.setLeader(0)
	}
	l.release()
	for i, ne := range subs {
		vAssert(isClosed(ne.Done()), "T5-every-task-completed-after-release")
		if !before[i] {
			if closing {
				vReach("closed")
				vAssert(ne.Err() == ErrServerClosed, "T5-server-closed-error")
			} else {
				vReach("lost")
				nl, ok := ne.Err().(NotLeaderError)
				vAssert(ok && nl.Lost, "T5-not-leader-lost-true")
			}
		} else {
			vAssert(ne.Err() == nil, "T5-completed-task-keeps-its-result")
		}
	}
	vAssert(l.neHead == nil && l.neTail == nil, "T5-queue-empty")
	vReach("end")
}

//verif:check C07,C16 stubs=env,valuefile,abslog reach=rejected,dirty,end desc="a non-leader rejects every task except dirty reads with NotLeaderError{Lost:false} and appends nothing; a leader in transfer or demoted rejects with InProgressError and appends nothing" bounds="batch of up to 3 tasks of any kind"
func VH_C07_reject() {
	r, l, _ := vMkLeader(2, 2, true)
	vNoConfigEntries()
	cfg := r.configs.Latest
	r.configs.Committed = cfg
	mode := vChoice(3) // 0: not leader, 1: transfer in progress, 2: leader demoted (non-voter)
	switch mode {
	case 0:
		r.state = Follower
	case 1:
		vAssume(l.node.Voter)
		l.transfer.timer.active = true
	case 2:
		vAssume(!l.node.Voter)
	}
	Q := 1 + vChoice(3)
	var subs []*newEntry
	var head, tail *newEntry
	for i := 0; i < Q; i++ {
		typ := entryType(vU8("task.typ"))
		vAssume(typ == entryUpdate || typ == entryRead || typ == entryBarrier || typ == entryDirtyRead)
		ne := &newEntry{task: newTask(), entry: &entry{typ: typ}}
		subs = append(subs, ne)
		if tail == nil {
			head, tail = ne, ne
		} else {
			tail.next, tail = ne, ne
		}
	}
	last0 := r.lastLogIndex
	// what the newEntryCh arm of stateLoop does
	if r.state == Leader {
		l.storeEntry(head)
	} else {
		for ne := head; ne != nil; ne = ne.next {
			if ne.typ == entryDirtyRead {
				r.fsm.ch <- fsmDirtyRead{ne}
			} else {
				ne.reply(notLeaderError(r, false))
			}
		}
	}
	vDrainFSM(r)
	vAssert(r.lastLogIndex == last0, "T1-nothing-appended")
	for _, ne := range subs {
		vAssert(isClosed(ne.Done()), "T1-replied")
		if mode == 0 && ne.typ == entryDirtyRead {
			vReach("dirty")
			vAssert(ne.Err() == nil, "T6-dirty-read-served-by-nonleader")
			continue
		}
		vReach("rejected")
		if mode == 0 {
			nl, ok := ne.Err().(NotLeaderError)
			vAssert(ok && !nl.Lost, "T1-not-leader-lost-false")
		} else {
			_, ok := ne.Err().(InProgressError)
			vAssert(ok, "T1-in-progress-error")
		}
	}
	vReach("end")
}

//verif:check C03 stubs=env,valuefile,abslog reach=applied,second-round,end desc="follower side: Raft.setCommitIndex + Raft.applyCommitted + stateMachine.onApply over two commit rounds: exactly the update-typed entries of the newly committed range reach the FSM, once, in index order; other entry kinds advance fsm.index without touching the FSM" bounds="log of 3 entries after a symbolic base with symbolic kinds (update/no-op/configuration), applied position anywhere at or below the first commit"
func VH_C03_follower_apply() {
	r := vMkRaft(2)
	vSymTermState(r)
	vAssume(r.term >= 1)
	a := vInitLog(r, 3, 1)
	vNoConfigEntries()
	fsm := &vFSM{}
	r.fsm.FSM = fsm
	r.commitIndex = vU64("commitIndex")
	vAssume(r.commitIndex <= r.lastLogIndex && r.commitIndex >= r.snaps.index && r.commitIndex >= a.base)
	r.fsm.index = r.commitIndex
	cfg := vStableConfig("cfg", 2, 1, 1)
	r.configs.Latest, r.configs.Committed = cfg, cfg
	c0 := r.commitIndex
	for round := 0; round < 2; round++ {
		c := vU64("newCommit")
		vAssume(c >= r.commitIndex && c <= r.lastLogIndex)
		if c > r.commitIndex {
			r.setCommitIndex(c)
			r.applyCommitted(nil)
		}
		vDrainFSM(r)
		if round == 1 {
			vReach("second-round")
		}
		vAssert(r.fsm.index == r.commitIndex, "A-fsm-index-equals-commit-after-apply")
		exp := 0
		for k, e := range vEntries {
			idx := a.base + uint64(k) + 1
			if idx > c0 && idx <= r.commitIndex {
				if e.typ == entryUpdate {
					vAssert(exp < len(fsm.updates), "A-committed-update-was-applied")
					vAssert(bytes.Equal(fsm.updates[exp], e.data), "A-updates-applied-in-index-order")
					exp++
				}
			}
		}
		vAssert(len(fsm.updates) == exp, "A-nothing-uncommitted-and-nothing-twice")
		if exp > 0 {
			vReach("applied")
		}
	}
	vReach("end")
}

//verif:check C03,C09,C12 stubs=env,valuefile,abslog,snapfs reach=restored,restore-failed,end desc="stateMachine.onRestoreReq: the FSM loop's position (index, term, configuration) moves to the snapshot's only together with the state machine's contents: after a successful restore they are the snapshot label's, after a failed one (the user's Restore returns an error and keeps its state) they are unchanged, so that nothing is applied on top of a state it does not belong to" bounds="any applied position and snapshot label (64-bit); Restore succeeds or fails"
func VH_C03_restore_position() {
	r := vMkRaft(1)
	vSymTermState(r)
	fsm := &vFSM{updates: [][]byte{{1}}}
	r.fsm.FSM = fsm
	i0, t0 := vU64("fsm.index"), vU64("fsm.term")
	r.fsm.index, r.fsm.term = i0, t0
	c0 := vStableConfig("applied.cfg", 2, vU64("applied.cfg.index"), 1)
	r.fsm.config = c0
	si, st := vU64("snap.index"), vU64("snap.term")
	vAssume(si >= 1 && st >= 1)
	sc := vStableConfig("snap.cfg", 2, vU64("snap.cfg.index"), 1)
	vPublishSnapshot(r, si, st, sc, 10)
	if vBool("restore.fails") {
		fsm.restoreErr = vIOError{"restore"}
	}
	err := r.fsm.onRestoreReq()
	if err == nil {
		vReach("restored")
		vAssert(fsm.restored == 1 && len(fsm.updates) == 0, "RS-state-replaced")
		vAssert(r.fsm.index == si && r.fsm.term == st && r.fsm.config.Index == sc.Index, "RS-position-is-the-snapshot-label")
	} else {
		vReach("restore-failed")
		vAssert(fsm.restored == 0 && len(fsm.updates) == 1, "RS-failed-restore-keeps-the-state")
		vAssert(r.fsm.index == i0 && r.fsm.term == t0 && r.fsm.config.Index == c0.Index, "RS-failed-restore-keeps-the-position")
	}
	vReach("end")
}
