package raft

import (
	"bytes"
	"time"
)

// C11: when a non-voter is promoted.

//verif:check C11,C08,C17 stubs=env,valuefile,abslog reach=promoted,not-yet,restarted-round,end desc="leader.checkConfigAction for a non-voter marked Promote, from any round state (none, in progress, finished, finished once and begun again) and replication progress: a configuration making it a voter is appended only if its current round is finished, its match index reached the round's target, and either it holds everything the leader has or the round took no longer than the promote threshold" bounds="2 nodes (leader voter, follower non-voter with Promote), log of 2 entries, symbolic match index and round state/instants"
func VH_C11_promotion() {
	r, l, _ := vMkLeader(2, 2, false)
	cfg := r.configs.Latest
	nd2 := cfg.Nodes[2]
	vAssume(r.nid == 1 && l.node.Voter && l.node.Action == None)
	vAssume(!nd2.Voter && nd2.Action == Promote)
	r.configs.Committed = cfg
	vAssume(r.commitIndex >= l.startIndex && cfg.Index <= r.commitIndex)
	st := &l.repls[2].status
	var rd *round
	switch vChoice(4) {
	case 3: // a round that finished earlier and was begun again (leader.beginFinishedRounds on a new entry, or the
		// slow-round arm of checkConfigAction): built with the round's own methods, as the code builds it
		rd = &round{}
		first := vU64("round1.lastIndex")
		vAssume(first <= st.matchIndex) // it finished when the match index had reached its target
		rd.begin(first)
		rd.finish()
		rd.begin(vU64("round.lastIndex"))
		vReach("restarted-round")
	case 1: // a round in progress
		rd = &round{Ordinal: 1, LastIndex: vU64("round.lastIndex")}
		rd.Start = vInstant("round.start")
	case 2: // a finished round
		rd = &round{Ordinal: 1, LastIndex: vU64("round.lastIndex")}
		rd.Start = vInstant("round.start")
		rd.End = vInstant("round.end")
		// a round is finished only at a moment the match index had reached its target, and not before it started
		vAssume(st.matchIndex >= rd.LastIndex)
		vAssume(rd.End.Sub(rd.Start) >= 0)
	}
	if rd != nil {
		vAssume(rd.LastIndex <= r.lastLogIndex)
	}
	st.round = rd
	// the target the node has to reach: its current round's, or (no round yet) the leader's last index right now
	target0 := r.lastLogIndex
	if rd != nil {
		target0 = rd.LastIndex
	}
	last0 := r.lastLogIndex
	r.promoteThreshold = 1000
	// a round that is already finished when the step starts: how long it took is known beforehand
	fin0 := rd != nil && rd.finished()
	var dur0 time.Duration
	if fin0 {
		dur0 = rd.Duration()
	}
	vWatchConfigAppends(r, l)
	l.checkConfigAction(nil, cfg, st)
	promoted := false
	for _, ap := range vCfgAppends {
		if ap.conf.Nodes[2].Voter {
			promoted = true
		}
	}
	if promoted {
		vReach("promoted")
		vAssert(st.round != nil, "P-promoted-through-a-round")
		vAssert(st.matchIndex >= target0, "P-caught-up-with-round-target")
		// (storeEntry restarts finished rounds for the entry it appends, so the duration is not observable afterwards;
		// what is observable: a node that lacks entries can only have been promoted out of a finished round)
		vAssert(vOr(last0 <= st.matchIndex, vAnd(rd != nil, true)), "P-caught-up-or-had-a-round")
		if fin0 {
			// the promote threshold: a node that still lacks entries is promoted only out of a round that was fast
			// enough; after a slow one it has to go through another round first
			vAssert(last0 <= st.matchIndex || dur0 <= r.promoteThreshold, "P-slow-round-with-entries-missing-is-not-promoted")
		}
	} else {
		vReach("not-yet")
		// progress (C17): a node that holds everything the leader has is promoted in this very step, whatever state its
		// round is in - on an idle cluster nothing would re-evaluate it later
		vAssert(st.matchIndex < last0, "P-caught-up-node-is-promoted-now")
	}
	vReach("end")
}

// vInstant: a non-zero instant with a symbolic reading (time.Unix is the identity model of the engine).
func vInstant(name string) time.Time {
	n := vI64(name)
	vAssume(n > 0 && n < 1<<60)
	return time.Unix(0, n)
}

//verif:check C11,C08 stubs=env,valuefile,abslog reach=demoted,waiting,end desc="promote, demote, promote again under one leader: the second promotion is not granted on the strength of the round that served the first one - the node has to reach, in a round begun for this promotion, what the leader holds" bounds="2 nodes; node 2 is a voter carrying the finished round of its earlier promotion; it is demoted, falls behind by the entries appended meanwhile, and is marked Promote again"
func VH_C11_demote_then_promote() {
	r, l, _ := vMkLeader(2, 2, false)
	cfg := r.configs.Latest
	nd2 := cfg.Nodes[2]
	vAssume(r.nid == 1 && l.node.Voter && l.node.Action == None)
	vAssume(nd2.Voter && nd2.Action == Demote)
	r.configs.Committed = cfg
	vAssume(r.commitIndex >= l.startIndex && cfg.Index <= r.commitIndex)
	st := &l.repls[2].status
	// node 2 was promoted earlier in this term: the round that served that promotion is still attached, finished
	old := &round{Ordinal: 1, LastIndex: vU64("oldround.lastIndex")}
	old.Start = vInstant("oldround.start")
	old.End = vInstant("oldround.end")
	vAssume(old.LastIndex <= st.matchIndex && old.End.Sub(old.Start) >= 0)
	st.round = old
	r.promoteThreshold = 1000
	// step 1: the pending Demote is executed
	l.checkConfigAction(nil, cfg, st)
	vAssume(!r.configs.Latest.Nodes[2].Voter) // the demotion was appended
	vReach("demoted")
	// it commits (node 2 acknowledges it), then node 2 stops following: the leader appends more
	st.matchIndex = r.lastLogIndex
	l.onMajorityCommit()
	vAssume(r.configs.IsCommitted())
	l.storeEntry(&newEntry{entry: &entry{typ: entryUpdate, data: []byte{1}}, task: newTask()})
	behind := st.matchIndex
	// step 2: the operator marks node 2 Promote again
	nc := r.configs.Latest.clone()
	n2 := nc.Nodes[2]
	n2.Action = Promote
	nc.Nodes[2] = n2
	l.onChangeConfig(changeConfig{task: newTask(), newConf: nc})
	if r.configs.Latest.Nodes[2].Voter {
		vReach("repromoted")
		vAssert(false, "P-lagging-node-not-promoted-on-a-stale-round")
	} else {
		vReach("waiting")
		vAssert(st.round != nil && !st.round.finished() && st.round.LastIndex > behind, "P-fresh-round-targets-what-the-leader-holds-now")
	}
	vReach("end")
}

//verif:check C11,C17 stubs=env,valuefile,abslog reach=adopted-without-self,end desc="a node that is being added to the cluster (empty log, no configuration yet) and receives the beginning of the leader's log - whose configuration entries so far do not mention it, because the entry that adds it lies further on than one request carries - does not take the commit of such a configuration for its own removal: it keeps running; only a node that was a member before shuts itself down when a configuration without it commits" bounds="joining node 4; first request: bootstrap configuration of nodes 1..3 + one update; any leader commit index; ShutdownOnRemove on"
func VH_C11_joining_node_keeps_running() {
	r := vMkRaft(4)
	r.shutdownOnRemove = true
	vDiskInit(".term", 0, 0)
	l, a := vNewLog(0)
	r.storage.log = l
	r.fsm.FSM = &vFSM{}
	cfgE := vClusterConfig().encode()
	cfgE.index, cfgE.term = 1, 1
	e2 := &entry{index: 2, term: 1, typ: entryUpdate, data: vBytes("payload2", 1)}
	var w bytes.Buffer
	w.Write(vEncodeEntry(cfgE))
	w.Write(vEncodeEntry(e2))
	c, _ := vMkConn(w.Bytes())
	req := &appendReq{req: req{1, 1}, prevLogIndex: 0, prevLogTerm: 0, ldrCommitIndex: vU64("ldrCommitIndex"), numEntries: 2}
	res, err := r.onAppendEntriesRequest(req, c)
	vAssert(res == success && err == nil && a.last() == 2, "J-entries-stored")
	_, self := r.configs.Latest.Nodes[4]
	vAssert(!self && r.configs.Latest.Index == 1, "J-adopted-configuration-does-not-mention-the-joining-node-yet")
	vReach("adopted-without-self")
	vAssert(!r.isClosed(), "J-joining-node-does-not-shut-itself-down")
	vReach("end")
}

//verif:check C11,C17 stubs=env,valuefile,abslog reach=caught-up-to-removal,end desc="a node that was a member, was removed (it is not told: the leader drops a removed node's replication when it stores the configuration without it) and is added again: the leader of the re-adding configuration replicates to it from where it stopped, so the first thing it learns is the OLD configuration without it, committed long ago; the entry that adds it again lies further on than one request carries. It does not take that for its removal and keeps running - whoever replicates to a node has it in its latest configuration" bounds="node 4, log of 2 entries (configuration of nodes 1..4, one update); request: configuration without node 4 + one update, any leader commit index; ShutdownOnRemove on"
func VH_C11_readded_node_keeps_running() {
	r := vMkRaft(4)
	r.shutdownOnRemove = true
	r.term, r.termVal.v1 = 1, 1
	vDiskInit(".term", 1, 0)
	l, a := vNewLog(0)
	r.storage.log = l
	r.fsm.FSM = &vFSM{}
	with4 := vClusterConfig()
	with4.Nodes[4] = Node{ID: 4, Addr: vAddr(4)}
	with4.Index, with4.Term = 1, 1
	a.ents = append(a.ents, vEncodeEntry(with4.encode()), vEncodeEntry(&entry{index: 2, term: 1, typ: entryUpdate, data: vBytes("payload2", 1)}))
	a.flushed = 2
	r.lastLogIndex, r.lastLogTerm = 2, 1
	r.configs.Latest, r.configs.Committed = with4, with4
	r.commitIndex = 2
	r.fsm.index, r.fsm.term = 2, 1
	r.state = Follower
	without4 := vClusterConfig().encode()
	without4.index, without4.term = 3, 1
	e4 := &entry{index: 4, term: 1, typ: entryUpdate, data: vBytes("payload4", 1)}
	var w bytes.Buffer
	w.Write(vEncodeEntry(without4))
	w.Write(vEncodeEntry(e4))
	c, _ := vMkConn(w.Bytes())
	req := &appendReq{req: req{1, 1}, prevLogIndex: 2, prevLogTerm: 1, ldrCommitIndex: vU64("ldrCommitIndex"), numEntries: 2}
	vAssume(req.ldrCommitIndex >= 2)
	res, err := r.onAppendEntriesRequest(req, c)
	vAssert(res == success && err == nil && a.last() == 4, "RA-entries-stored")
	_, self := r.configs.Latest.Nodes[4]
	vAssert(!self && r.configs.Latest.Index == 3, "RA-adopted-the-old-configuration-without-it")
	vReach("caught-up-to-removal")
	vAssert(!r.isClosed(), "RA-readded-node-does-not-shut-itself-down")
	vReach("end")
}
