package raft

import (
	"bytes"
	"net"
	"time"
)

// C20: identity isolation between dialer and listener.

//verif:check C20,C17 stubs=rt,timers,valuefile,abslog reach=match,mismatch,end desc="Raft.replyRPC identity arm for every pair of (cluster id, node id) identities: success iff both match, nothing but the reply changes, and a refused handshake (a dialer that took this node for another cluster or node) never counts as hearing from the leader: it does not reset the election timer, whatever node id the dialer carries" bounds="all 64-bit ids"
func VH_C20_replyRPC_identity() {
	r := vLoopNode(Follower)
	r.cid, r.nid = vU64("my.cid"), vU64("my.nid")
	r.leader = vU64("leader")
	req := &identityReq{req: req{term: vU64("req.term"), src: vU64("req.src")}, cid: vU64("req.cid"), nid: vU64("req.nid")}
	c, _ := vMkConn(nil)
	x := &rpc{req: req, conn: c, done: make(chan struct{})}
	t0, v0, l0, s0, last0 := r.term, r.votedFor, r.leader, r.state, r.lastLogIndex
	reset := r.replyRPC(x)
	vAssert(isClosed(x.done) && x.resp != nil, "replied")
	same := vAnd(req.cid == r.cid, req.nid == r.nid)
	vAssert(vImp(reset, same), "I-refused-handshake-does-not-reset-the-election-timer")
	if x.resp.getResult() == success {
		vReach("match")
		vAssert(same, "I-success-only-for-matching-identity")
	} else {
		vReach("mismatch")
		vAssert(vAnd(vNot(same), x.resp.getResult() == identityMismatch), "I-mismatch-refused")
	}
	vAssert(r.term == t0 && r.votedFor == v0 && r.leader == l0 && r.state == s0 && r.lastLogIndex == last0, "I-identity-request-changes-nothing")
	vReach("end")
}

// vScript builds the byte stream a peer sends: identity request, then a vote request.
func vScript(id *identityReq, vote *voteReq) []byte {
	var w bytes.Buffer
	w.WriteByte(byte(rpcIdentity))
	if err := id.encode(&w); err != nil {
		panic(err)
	}
	w.WriteByte(byte(rpcVote))
	if err := vote.encode(&w); err != nil {
		panic(err)
	}
	return w.Bytes()
}

//verif:check C20 stubs=rt,timers,valuefile,abslog onblock=violation reach=accepted,rejected,end desc="real server.handleConn over a scripted connection whose first frame is an identity request with arbitrary ids followed by a vote request: after a mismatch no further request reaches the raft goroutine and the connection handler ends; after a match the vote request is processed" bounds="all 64-bit ids and vote request fields; one connection, two frames"
func VH_C20_handleConn() {
	r := vLoopNode(Follower)
	r.leader = 0
	id := &identityReq{req: req{term: vU64("id.term"), src: vU64("id.src")}, cid: vU64("id.cid"), nid: vU64("id.nid")}
	vote := &voteReq{req: req{vU64("v.term"), vU64("v.src")}, lastLogIndex: vU64("v.lli"), lastLogTerm: vU64("v.llt"), transfer: vBool("v.transfer")}
	vAssume(vote.src != 0 && vote.src != r.nid)
	vc := &vConn{rd: vScript(id, vote)}
	s := &server{r: r, stopCh: make(chan struct{})}
	served, nonIdentity := 0, 0
	t0, v0 := r.term, r.votedFor
	vSetIdleHook(func() {
		// the raft goroutine: ready to receive, and serving whatever was handed over
		if len(r.rpcCh) > 0 {
			x := <-r.rpcCh
			served++
			if x.req.rpcType() != rpcIdentity {
				nonIdentity++
			}
			r.replyRPC(x)
			return
		}
		vExpectRecv(r.rpcCh)
	})
	err := s.handleConn(vc)
	match := vAnd(id.cid == r.cid, id.nid == r.nid)
	if nonIdentity > 0 {
		vReach("accepted")
		vAssert(match, "H-requests-processed-only-after-matching-identity")
	} else {
		vReach("rejected")
		vAssert(vNot(match), "H-matching-identity-is-served")
		_, isIdErr := err.(IdentityError)
		vAssert(isIdErr, "H-mismatch-ends-the-connection-handler")
		vAssert(r.term == t0 && r.votedFor == v0, "H-mismatching-peer-cannot-touch-term-or-vote")
		// the end of a refused connection is not the disconnect of a peer: the state loop clears its leader when the
		// leader's id is reported disconnected, which switches the leader-known vote refusal off
		vAssert(len(r.disconnected) == 0, "H-refused-dialer-is-not-reported-as-a-disconnected-peer")
	}
	vAssert(served >= 1, "identity-request-reached-raft")
	vReach("end")
}

type vDialer struct {
	conn *vConn
	n    int
}

//verif:check C20 stubs=rt,timers,valuefile,abslog reach=handed-out,refused,second-dial,end desc="connPool.getConn: every freshly dialled connection is handed out only if the peer answered the identity handshake with success on THAT connection; otherwise it is closed and an IdentityError returned. Two successive dials to the same resolved address (the first connection broke; whoever listens there now may be another node) are each verified" bounds="two dials; each peer reply: any term, any result byte; also truncated replies"
func VH_C20_getConn() {
	r := vLoopNode(Follower)
	r.resolver.addrs[2] = vAddr(2) // a real, stable address: both dials resolve to it
	pool := r.getConnPool(2)
	for dialNo := 0; dialNo < 2; dialNo++ {
		tag := string(rune('1' + dialNo))
		resp := &identityResp{resp{term: vU64("resp.term" + tag), result: rpcResult(vU8("resp.result" + tag))}}
		vAssume(resp.result != unexpectedErr)
		var w bytes.Buffer
		if err := resp.encode(&w); err != nil {
			panic(err)
		}
		script := w.Bytes()
		if vChoice(2) == 1 {
			script = script[:vChoice(len(script))] // the peer hangs up mid-reply
		}
		vc := &vConn{rd: script}
		pool.dialFn = func(network, address string, timeout time.Duration) (net.Conn, error) { return vc, nil }
		c, err := pool.getConn(time.Now())
		if err == nil {
			vReach("handed-out")
			vAssert(c != nil && !vc.closed, "G-connection-usable")
			vAssert(len(script) == w.Len() && resp.result == success, "G-handed-out-only-after-successful-handshake")
			// what was sent: an identity request naming the intended cluster and node
			sent := vc.wr.Bytes()
			vAssert(len(sent) > 0 && sent[0] == byte(rpcIdentity), "G-handshake-sent-first")
			got := &identityReq{}
			vAssert(len(sent) > 0 && got.decode(bytes.NewReader(sent[1:])) == nil && got.cid == r.cid && got.nid == 2 && got.src == r.nid, "G-handshake-names-intended-peer")
		} else {
			vReach("refused")
			_, isIdErr := err.(IdentityError)
			vAssert(isIdErr && vc.closed && c == nil, "G-refused-connection-is-closed")
		}
		if dialNo == 1 {
			vReach("second-dial")
		}
		// the connection is not returned to the pool (it broke): the next request dials again
	}
	vReach("end")
}

type vTimeoutErr struct{}

func (vTimeoutErr) Error() string   { return "ghost i/o timeout" }
func (vTimeoutErr) Timeout() bool   { return true }
func (vTimeoutErr) Temporary() bool { return true }

//verif:check C01,C20,C04 stubs=rt,timers,valuefile,abslog reach=failed,answered,end desc="connPool.doRPC (vote and timeout-now requests): a request whose reply does not arrive - the read ends in a timeout, a hang-up or a truncated reply - leaves no connection in the pool: the connection is closed, so a reply that turns up later can never be taken for the answer to the next request (a late vote grant of an older term counted in a newer election); a request that is answered puts the connection back" bounds="one request on a freshly dialled connection; the peer's reply complete, truncated at any byte, or timing out; any reply term/result"
func VH_C01_doRPC_failure_closes() {
	r := vLoopNode(Follower)
	r.resolver.addrs[2] = vAddr(2)
	id := &identityResp{resp{term: 1, result: success}}
	vr := &voteResp{resp{term: vU64("reply.term"), result: rpcResult(vU8("reply.result"))}}
	vAssume(vr.result != unexpectedErr)
	var w bytes.Buffer
	if err := id.encode(&w); err != nil {
		panic(err)
	}
	n0 := w.Len()
	if err := vr.encode(&w); err != nil {
		panic(err)
	}
	script := w.Bytes()
	vc := &vConn{}
	switch vChoice(3) {
	case 0: // answered
		vc.rd = script
	case 1: // the peer hangs up inside the reply
		vc.rd = script[:n0+vChoice(len(script)-n0)]
	case 2: // nothing (more) arrives before the deadline
		vc.rd = script[:n0+vChoice(len(script)-n0)]
		vc.readErr = vTimeoutErr{}
	}
	pool := r.getConnPool(2)
	pool.dialFn = func(network, address string, timeout time.Duration) (net.Conn, error) { return vc, nil }
	resp := &voteResp{}
	err := pool.doRPC(&voteReq{req: req{r.term + 1, r.nid}}, resp, time.Now())
	if err != nil {
		vReach("failed")
		vAssert(len(pool.conns) == 0, "D-no-connection-pooled-after-a-failed-request")
		vAssert(vc.closed, "D-connection-closed-after-a-failed-request")
	} else {
		vReach("answered")
		vAssert(resp.term == vr.term && resp.result == vr.result, "D-reply-decoded-as-sent")
		vAssert(len(pool.conns) == 1 && !vc.closed, "D-answered-request-returns-the-connection")
	}
	vReach("end")
}
