package raft

import (
	"bytes"
	"io"
	"net"
	"time"
)

// Two real nodes in one symbolic execution (sched=coop): the leader's real stateLoop, its real replication goroutine
// (runLoop / replicate incl. the pipeline writer), the real connPool handshake, a byte pipe, the follower's real
// server.handleConn, real stateLoop / replyRPC / handlers and both real FSM loops, each on its own cooperative
// goroutine. The harness only builds the two initial states, plays the environment at quiescent points (the idle
// hook), and compares the two nodes.

// ---- a buffered duplex byte stream on channels: a blocking Read parks the reading goroutine ----

type vPipeEnd struct {
	in        chan []byte
	out       chan []byte
	buf       []byte
	closed    bool
	peer      *vPipeEnd
	delivered int // bytes written by this end
}

func vPipe() (*vPipeEnd, *vPipeEnd) {
	ab, ba := make(chan []byte, 256), make(chan []byte, 256)
	a := &vPipeEnd{in: ba, out: ab}
	b := &vPipeEnd{in: ab, out: ba}
	a.peer, b.peer = b, a
	return a, b
}

func (e *vPipeEnd) Read(b []byte) (int, error) {
	if e.closed {
		return 0, vIOError{"read on closed connection"}
	}
	if len(e.buf) == 0 {
		x, ok := <-e.in
		if !ok {
			return 0, io.EOF
		}
		e.buf = x
	}
	n := copy(b, e.buf)
	e.buf = e.buf[n:]
	return n, nil
}

func (e *vPipeEnd) Write(b []byte) (int, error) {
	if e.closed || e.peer.closed {
		return 0, vIOError{"write on closed connection"}
	}
	e.out <- append([]byte(nil), b...)
	e.delivered += len(b)
	return len(b), nil
}

func (e *vPipeEnd) Close() error {
	if !e.closed {
		e.closed = true
		close(e.out)
	}
	return nil
}
func (e *vPipeEnd) LocalAddr() net.Addr                { return vAddrT{} }
func (e *vPipeEnd) RemoteAddr() net.Addr               { return vAddrT{} }
func (e *vPipeEnd) SetDeadline(t time.Time) error      { return nil }
func (e *vPipeEnd) SetReadDeadline(t time.Time) error  { return nil }
func (e *vPipeEnd) SetWriteDeadline(t time.Time) error { return nil }

// ---- building the two nodes ----

const vDirF = "/ghostF"

func vClusterConfig() Config {
	return Config{Nodes: map[uint64]Node{
		1: {ID: 1, Addr: vAddr(1), Voter: true},
		2: {ID: 2, Addr: vAddr(2), Voter: true},
		3: {ID: 3, Addr: vAddr(3), Voter: true}, // down for the whole run (dial fails)
	}, Index: 1, Term: 1}
}

// vClusterNode: a node whose log holds the given entries (index 1 is the bootstrap configuration).
func vClusterNode(dir string, nid uint64, ents []*entry, term, votedFor, commit uint64) (*Raft, *vAbsLog) {
	r := vMkRaftAt(dir, nid)
	r.cid = 7
	r.timer = newSafeTimer()
	r.snapTimer = newSafeTimer()
	r.term, r.votedFor = term, votedFor
	r.termVal.v1, r.termVal.v2 = term, votedFor
	vDiskInitAt(dir, ".term", term, votedFor)
	l, a := vNewLog(0)
	r.storage.log = l
	cfg := vClusterConfig()
	for _, e := range ents {
		a.ents = append(a.ents, vEncodeEntry(e))
		r.lastLogIndex, r.lastLogTerm = e.index, e.term
	}
	a.flushed = a.last()
	if len(ents) > 0 {
		r.configs.Latest, r.configs.Committed = cfg, cfg
	}
	r.commitIndex = commit
	fsm := &vFSM{}
	r.fsm.FSM = fsm
	// everything committed is applied
	for _, e := range ents {
		if e.index <= commit {
			if e.typ == entryUpdate {
				fsm.Update(e.data)
			}
			r.fsm.index, r.fsm.term = e.index, e.term
		}
	}
	r.resolver.update(cfg)
	return r, a
}

func vLogsEqual(a, b *vAbsLog, upto uint64) bool {
	if a.last() < upto || b.last() < upto {
		return false
	}
	eq := true
	for i := uint64(1); i <= upto; i++ {
		eq = vAnd(eq, bytes.Equal(a.ents[i-1], b.ents[i-1]))
	}
	return eq
}

func vSameUpdates(x, y *vFSM) bool {
	if len(x.updates) != len(y.updates) {
		return false
	}
	eq := true
	for i := range x.updates {
		eq = vAnd(eq, bytes.Equal(x.updates[i], y.updates[i]))
	}
	return eq
}

//verif:check C04,C17,C03,C06,C02 sched=coop maxsteps=400000 onunwind=violation stubs=rt,timers,valuefile,abslog onblock=violation reach=caught-up,client-update-done,closed,end desc="two real nodes end to end: a leader (log of 3 entries, new term) and a follower whose log is empty, a prefix, equal, conflicting in its last entry (with a lower or a higher term than the leader's entry), or longer with stale entries; the leader's real replication goroutine (probing, next-index back-off, pipelined appends, commit propagation) talks through a byte pipe to the follower's real connection handler, state loop and handlers. At the first quiescent point the follower's log equals the leader's byte for byte, the leader's no-op is committed on both, both state machines applied the same commands; a client update submitted then is committed, answered, and applied on both; shutdown completes" bounds="3-voter configuration with one voter down; leader log 3 entries + its no-op; 6 follower log shapes; 1-byte symbolic payloads; round-robin goroutine schedule (run until blocked); no timer fires except as scripted"
func VH_C04_cluster2_catchup() {
	p2, p3a, p3b := vBytes("payload2", 1), vBytes("payload3.leader", 1), vBytes("payload3.follower", 1)
	cfgE := vClusterConfig().encode()
	cfgE.index, cfgE.term = 1, 1
	e2 := &entry{index: 2, term: 1, typ: entryUpdate, data: p2}
	e3 := &entry{index: 3, term: 2, typ: entryUpdate, data: p3a}
	stale3 := &entry{index: 3, term: 1, typ: entryUpdate, data: p3b}
	stale4 := &entry{index: 4, term: 1, typ: entryUpdate, data: vBytes("payload4.follower", 1)}
	newer3 := &entry{index: 3, term: 3, typ: entryUpdate, data: p3b} // from a deposed term-3 leader, never committed

	L, la := vClusterNode(vDir, 1, []*entry{cfgE, e2, e3}, 4, 1, 2)
	L.state, L.leader = Leader, 1

	var fents []*entry
	fcommit := uint64(0)
	switch vChoice(6) {
	case 0: // never heard of anything
	case 1:
		fents, fcommit = []*entry{cfgE}, 1
	case 2:
		fents, fcommit = []*entry{cfgE, e2, e3}, 2
	case 3:
		fents, fcommit = []*entry{cfgE, e2, stale3}, 2
	case 4:
		fents, fcommit = []*entry{cfgE, e2, stale3, stale4}, 1
	case 5: // conflicting entry with a HIGHER term than the leader's entry at that index
		fents, fcommit = []*entry{cfgE, e2, newer3}, 2
	}
	F, fa := vClusterNode(vDirF, 2, fents, 3, 0, fcommit)
	lfsm, ffsm := L.fsm.FSM.(*vFSM), F.fsm.FSM.(*vFSM)

	// the network: node 2 accepts, node 3 is down
	fsrv := &server{r: F, stopCh: make(chan struct{})}
	L.dialFn = func(network, address string, timeout time.Duration) (net.Conn, error) {
		if address != vAddr(2) {
			return nil, vIOError{"dial: connection refused"}
		}
		a, b := vPipe()
		go func() { _ = fsrv.handleConn(b) }()
		return a, nil
	}

	go L.fsm.runLoop()
	go F.fsm.runLoop()
	go F.stateLoop()

	ne := &newEntry{task: newTask(), entry: &entry{typ: entryUpdate, data: vBytes("client.cmd", 1)}}
	step := 0
	vSetIdleHook(func() {
		switch step {
		case 0:
			vReach("caught-up")
			vAssert(L.state == Leader && L.term == 4 && L.lastLogIndex == 4, "K-leader-appended-its-no-op")
			vAssert(L.ldr.repls[2].status.matchIndex == 4, "K-follower-match-index-reaches-leaders-last-index")
			vAssert(F.term == 4 && F.leader == 1 && F.state == Follower, "K-follower-follows-the-leader")
			vAssert(F.lastLogIndex == 4 && vLogsEqual(la, fa, 4), "K-follower-log-equals-leader-log")
			vAssert(fa.flushed >= 4, "K-acknowledged-entries-are-flushed-on-the-follower")
			vAssert(L.commitIndex == 4 && F.commitIndex == 4, "K-no-op-committed-on-both")
			vAssert(la.last() == 4 && bytes.Equal(la.ents[1], vEncodeEntry(e2)) && bytes.Equal(la.ents[2], vEncodeEntry(e3)), "K-leader-never-rewrites-its-own-log")
			vAssert(len(lfsm.updates) == 2 && vSameUpdates(lfsm, ffsm), "K-both-state-machines-applied-the-same-commands")
			vOffer(L.newEntryCh, ne)
		case 1:
			vReach("client-update-done")
			vAssert(isClosed(ne.Done()) && ne.Err() == nil, "K-client-update-completed")
			vAssert(L.commitIndex == 5 && F.commitIndex == 5 && vLogsEqual(la, fa, 5), "K-client-update-committed-and-stored-on-both")
			vAssert(len(lfsm.updates) == 3 && vSameUpdates(lfsm, ffsm), "K-client-update-applied-once-on-both")
			F.doClose(ErrServerClosed)
			L.doClose(ErrServerClosed)
		}
		step++
	})
	L.stateLoop()
	vReach("closed")
	vAssert(step >= 2, "script-completed")
	vReach("end")
}
