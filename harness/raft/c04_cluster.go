package raft

import (
	"bufio"
	"bytes"
	"context"
	"io"
	"net"
	"time"
)

// Two real nodes in one symbolic execution (sched=coop): the leader's real stateLoop, its real replication goroutine
// (runLoop / replicate incl. the pipeline writer), the real connPool handshake, a byte pipe, the follower's real
// server.handleConn, real stateLoop / replyRPC / handlers and both real FSM loops, each on its own cooperative
// goroutine. The harness only builds the two initial states, plays the environment at quiescent points (the idle
// hook), and compares the two nodes.

// ---- a buffered duplex byte stream on channels: a blocking Read parks the reading goroutine ----

type vPipeEnd struct {
	in        chan []byte
	out       chan []byte
	buf       []byte
	closed    bool
	peer      *vPipeEnd
	delivered int    // bytes written by this end
	owner     uint64 // node id holding this end (cluster harnesses; 0 = unknown)
	onWrite   func() // called at the start of every Write (a harness can make the network slow here)
	failNext  int    // the next failNext writes deliver only their first half and fail (write deadline exceeded)
}

func vPipe() (*vPipeEnd, *vPipeEnd) {
	ab, ba := make(chan []byte, 256), make(chan []byte, 256)
	a := &vPipeEnd{in: ba, out: ab}
	b := &vPipeEnd{in: ab, out: ba}
	a.peer, b.peer = b, a
	vPipes = append(vPipes, a, b)
	return a, b
}

func (e *vPipeEnd) Read(b []byte) (int, error) {
	if e.closed {
		return 0, vIOError{"read on closed connection"}
	}
	if len(e.buf) == 0 {
		x, ok := <-e.in
		if !ok {
			return 0, io.EOF
		}
		e.buf = x
	}
	n := copy(b, e.buf)
	e.buf = e.buf[n:]
	return n, nil
}

func (e *vPipeEnd) Write(b []byte) (int, error) {
	if e.onWrite != nil {
		e.onWrite()
	}
	if e.closed || e.peer.closed {
		return 0, vIOError{"write on closed connection"}
	}
	if e.failNext > 0 {
		e.failNext--
		half := len(b) / 2
		e.out <- append([]byte(nil), b[:half]...)
		e.delivered += half
		return half, vIOError{"write: i/o timeout"}
	}
	e.out <- append([]byte(nil), b...)
	e.delivered += len(b)
	return len(b), nil
}

func (e *vPipeEnd) Close() error {
	if !e.closed {
		e.closed = true
		close(e.out)
	}
	return nil
}
func (e *vPipeEnd) LocalAddr() net.Addr                { return vAddrT{} }
func (e *vPipeEnd) RemoteAddr() net.Addr               { return vAddrT{} }
func (e *vPipeEnd) SetDeadline(t time.Time) error      { return nil }
func (e *vPipeEnd) SetReadDeadline(t time.Time) error  { return nil }
func (e *vPipeEnd) SetWriteDeadline(t time.Time) error { return nil }

// vChanListener: a net.Listener whose Accept blocks on a channel of incoming connections (the real server.serve
// accept loop runs on it).
type vChanListener struct {
	incoming chan net.Conn
	closed   bool
}

func vNewListener() *vChanListener { return &vChanListener{incoming: make(chan net.Conn, 16)} }
func (l *vChanListener) Accept() (net.Conn, error) {
	c, ok := <-l.incoming
	if !ok {
		return nil, vIOError{"accept: listener closed"}
	}
	return c, nil
}
func (l *vChanListener) Close() error {
	if !l.closed {
		l.closed = true
		close(l.incoming)
	}
	return nil
}
func (l *vChanListener) Addr() net.Addr { return vAddrT{} }

// vServe: the node's real accept loop on a channel listener; returns the dial function that reaches it.
func vServe(r *Raft) (*server, dialFn) {
	lr := vNewListener()
	srv := newServer(r, lr)
	go srv.serve()
	return srv, func(network, address string, timeout time.Duration) (net.Conn, error) {
		if lr.closed {
			return nil, vIOError{"dial: connection refused"}
		}
		a, b := vPipe()
		lr.incoming <- b
		return a, nil
	}
}

// ---- building the two nodes ----

const vDirF = "/ghostF"

var vDebugCluster = false
var vPipes []*vPipeEnd

func vClusterConfig() Config {
	return Config{Nodes: map[uint64]Node{
		1: {ID: 1, Addr: vAddr(1), Voter: true},
		2: {ID: 2, Addr: vAddr(2), Voter: true},
		3: {ID: 3, Addr: vAddr(3), Voter: true}, // down for the whole run (dial fails)
	}, Index: 1, Term: 1}
}

// vClusterNode: a node whose log holds the given entries (index 1 is the bootstrap configuration).
func vClusterNode(dir string, nid uint64, ents []*entry, term, votedFor, commit uint64) (*Raft, *vAbsLog) {
	r := vMkRaftAt(dir, nid)
	r.cid = 7
	r.timer = newSafeTimer()
	r.snapTimer = newSafeTimer()
	r.term, r.votedFor = term, votedFor
	r.termVal.v1, r.termVal.v2 = term, votedFor
	vDiskInitAt(dir, ".term", term, votedFor)
	l, a := vNewLog(0)
	r.storage.log = l
	cfg := vClusterConfig()
	for _, e := range ents {
		a.ents = append(a.ents, vEncodeEntry(e))
		r.lastLogIndex, r.lastLogTerm = e.index, e.term
	}
	a.flushed = a.last()
	if len(ents) > 0 {
		r.configs.Latest, r.configs.Committed = cfg, cfg
	}
	r.commitIndex = commit
	fsm := &vFSM{}
	r.fsm.FSM = fsm
	// everything committed is applied
	for _, e := range ents {
		if e.index <= commit {
			if e.typ == entryUpdate {
				fsm.Update(e.data)
			}
			r.fsm.index, r.fsm.term = e.index, e.term
			if e.typ == entryConfig {
				r.fsm.config = cfg
			}
		}
	}
	r.resolver.update(cfg)
	return r, a
}

func vLogsEqual(a, b *vAbsLog, upto uint64) bool {
	if a.last() < upto || b.last() < upto {
		return false
	}
	eq := true
	for i := uint64(1); i <= upto; i++ {
		eq = vAnd(eq, bytes.Equal(a.ents[i-1], b.ents[i-1]))
	}
	return eq
}

func vSameUpdates(x, y *vFSM) bool {
	if len(x.updates) != len(y.updates) {
		return false
	}
	eq := true
	for i := range x.updates {
		eq = vAnd(eq, bytes.Equal(x.updates[i], y.updates[i]))
	}
	return eq
}

//verif:check C04,C17,C03,C06,C02 sched=coop maxsteps=400000 onunwind=violation stubs=rt,timers,valuefile,abslog onblock=violation reach=caught-up,client-update-done,closed,end desc="two real nodes end to end: a leader (log of 3 entries, new term) and a follower whose log is empty, a prefix, equal, conflicting in its last entry (with a lower or a higher term than the leader's entry), or longer with stale entries; the leader's real replication goroutine (probing, next-index back-off, pipelined appends, commit propagation) talks through a byte pipe to the follower's real connection handler, state loop and handlers. At the first quiescent point the follower's log equals the leader's byte for byte, the leader's no-op is committed on both, both state machines applied the same commands; a client update submitted then is committed, answered, and applied on both; shutdown completes" bounds="3-voter configuration with one voter down; leader log 3 entries + its no-op; 6 follower log shapes; 1-byte symbolic payloads; round-robin goroutine schedule (run until blocked); no timer fires except as scripted"
func VH_C04_cluster2_catchup() {
	p2, p3a, p3b := vBytes("payload2", 1), vBytes("payload3.leader", 1), vBytes("payload3.follower", 1)
	cfgE := vClusterConfig().encode()
	cfgE.index, cfgE.term = 1, 1
	e2 := &entry{index: 2, term: 1, typ: entryUpdate, data: p2}
	e3 := &entry{index: 3, term: 2, typ: entryUpdate, data: p3a}
	stale3 := &entry{index: 3, term: 1, typ: entryUpdate, data: p3b}
	stale4 := &entry{index: 4, term: 1, typ: entryUpdate, data: vBytes("payload4.follower", 1)}
	newer3 := &entry{index: 3, term: 3, typ: entryUpdate, data: p3b} // from a deposed term-3 leader, never committed

	L, la := vClusterNode(vDir, 1, []*entry{cfgE, e2, e3}, 4, 1, 2)
	L.state, L.leader = Leader, 1

	var fents []*entry
	fcommit := uint64(0)
	switch vChoice(6) {
	case 0: // never heard of anything
	case 1:
		fents, fcommit = []*entry{cfgE}, 1
	case 2:
		fents, fcommit = []*entry{cfgE, e2, e3}, 2
	case 3:
		fents, fcommit = []*entry{cfgE, e2, stale3}, 2
	case 4:
		fents, fcommit = []*entry{cfgE, e2, stale3, stale4}, 1
	case 5: // conflicting entry with a HIGHER term than the leader's entry at that index
		fents, fcommit = []*entry{cfgE, e2, newer3}, 2
	}
	F, fa := vClusterNode(vDirF, 2, fents, 3, 0, fcommit)
	lfsm, ffsm := L.fsm.FSM.(*vFSM), F.fsm.FSM.(*vFSM)

	// the network: node 2 accepts, node 3 is down
	fsrv, dialF := vServe(F)
	L.dialFn = func(network, address string, timeout time.Duration) (net.Conn, error) {
		if address != vAddr(2) {
			return nil, vIOError{"dial: connection refused"}
		}
		return dialF(network, address, timeout)
	}

	go L.fsm.runLoop()
	go F.fsm.runLoop()
	go F.stateLoop()

	ne := &newEntry{task: newTask(), entry: &entry{typ: entryUpdate, data: vBytes("client.cmd", 1)}}
	step := 0
	vSetIdleHook(func() {
		switch step {
		case 0:
			vReach("caught-up")
			if vIsEngine() && vDebugCluster {
				rp := L.ldr.repls[2]
				print("DBG L.state=", int(L.state), " L.term=", L.term, " L.last=", L.lastLogIndex, " L.commit=", L.commitIndex, " match=", rp.status.matchIndex, " rmatch=", rp.matchIndex, " next=", rp.nextIndex, " noContact=", !rp.status.noContact.IsZero(), " F.last=", F.lastLogIndex, " F.term=", F.term, " F.commit=", F.commitIndex, " upd=", len(L.ldr.replUpdateCh), "\n")
				for i, pe := range vPipes {
					print("  pipe", i, " inq=", len(pe.in), " buf=", len(pe.buf), " closed=", pe.closed, " written=", pe.delivered, "\n")
				}
			}
			vAssert(L.state == Leader && L.term == 4 && L.lastLogIndex == 4, "K-leader-appended-its-no-op")
			vAssert(L.ldr.repls[2].status.matchIndex == 4, "K-follower-match-index-reaches-leaders-last-index")
			vAssert(F.term == 4 && F.leader == 1 && F.state == Follower, "K-follower-follows-the-leader")
			vAssert(F.lastLogIndex == 4 && vLogsEqual(la, fa, 4), "K-follower-log-equals-leader-log")
			vAssert(fa.flushed >= 4, "K-acknowledged-entries-are-flushed-on-the-follower")
			vAssert(L.commitIndex == 4 && F.commitIndex == 4, "K-no-op-committed-on-both")
			vAssert(la.last() == 4 && bytes.Equal(la.ents[1], vEncodeEntry(e2)) && bytes.Equal(la.ents[2], vEncodeEntry(e3)), "K-leader-never-rewrites-its-own-log")
			vAssert(len(lfsm.updates) == 2 && vSameUpdates(lfsm, ffsm), "K-both-state-machines-applied-the-same-commands")
			vOffer(L.newEntryCh, ne)
		case 1:
			vReach("client-update-done")
			vAssert(isClosed(ne.Done()) && ne.Err() == nil, "K-client-update-completed")
			vAssert(L.commitIndex == 5 && F.commitIndex == 5 && vLogsEqual(la, fa, 5), "K-client-update-committed-and-stored-on-both")
			vAssert(len(lfsm.updates) == 3 && vSameUpdates(lfsm, ffsm), "K-client-update-applied-once-on-both")
			F.doClose(ErrServerClosed)
			L.doClose(ErrServerClosed)
			fsrv.shutdown()
		}
		step++
	})
	L.stateLoop()
	vReach("closed")
	vAssert(step >= 2, "script-completed")
	vReach("end")
}

// ---- n real nodes ----

type vCluster struct {
	ids   []uint64
	nodes map[uint64]*Raft
	logs  map[uint64]*vAbsLog
	srv   map[uint64]*server
	dial  map[uint64]dialFn
	down  map[uint64]bool
	cut   map[uint64]bool // isolated nodes: no dial from or to them succeeds
}

var vClusterDirs = map[uint64]string{1: vDir, 2: vDirF, 3: "/ghostG"}

func vNewCluster() *vCluster {
	return &vCluster{nodes: map[uint64]*Raft{}, logs: map[uint64]*vAbsLog{}, srv: map[uint64]*server{}, dial: map[uint64]dialFn{}, down: map[uint64]bool{}, cut: map[uint64]bool{}}
}

func (c *vCluster) add(nid uint64, ents []*entry, term, votedFor, commit uint64) *Raft {
	r, a := vClusterNode(vClusterDirs[nid], nid, ents, term, votedFor, commit)
	c.ids = append(c.ids, nid)
	c.nodes[nid], c.logs[nid] = r, a
	return r
}

// wire: every node runs its real accept loop and dials every other through a fresh byte pipe.
func (c *vCluster) wire() {
	for _, id := range c.ids {
		c.srv[id], c.dial[id] = vServe(c.nodes[id])
	}
	for _, id := range c.ids {
		from := id
		c.nodes[id].dialFn = func(network, address string, timeout time.Duration) (net.Conn, error) {
			for _, pid := range c.ids {
				if address == vAddr(int(pid)) && !c.down[pid] && !c.cut[pid] && !c.cut[from] {
					conn, err := c.dial[pid](network, address, timeout)
					if pe, ok := conn.(*vPipeEnd); ok {
						pe.owner, pe.peer.owner = from, pid
					}
					return conn, err
				}
			}
			return nil, vIOError{"dial: connection refused"}
		}
	}
}

// start runs every node's FSM loop and every state loop except main's as goroutines.
func (c *vCluster) start(mainID uint64) {
	for _, id := range c.ids {
		r := c.nodes[id]
		go r.fsm.runLoop()
		if id != mainID {
			go r.stateLoop()
		}
	}
}

func (c *vCluster) closeAll() {
	for _, id := range c.ids {
		c.nodes[id].doClose(ErrServerClosed)
	}
	for _, id := range c.ids {
		c.srv[id].shutdown()
	}
}

//verif:check C01,C02,C05,C17 sched=coop maxsteps=600000 onunwind=violation stubs=rt,timers,valuefile,abslog onblock=violation reach=one-candidate,two-candidates,leader-elected,no-leader,closed,end desc="three real nodes end to end through an election: one or two followers time out at the same moment, become candidates (real startElection, vote requests over real connections, real vote handlers, durable votes), and at the next quiescent point: at most one leader exists in the new term, every node voted at most once in it (durably), a leader was granted by a majority and holds every entry of the newest term that a majority held before the election, the others follow it and their logs equal its log incl. its committed no-op; a sole candidate whose log is at least as up to date as another node's is elected" bounds="3 voters; each log is the 2-entry common prefix, that plus one entry of a newer term, or that plus two entries of an older term (27 combinations); 1 or 2 simultaneous candidates; round-robin goroutine schedule; no further timer fires"
func VH_C01_cluster3_election() { vClusterElection(false) }

//verif:check C01,C05 tier=thorough sched=coop+1 maxsteps=600000 onunwind=violation stubs=rt,timers,valuefile,abslog onblock=violation reach=two-candidates,leader-elected,closed,end desc="two simultaneous candidates among three real nodes with equal logs, under every goroutine schedule that differs from round robin in at most one hand-over: at most one leader per term, votes durable, leader granted by a majority" bounds="3 voters, equal logs of 3 entries, 2 candidates; schedules within 1 deviation from round robin" maxdec=4000
func VH_C01_cluster3_election_sched1() { vClusterElection(true) }

func vClusterElection(fixed bool) {
	cfgE := vClusterConfig().encode()
	cfgE.index, cfgE.term = 1, 1
	e2 := &entry{index: 2, term: 1, typ: entryUpdate, data: vBytes("payload2", 1)}
	e3 := &entry{index: 3, term: 2, typ: entryUpdate, data: vBytes("payload3", 1)}
	o3 := &entry{index: 3, term: 1, typ: entryUpdate, data: vBytes("payload3.old", 1)}
	o4 := &entry{index: 4, term: 1, typ: entryUpdate, data: vBytes("payload4.old", 1)}
	c := vNewCluster()
	init := map[uint64][]*entry{}
	for id := uint64(1); id <= 3; id++ {
		ents := []*entry{cfgE, e2}
		shape := 1
		if !fixed {
			shape = vChoice(3)
		}
		switch shape {
		case 1:
			ents = append(ents, e3) // newer term, shorter
		case 2:
			ents = append(ents, o3, o4) // older term, longer
		}
		init[id] = ents
		c.add(id, ents, 2, 0, 2)
	}
	maxTerm := uint64(0)
	for _, ents := range init {
		if t := ents[len(ents)-1].term; t > maxTerm {
			maxTerm = t
		}
	}
	holds := func(id uint64, e *entry) bool {
		for _, x := range init[id] {
			if x.index == e.index && x.term == e.term {
				return true
			}
		}
		return false
	}
	// upToDate(a, b): a's log is at least as up to date as b's (last term, then last index)
	upToDate := func(a, b uint64) bool {
		la, lb := init[a][len(init[a])-1], init[b][len(init[b])-1]
		return la.term > lb.term || (la.term == lb.term && la.index >= lb.index)
	}
	c.wire()
	c.start(1)
	two := fixed || vChoice(2) == 1
	step := 0
	vSetIdleHook(func() {
		switch step {
		case 0:
			// election timeouts elapse
			vAssert(vFire(c.nodes[1].timer), "timer-1-armed")
			if two {
				vAssert(vFire(c.nodes[2].timer), "timer-2-armed")
				vReach("two-candidates")
			} else {
				vReach("one-candidate")
			}
		case 1:
			leaders := 0
			var ldr *Raft
			for _, id := range c.ids {
				r := c.nodes[id]
				if r.state == Leader && r.term == 3 {
					leaders++
					ldr = r
				}
				vAssert(r.term <= 3, "E-no-term-beyond-the-election")
				dt, dv := vDurableAt(vClusterDirs[id], ".term")
				vAssert(dt == r.term && dv == r.votedFor, "E-term-and-vote-durable")
			}
			vAssert(leaders <= 1, "E-at-most-one-leader-per-term")
			// who voted for whom in term 3
			votes := map[uint64]int{}
			for _, id := range c.ids {
				if r := c.nodes[id]; r.term == 3 && r.votedFor != 0 {
					votes[r.votedFor]++
				}
			}
			if ldr != nil {
				vReach("leader-elected")
				vAssert(votes[ldr.nid] >= 2, "E-leader-was-granted-by-a-majority")
				for _, id := range c.ids {
					for _, e := range init[id] {
						n := 0
						for _, other := range c.ids {
							if holds(other, e) {
								n++
							}
						}
						// an entry of the newest term present anywhere, stored on a majority, is committed in every
						// continuation (an older-term entry on a majority is not: Raft's figure-8 case)
						vAssert(n < 2 || e.term < maxTerm || holds(ldr.nid, e), "E-leader-holds-every-newest-term-entry-a-majority-held")
					}
				}
				la := c.logs[ldr.nid]
				for _, id := range c.ids {
					r := c.nodes[id]
					if r == ldr {
						continue
					}
					vAssert(r.state != Leader, "E-others-do-not-lead")
					vAssert(r.term == 3 && r.leader == ldr.nid && r.state == Follower, "E-others-follow-the-leader")
					vAssert(r.lastLogIndex == ldr.lastLogIndex && vLogsEqual(la, c.logs[id], ldr.lastLogIndex), "E-logs-converge-on-the-leaders")
					vAssert(r.commitIndex == ldr.lastLogIndex, "E-no-op-committed-everywhere")
				}
				vAssert(ldr.commitIndex == ldr.lastLogIndex, "E-leader-committed-its-no-op")
			} else {
				vReach("no-leader")
				// a sole candidate at least as up to date as some other node must have won
				vAssert(two || (!upToDate(1, 2) && !upToDate(1, 3)), "E-sole-up-to-date-candidate-is-elected")
			}
			c.closeAll()
		}
		step++
	})
	c.nodes[1].stateLoop()
	vReach("closed")
	vAssert(step >= 2, "script-completed")
	vReach("end")
}

//verif:check C16,C01,C15 sched=coop maxsteps=800000 onunwind=violation stubs=rt,timers,valuefile,abslog onblock=violation reach=transfer-submitted,transferred,closed,end desc="three real nodes end to end through a leadership transfer: the leader (real state loop, replications caught up) gets a TransferLeadership task for a named or any target; timeout-now travels over a real connection, the target campaigns with the transfer permission, the old leader and the third node vote through their real handlers. At the next quiescent point the task has completed with success, the old leader is a follower in a higher term, exactly one node leads that term and it is a voter holding every entry the old leader had accepted, and all logs have converged" bounds="3 voters, logs of 3 entries; target node 2 or any; round-robin goroutine schedule; no timer fires"
func VH_C16_cluster3_transfer() {
	cfgE := vClusterConfig().encode()
	cfgE.index, cfgE.term = 1, 1
	e2 := &entry{index: 2, term: 1, typ: entryUpdate, data: vBytes("payload2", 1)}
	e3 := &entry{index: 3, term: 2, typ: entryUpdate, data: vBytes("payload3", 1)}
	c := vNewCluster()
	for id := uint64(1); id <= 3; id++ {
		c.add(id, []*entry{cfgE, e2, e3}, 3, 1, 2)
	}
	L := c.nodes[1]
	L.state, L.leader = Leader, 1
	c.wire()
	c.start(1)
	tr := transferLdr{task: newTask(), timeout: 1000}
	if vChoice(2) == 1 {
		tr.target = 2
	}
	step := 0
	var accepted uint64
	vSetIdleHook(func() {
		switch step {
		case 0:
			vAssert(L.state == Leader && L.commitIndex == 4 && L.ldr.repls[2].status.matchIndex == 4 && L.ldr.repls[3].status.matchIndex == 4, "T-cluster-settled-before-transfer")
			accepted = L.lastLogIndex
			vOffer(L.taskCh, tr)
			vReach("transfer-submitted")
		case 1:
			vAssert(isClosed(tr.Done()), "T-transfer-task-completed")
			vAssert(tr.Err() == nil, "T-transfer-succeeded")
			vAssert(L.state == Follower && L.term > 3, "T-success-only-after-old-leader-stepped-down-to-a-higher-term")
			leaders := 0
			var nl *Raft
			for _, id := range c.ids {
				if r := c.nodes[id]; r.state == Leader {
					leaders++
					nl = r
				}
			}
			vAssert(leaders == 1 && nl != L, "T-exactly-one-new-leader")
			if nl != nil {
				vReach("transferred")
				vAssert(tr.target == 0 || nl.nid == tr.target, "T-named-target-leads")
				vAssert(nl.configs.Latest.isVoter(nl.nid), "T-successor-is-a-voter")
				vAssert(nl.term == L.term && L.leader == nl.nid, "T-old-leader-follows-the-successor")
				vAssert(nl.lastLogIndex > accepted && vLogsEqual(c.logs[1], c.logs[nl.nid], accepted), "T-successor-holds-everything-the-old-leader-accepted")
				for _, id := range c.ids {
					r := c.nodes[id]
					vAssert(r.lastLogIndex == nl.lastLogIndex && vLogsEqual(c.logs[nl.nid], c.logs[id], nl.lastLogIndex), "T-logs-converge")
				}
			}
			c.closeAll()
		}
		step++
	})
	L.stateLoop()
	vReach("closed")
	vAssert(step >= 2, "script-completed")
	vReach("end")
}

// vVotersOf: the voter set of a configuration as a bitmask of node ids.
func vVotersOf(c Config) uint64 {
	var m uint64
	for id, n := range c.Nodes {
		if n.Voter {
			m |= 1 << id
		}
	}
	return m
}

func vPopcount(m uint64) int {
	n := 0
	for ; m != 0; m &= m - 1 {
		n++
	}
	return n
}

//verif:check C08,C11,C17,C04 sched=coop maxsteps=1500000 onunwind=violation stubs=rt,timers,valuefile,abslog onblock=violation reach=change-submitted,promoted,closed,end desc="four real nodes end to end through a membership change: a settled 3-voter cluster gets a ChangeConfig task adding node 4 as a non-voter to be promoted; node 4 (a real, empty, un-bootstrapped node) is caught up by a real replication, its round completes, the leader promotes it. At the next quiescent point the task has completed, every configuration entry in the leader's log differs from its predecessor by at most one voter and retains a voter, each was appended only after the previous one was committed, node 4 is a voter of the committed, stable latest configuration on every node, and all four logs are equal" bounds="3 voters + 1 joining node; logs of 3 entries; round-robin goroutine schedule; no timer fires; promotion threshold larger than any measured round"
func VH_C08_cluster4_add_promote() {
	cfgE := vClusterConfig().encode()
	cfgE.index, cfgE.term = 1, 1
	e2 := &entry{index: 2, term: 1, typ: entryUpdate, data: vBytes("payload2", 1)}
	e3 := &entry{index: 3, term: 2, typ: entryUpdate, data: vBytes("payload3", 1)}
	c := vNewCluster()
	vClusterDirs[4] = "/ghostH"
	for id := uint64(1); id <= 3; id++ {
		c.add(id, []*entry{cfgE, e2, e3}, 3, 1, 2)
	}
	N := c.add(4, nil, 0, 0, 0)
	L := c.nodes[1]
	L.state, L.leader = Leader, 1
	L.promoteThreshold = 1 << 62
	c.wire()
	c.start(1)
	nc := vClusterConfig()
	nc.Nodes[4] = Node{ID: 4, Addr: vAddr(4), Action: Promote}
	t := changeConfig{task: newTask(), newConf: nc}
	step := 0
	vSetIdleHook(func() {
		switch step {
		case 0:
			vAssert(L.state == Leader && L.commitIndex == 4, "M-cluster-settled")
			t.newConf.Index, t.newConf.Term = L.configs.Latest.Index, L.configs.Latest.Term
			vOffer(L.taskCh, t)
			vReach("change-submitted")
		case 1:
			vAssert(isClosed(t.Done()) && t.Err() == nil, "M-change-task-completed")
			vAssert(L.state == Leader, "M-leader-kept-leading")
			// walk the configuration entries of the leader's log
			la := c.logs[1]
			prev := vClusterConfig()
			nconf := 0
			for k, b := range la.ents {
				e := &entry{}
				if err := e.decode(bytes.NewReader(b)); err != nil {
					panic(err)
				}
				if e.typ != entryConfig || k == 0 {
					continue
				}
				var cf Config
				if err := cf.decode(e); err != nil {
					panic(err)
				}
				nconf++
				diff := vVotersOf(prev) ^ vVotersOf(cf)
				vAssert(vPopcount(diff) <= 1, "M-configurations-differ-by-at-most-one-voter")
				vAssert(cf.numVoters() >= 1, "M-configuration-retains-a-voter")
				prev = cf
			}
			vAssert(nconf == 2, "M-one-entry-to-add-one-to-promote")
			vAssert(L.configs.IsCommitted() && L.configs.IsStable(), "M-latest-configuration-committed-and-stable")
			n4, ok := L.configs.Latest.Nodes[4]
			vAssert(ok && n4.Voter && n4.Action == None, "M-node-4-is-a-voter-now")
			if ok && n4.Voter {
				vReach("promoted")
			}
			for _, id := range c.ids {
				r := c.nodes[id]
				vAssert(r.lastLogIndex == L.lastLogIndex && vLogsEqual(la, c.logs[id], L.lastLogIndex), "M-logs-converge")
				vAssert(r.configs.Latest.Index == L.configs.Latest.Index && r.configs.Latest.isVoter(4), "M-every-node-adopted-the-final-configuration")
				vAssert(r.commitIndex == L.commitIndex, "M-commit-index-converges")
			}
			vAssert(N.state == Follower && N.term == L.term, "M-joining-node-follows")
			c.closeAll()
		}
		step++
	})
	L.stateLoop()
	vReach("closed")
	vAssert(step >= 2, "script-completed")
	vReach("end")
}

//verif:check C18,C19,C07 sched=coop maxsteps=800000 onunwind=violation stubs=rt,timers,valuefile,abslog onblock=violation reach=clients-started,answers,closed,end desc="the admin client protocol end to end on two real nodes: the real Client (GetInfo, ChangeConfig, WaitForStableConfig) talks over byte pipes to the real server.handleConn/handleTask, the tasks run in the real state loops and their responses travel back through encodeTaskResp/decodeTaskResp: the status report a client receives equals the node's state field by field and satisfies the ordering relations; a configuration change sent to a follower comes back as a NotLeaderError naming the leader and its address with Lost=false, recognisable by type; WaitForStableConfig on the leader returns its committed configuration" bounds="leader + follower (third voter down), logs of 3 entries + no-op, 1-byte symbolic payloads; three client calls; round-robin goroutine schedule"
func VH_C18_cluster2_client() {
	cfgE := vClusterConfig().encode()
	cfgE.index, cfgE.term = 1, 1
	e2 := &entry{index: 2, term: 1, typ: entryUpdate, data: vBytes("payload2", 1)}
	e3 := &entry{index: 3, term: 2, typ: entryUpdate, data: vBytes("payload3", 1)}
	c := vNewCluster()
	c.add(1, []*entry{cfgE, e2, e3}, 3, 1, 2)
	c.add(2, []*entry{cfgE, e2, e3}, 3, 1, 2)
	L, F := c.nodes[1], c.nodes[2]
	L.state, L.leader = Leader, 1
	c.wire()
	c.start(1)
	dialTo := func(id uint64) dialFn { return c.dial[id] }
	var (
		infoL, infoF       Info
		errIL, errIF, errC error
		stable             Config
		errS               error
		done               int
	)
	step := 0
	vSetIdleHook(func() {
		switch step {
		case 0:
			vAssert(L.commitIndex == 4 && F.commitIndex == 4, "P-cluster-settled")
			cl, cf := &Client{vAddr(1), dialTo(1)}, &Client{vAddr(2), dialTo(2)}
			go func() { infoL, errIL = cl.GetInfo(); done++ }()
			go func() { infoF, errIF = cf.GetInfo(); done++ }()
			go func() {
				nc := vClusterConfig()
				nc.Index, nc.Term = 1, 1
				nc.Nodes[4] = Node{ID: 4, Addr: vAddr(4)}
				errC = cf.ChangeConfig(nc)
				done++
			}()
			go func() { stable, errS = cl.WaitForStableConfig(); done++ }()
			vReach("clients-started")
		case 1:
			vAssert(done == 4, "P-every-client-call-returned")
			vReach("answers")
			for _, x := range []struct {
				inf Info
				err error
				r   *Raft
			}{{infoL, errIL, L}, {infoF, errIF, F}} {
				inf, r := x.inf, x.r
				vAssert(x.err == nil, "P-getinfo-succeeds")
				vAssert(inf.CID == r.cid && inf.NID == r.nid && inf.Term == r.term && inf.State == r.state && inf.Leader == r.leader, "P-report-identity-term-role-as-on-the-node")
				vAssert(inf.Committed == r.commitIndex && inf.LastLogIndex == r.lastLogIndex && inf.LastLogTerm == r.lastLogTerm && inf.LastApplied == r.fsm.index, "P-report-indexes-as-on-the-node")
				vAssert(inf.SnapshotIndex == r.snaps.index && inf.FirstLogIndex == 1, "P-report-snapshot-and-first-index-as-on-the-node")
				vAssert(inf.Configs.Latest.Index == r.configs.Latest.Index && inf.Configs.Committed.Index == r.configs.Committed.Index && len(inf.Configs.Latest.Nodes) == 3, "P-report-configurations-as-on-the-node")
				vAssert(inf.LastApplied <= inf.Committed && inf.Committed <= inf.LastLogIndex && inf.FirstLogIndex-1 <= inf.SnapshotIndex && inf.SnapshotIndex <= inf.LastLogIndex, "P-report-ordering-relations")
			}
			vAssert(len(infoL.Followers) == 2 && infoL.Followers[2].MatchIndex == 4, "P-leader-report-lists-followers")
			nle, ok := errC.(NotLeaderError)
			vAssert(ok, "P-follower-rejects-change-with-not-leader-error")
			if ok {
				vAssert(nle.Leader.ID == 1 && nle.Leader.Addr == vAddr(1) && !nle.Lost, "P-not-leader-error-names-the-leader")
			}
			vAssert(F.configs.Latest.Index == 1 && L.configs.Latest.Index == 1, "P-rejected-change-takes-no-effect")
			vAssert(errS == nil && stable.Index == 1 && len(stable.Nodes) == 3, "P-wait-for-stable-returns-the-committed-configuration")
			c.closeAll()
		}
		step++
	})
	L.stateLoop()
	vReach("closed")
	vAssert(step >= 2, "script-completed")
	vReach("end")
}

//verif:check C09,C03,C12,C04,C17 sched=coop maxsteps=1000000 onunwind=violation stubs=rt,timers,valuefile,abslog,snapfs onblock=violation reach=installed,by-entries,transfer-failed-retry,client-update-done,closed,end desc="two real nodes end to end through a snapshot installation: the leader has snapshotted and compacted its log up to index 3; a follower that lacks compacted entries (empty log, or only the first entry) cannot be served from the log, so the real replication falls back to sendInstallSnapReq and the follower's real onInstallSnapRequest stores the snapshot, resets its log and restores its state machine; a follower that has everything is served by entries. At quiescence the follower's snapshot label (index, term, configuration) equals the leader's, its log continues at the leader's entries byte for byte, commit indexes agree, the state machine was restored exactly once (or not at all), and a client update then commits and applies on both" bounds="3-voter configuration with one voter down; leader log compacted at a snapshot at index 3 (abstract payload of 10 bytes) + its no-op; 3 follower log shapes; the first snapshot transfer may fail at any byte count (the replication then backs off and retries); round-robin goroutine schedule"
func VH_C09_cluster2_install() {
	cfgE := vClusterConfig().encode()
	cfgE.index, cfgE.term = 1, 1
	e2 := &entry{index: 2, term: 1, typ: entryUpdate, data: vBytes("payload2", 1)}
	e3 := &entry{index: 3, term: 2, typ: entryUpdate, data: vBytes("payload3", 1)}
	c := vNewCluster()
	L := c.add(1, []*entry{cfgE, e2, e3}, 3, 1, 3)
	L.state, L.leader = Leader, 1
	L.quorumWait = time.Hour // a leader that loses contact with its only live follower waits instead of stepping down at once
	la := c.logs[1]
	vPublishSnapshot(L, 3, 2, vClusterConfig(), 10)
	la.prev = 3 // compacted up to the snapshot
	var fents []*entry
	fcommit := uint64(0)
	shape := vChoice(3)
	switch shape {
	case 1:
		fents, fcommit = []*entry{cfgE}, 1
	case 2:
		fents, fcommit = []*entry{cfgE, e2, e3}, 2
	}
	F := c.add(2, fents, 2, 0, fcommit)
	fa := c.logs[2]
	lfsm, ffsm := L.fsm.FSM.(*vFSM), F.fsm.FSM.(*vFSM)
	c.down[3] = true
	c.wire()
	c.start(1)
	ne := &newEntry{task: newTask(), entry: &entry{typ: entryUpdate, data: vBytes("client.cmd", 1)}}
	step, retried := 0, false
	vCopyFailBudget = 1
	tail := func(f *vFSM, n int) [][]byte {
		if len(f.updates) < n {
			return nil
		}
		return f.updates[len(f.updates)-n:]
	}
	vSetIdleHook(func() {
		switch step {
		case 0:
			if repl := L.ldr.repls[2]; repl.status.matchIndex != 4 && !retried {
				// the snapshot transfer failed: the replication is backing off; its timer elapses and it tries again
				retried = true
				vReach("transfer-failed-retry")
				vAssert(F.snaps.index == 0 && fa.prev == 0, "I-failed-transfer-leaves-the-follower-untouched")
				vAssert(vFire(repl.timer), "I-replication-backs-off-on-a-timer")
				return
			}
			vAssert(L.state == Leader && L.lastLogIndex == 4 && L.commitIndex == 4, "I-leader-settled")
			vAssert(L.ldr.repls[2].status.matchIndex == 4, "I-follower-caught-up")
			vAssert(F.lastLogIndex == 4 && F.commitIndex == 4 && F.term == 3, "I-follower-has-the-leaders-last-entry-committed")
			vAssert(bytes.Equal(la.ents[3], fa.ents[len(fa.ents)-1]) && fa.last() == 4, "I-follower-log-continues-with-the-leaders-entries")
			if shape == 2 {
				vReach("by-entries")
				vAssert(F.snaps.index == 0 && ffsm.restored == 0, "I-no-snapshot-needed-when-the-log-suffices")
			} else {
				vReach("installed")
				vAssert(F.snaps.index == 3 && F.snaps.term == 2, "I-follower-snapshot-label-equals-leaders")
				m, err := F.snaps.meta()
				vAssert(err == nil && m.index == 3 && m.term == 2 && m.size == 10 && len(m.config.Nodes) == 3 && m.config.Index == 1, "I-stored-label-carries-index-term-size-configuration")
				vAssert(fa.prev == 3, "I-follower-log-restarts-at-the-snapshot")
				vAssert(ffsm.restored == 1 && F.fsm.index == 4, "I-state-machine-restored-exactly-once")
				vAssert(F.configs.Latest.Index == 1 && len(F.configs.Latest.Nodes) == 3, "I-follower-adopted-the-label-configuration")
			}
			vOffer(L.newEntryCh, ne)
		case 1:
			vReach("client-update-done")
			vAssert(isClosed(ne.Done()) && ne.Err() == nil, "I-client-update-completed")
			vAssert(L.commitIndex == 5 && F.commitIndex == 5, "I-client-update-committed-on-both")
			a, b := tail(lfsm, 1), tail(ffsm, 1)
			vAssert(len(a) == 1 && len(b) == 1 && bytes.Equal(a[0], b[0]), "I-client-update-applied-on-both")
			c.closeAll()
		}
		step++
	})
	L.stateLoop()
	vReach("closed")
	vAssert(step >= 2, "script-completed")
	vReach("end")
}

//verif:check C04,C17 tier=thorough sched=coop+1 maxsteps=400000 onunwind=violation stubs=rt,timers,valuefile,abslog onblock=violation reach=caught-up,client-update-done,closed,end desc="as VH_C04_cluster2_catchup under every goroutine schedule that differs from round robin in at most one hand-over" bounds="as VH_C04_cluster2_catchup; schedules within 1 deviation from round robin" maxdec=4000
func VH_C04_cluster2_catchup_sched1() { VH_C04_cluster2_catchup() }

// isolate cuts node id off: its open connections are closed at both ends and no dial from or to it succeeds until heal.
func (c *vCluster) isolate(id uint64) {
	c.cut[id] = true
	for _, pe := range vPipes {
		if pe.owner == id || pe.peer.owner == id {
			_ = pe.Close()
		}
	}
}

func (c *vCluster) heal(id uint64) { c.cut[id] = false }

//verif:check C17,C02,C04,C07,C01 sched=coop maxsteps=2000000 onunwind=violation stubs=rt,timers,valuefile,abslog onblock=violation reach=isolated,new-leader,healed,closed,end desc="three real nodes through a partition and its repair: the leader is cut off, accepts a client update it cannot commit, another node times out and is elected by the remaining majority and commits its no-op; after the network heals the old leader hears from the new one, steps down, loses its uncommitted entry and fails the client task with a not-leader error flagged as lost; at the end exactly one leader, equal logs, equal commit indexes, the lost update was applied by no state machine and the committed history of before the partition is intact everywhere" bounds="3 voters, logs of 3 entries; one partition of the leader, one election timeout, one repair; quorum wait long enough for the stale leader to keep its role; round-robin goroutine schedule"
func VH_C17_cluster3_partition_heal() {
	cfgE := vClusterConfig().encode()
	cfgE.index, cfgE.term = 1, 1
	e2 := &entry{index: 2, term: 1, typ: entryUpdate, data: vBytes("payload2", 1)}
	e3 := &entry{index: 3, term: 2, typ: entryUpdate, data: vBytes("payload3", 1)}
	c := vNewCluster()
	for id := uint64(1); id <= 3; id++ {
		r := c.add(id, []*entry{cfgE, e2, e3}, 3, 1, 2)
		r.quorumWait = time.Hour
	}
	L := c.nodes[1]
	L.state, L.leader = Leader, 1
	c.wire()
	c.start(1)
	lost := &newEntry{task: newTask(), entry: &entry{typ: entryUpdate, data: vBytes("lost.cmd", 1)}}
	step := 0
	vSetIdleHook(func() {
		switch step {
		case 0:
			vAssert(L.state == Leader && L.commitIndex == 4 && c.nodes[2].commitIndex == 4 && c.nodes[3].commitIndex == 4, "H-settled")
			c.isolate(1)
			vOffer(L.newEntryCh, lost)
			vReach("isolated")
		case 1:
			vAssert(L.state == Leader && L.lastLogIndex == 5 && L.commitIndex == 4, "H-isolated-leader-accepts-but-cannot-commit")
			vAssert(!isClosed(lost.Done()), "H-uncommitted-update-is-not-answered")
			vAssert(vFire(c.nodes[2].timer), "H-follower-election-timer-armed")
		case 2:
			N := c.nodes[2]
			vAssert(N.state == Leader && N.term == 4, "H-majority-side-elects-a-leader")
			vAssert(N.commitIndex == 5 && c.nodes[3].commitIndex == 5, "H-new-leader-commits-its-no-op-with-the-majority")
			vAssert(L.state == Leader && L.term == 3, "H-stale-leader-still-isolated")
			vReach("new-leader")
			c.heal(1)
			// the new leader's replication for node 1 is backing off: its timer elapses
			vAssert(vFire(N.ldr.repls[1].timer), "H-replication-to-the-isolated-node-is-backing-off")
			vReach("healed")
		case 3:
			N := c.nodes[2]
			vAssert(L.state == Follower && L.term == 4 && L.leader == 2, "H-old-leader-steps-down-and-follows")
			vAssert(isClosed(lost.Done()), "H-lost-update-task-completes")
			nle, ok := lost.Err().(NotLeaderError)
			vAssert(ok && nle.Lost, "H-lost-update-fails-as-not-leader-with-lost-flag")
			leaders := 0
			for _, id := range c.ids {
				r := c.nodes[id]
				if r.state == Leader {
					leaders++
				}
				vAssert(r.lastLogIndex == N.lastLogIndex && vLogsEqual(c.logs[2], c.logs[id], N.lastLogIndex), "H-logs-converge")
				vAssert(r.commitIndex == N.commitIndex, "H-commit-indexes-converge")
				f := r.fsm.FSM.(*vFSM)
				vAssert(len(f.updates) == 2 && bytes.Equal(f.updates[0], e2.data) && bytes.Equal(f.updates[1], e3.data), "H-lost-update-applied-nowhere-and-history-intact")
			}
			vAssert(leaders == 1, "H-exactly-one-leader")
			vAssert(bytes.Equal(c.logs[1].ents[1], vEncodeEntry(e2)) && bytes.Equal(c.logs[1].ents[2], vEncodeEntry(e3)), "H-committed-prefix-untouched")
			c.closeAll()
		}
		step++
	})
	L.stateLoop()
	vReach("closed")
	vAssert(step >= 4, "script-completed")
	vReach("end")
}

//verif:check C07,C03 sched=coop maxsteps=1000000 onunwind=violation stubs=rt,timers,valuefile,abslog onblock=violation reach=submitted,answered,closed,end desc="client-visible semantics end to end on two real nodes with the real batching goroutine (runBatch): one client pipelines update, read, update, barrier, read to the leader without waiting; another sends an update and a dirty read to the follower. Every task completes; the updates took effect exactly once at consecutive positions in submission order with the position reported; each read reflects exactly the updates accepted before it; the follower rejects the update with a not-leader error naming the leader (not lost) and it takes effect nowhere; the dirty read exposes only committed updates; both state machines end with the same command sequence" bounds="leader + follower (third voter down); 5 pipelined tasks + 2 tasks at the follower; 1-byte symbolic commands; round-robin goroutine schedule"
func VH_C07_cluster2_client_ops() {
	cfgE := vClusterConfig().encode()
	cfgE.index, cfgE.term = 1, 1
	e2 := &entry{index: 2, term: 1, typ: entryUpdate, data: vBytes("payload2", 1)}
	e3 := &entry{index: 3, term: 2, typ: entryUpdate, data: vBytes("payload3", 1)}
	c := vNewCluster()
	c.add(1, []*entry{cfgE, e2, e3}, 3, 1, 2)
	c.add(2, []*entry{cfgE, e2, e3}, 3, 1, 2)
	L, F := c.nodes[1], c.nodes[2]
	L.state, L.leader = Leader, 1
	c.wire()
	c.start(1)
	go L.runBatch()
	go F.runBatch()
	cmd1, cmd2, cmdF := vBytes("cmd1", 1), vBytes("cmd2", 1), vBytes("cmdF", 1)
	u1, r1, u2, b, r2 := UpdateFSM(cmd1), ReadFSM("q"), UpdateFSM(cmd2), BarrierFSM(), ReadFSM("q")
	uf, df := UpdateFSM(cmdF), DirtyReadFSM("q")
	lfsm, ffsm := L.fsm.FSM.(*vFSM), F.fsm.FSM.(*vFSM)
	step := 0
	vSetIdleHook(func() {
		switch step {
		case 0:
			vAssert(L.commitIndex == 4 && F.commitIndex == 4, "O-settled")
			go func() {
				for _, t := range []FSMTask{u1, r1, u2, b, r2} {
					L.FSMTasks() <- t
				}
			}()
			go func() {
				F.FSMTasks() <- uf
				F.FSMTasks() <- df
			}()
			vReach("submitted")
		case 1:
			for _, t := range []FSMTask{u1, r1, u2, b, r2, uf, df} {
				vAssert(isClosed(t.Done()), "O-every-task-completes")
			}
			vReach("answered")
			vAssert(u1.Err() == nil && u1.Result() == 3, "O-first-update-third-command")
			vAssert(r1.Err() == nil && r1.Result() == 3, "O-read-reflects-exactly-the-updates-accepted-before-it")
			vAssert(u2.Err() == nil && u2.Result() == 4, "O-second-update-follows-the-first")
			vAssert(b.Err() == nil, "O-barrier-completes")
			vAssert(r2.Err() == nil && r2.Result() == 4, "O-second-read-reflects-both-updates")
			nle, ok := uf.Err().(NotLeaderError)
			vAssert(ok && nle.Leader.ID == 1 && !nle.Lost, "O-follower-rejects-update-definitively-naming-the-leader")
			vAssert(df.Err() == nil, "O-dirty-read-served-by-follower")
			if n, ok := df.Result().(int); ok {
				vAssert(n >= 2 && n <= 4, "O-dirty-read-exposes-only-committed-updates")
			} else {
				vAssert(false, "O-dirty-read-result-type")
			}
			vAssert(len(lfsm.updates) == 4 && bytes.Equal(lfsm.updates[2], cmd1) && bytes.Equal(lfsm.updates[3], cmd2), "O-updates-applied-once-in-submission-order")
			vAssert(vSameUpdates(lfsm, ffsm), "O-rejected-update-applied-nowhere-and-machines-agree")
			vAssert(L.lastLogIndex == 6 && L.commitIndex == 6 && F.commitIndex == 6, "O-only-updates-enter-the-log")
			c.closeAll()
		}
		step++
	})
	L.stateLoop()
	vReach("closed")
	vAssert(step >= 2, "script-completed")
	vReach("end")
}

//verif:check C07,C15 sched=coop stubs=rt,timers,valuefile,abslog onblock=violation reach=batched,second-batch,closed,end desc="the real batching goroutine (Raft.runBatch) between clients and the state loop: tasks submitted while the state loop is busy are handed over as one chain in submission order, each exactly once and nil-terminated; a later task starts a new chain; on shutdown a pending chain is still handed over and the channel is closed" bounds="3 tasks in the first batch, 1 in the second, 1 pending at shutdown; symbolic task kinds"
func VH_C07_runBatch_order() {
	r := vLoopNode(Leader)
	go r.runBatch()
	var ts []*newEntry
	for i := 0; i < 5; i++ {
		typ := entryType(vU8("kind"))
		vAssume(typ == entryUpdate || typ == entryRead || typ == entryBarrier || typ == entryDirtyRead)
		ts = append(ts, &newEntry{task: newTask(), entry: &entry{typ: typ}})
	}
	for _, t := range ts[:3] {
		r.FSMTasks() <- t // the state loop is busy: nobody receives the batch yet
	}
	head := <-r.newEntryCh
	vReach("batched")
	vAssert(head == ts[0] && head.next == ts[1] && ts[1].next == ts[2] && ts[2].next == nil, "B-batch-is-the-submission-order-chain")
	r.FSMTasks() <- ts[3]
	second := <-r.newEntryCh
	vReach("second-batch")
	vAssert(second == ts[3] && second.next == nil, "B-next-task-starts-a-fresh-chain")
	r.FSMTasks() <- ts[4]
	r.doClose(ErrServerClosed)
	last, ok := <-r.newEntryCh
	vAssert(ok && last == ts[4] && last.next == nil, "B-pending-chain-handed-over-at-shutdown")
	_, ok = <-r.newEntryCh
	vAssert(!ok, "B-channel-closed-after-shutdown")
	vReach("closed")
	vReach("end")
}

//verif:check C11,C08,C17 sched=coop maxsteps=2500000 onunwind=violation stubs=rt,timers,valuefile,abslog onblock=violation reach=removal-submitted,leader-stepped-down,new-leader-removes,closed,end desc="three real nodes end to end through the removal of the leader: a ChangeConfig task marks the leader for removal; it appends the configuration without itself, keeps leading only until that commits, then steps down and shuts itself down with the node-removed error (not before the commit); the remaining voters have adopted and stored the two-voter configuration; after an election timeout one of them is elected by the other and leads without a replication to the removed node. Every configuration in the log differs from its predecessor by at most one voter and keeps a voter; the survivors end with the committed stable two-voter configuration and equal logs" bounds="3 voters, logs of 3 entries; one election timeout; ShutdownOnRemove on; round-robin goroutine schedule"
func VH_C11_cluster3_remove_leader() {
	cfgE := vClusterConfig().encode()
	cfgE.index, cfgE.term = 1, 1
	e2 := &entry{index: 2, term: 1, typ: entryUpdate, data: vBytes("payload2", 1)}
	e3 := &entry{index: 3, term: 2, typ: entryUpdate, data: vBytes("payload3", 1)}
	c := vNewCluster()
	for id := uint64(1); id <= 3; id++ {
		r := c.add(id, []*entry{cfgE, e2, e3}, 3, 1, 2)
		r.shutdownOnRemove = true
	}
	L, N := c.nodes[1], c.nodes[2]
	L.state, L.leader = Leader, 1
	c.wire()
	c.start(2) // node 2's loop runs on the main goroutine; node 1 (the leader to be removed) on its own
	nc := vClusterConfig()
	n1 := nc.Nodes[1]
	n1.Action = Remove
	nc.Nodes[1] = n1
	t := changeConfig{task: newTask(), newConf: nc}
	step := 0
	var removedAt uint64
	vSetIdleHook(func() {
		switch step {
		case 0:
			vAssert(L.state == Leader && L.commitIndex == 4, "X-settled")
			t.newConf.Index, t.newConf.Term = L.configs.Latest.Index, L.configs.Latest.Term
			vOffer(L.taskCh, t)
			vReach("removal-submitted")
		case 1:
			vAssert(isClosed(t.Done()) && t.Err() == nil, "X-change-task-completed")
			_, still := L.configs.Latest.Nodes[1]
			vAssert(!still && L.configs.IsCommitted(), "X-leader-removed-itself-and-that-committed")
			vAssert(L.state == Follower && L.leader == 0, "X-removed-leader-stops-leading-once-that-commits")
			vAssert(L.isClosed() && L.closeReason == ErrNodeRemoved, "X-removed-node-shut-itself-down-after-the-commit")
			removedAt = L.configs.Latest.Index
			vAssert(L.commitIndex >= removedAt, "X-shutdown-only-after-its-removal-committed-on-it")
			for _, id := range []uint64{2, 3} {
				r := c.nodes[id]
				vAssert(r.state == Follower && r.configs.Latest.Index == removedAt && r.configs.Latest.numVoters() == 2, "X-voters-adopted-the-removal")
				vAssert(r.lastLogIndex >= removedAt, "X-removal-is-stored-on-the-remaining-voters")
			}
			vReach("leader-stepped-down")
			vAssert(vFire(N.timer), "X-voter-timer-armed")
		case 2:
			vAssert(N.state == Leader && N.term == 4, "X-remaining-voter-elected")
			vReach("new-leader-removes")
			_, still := N.configs.Latest.Nodes[1]
			vAssert(!still && N.configs.IsCommitted() && N.configs.IsStable() && N.configs.Latest.numVoters() == 2, "X-survivors-run-the-two-voter-configuration")
			vAssert(len(N.ldr.repls) == 1, "X-no-replication-to-the-removed-node")
			// configuration chain in the new leader's log
			prev := vClusterConfig()
			for k, b := range c.logs[2].ents {
				e := &entry{}
				if err := e.decode(bytes.NewReader(b)); err != nil {
					panic(err)
				}
				if e.typ != entryConfig || k == 0 {
					continue
				}
				var cf Config
				if err := cf.decode(e); err != nil {
					panic(err)
				}
				vAssert(vPopcount(vVotersOf(prev)^vVotersOf(cf)) <= 1 && cf.numVoters() >= 1, "X-configurations-differ-by-at-most-one-voter")
				prev = cf
			}
			vAssert(c.nodes[3].lastLogIndex == N.lastLogIndex && vLogsEqual(c.logs[2], c.logs[3], N.lastLogIndex) && c.nodes[3].commitIndex == N.commitIndex, "X-survivors-converge")
			c.closeAll()
		}
		step++
	})
	N.stateLoop()
	vReach("closed")
	vAssert(step >= 3, "script-completed")
	vReach("end")
}

//verif:check C10,C03,C06,C17 sched=coop maxsteps=2000000 onunwind=violation stubs=rt,timers,valuefile,abslog,snapfs,restart onblock=violation reach=update-committed,crashed,restarted,rejoined,closed,end desc="two real nodes end to end through a crash and restart of the follower: after a client update is committed on both, the follower process dies (its connections drop, its goroutines never run again); a new node is started on the same storage directory through the real raft.New/openStorage (what survived: the renamed term file and any log prefix that includes everything flushed); the leader's replication backs off, reconnects and catches it up. At the next quiescent point the restarted node has a term and vote no older than acknowledged, retains every entry it had acknowledged, its log equals the leader's, and its new state machine was fed exactly the committed updates, once, in order" bounds="leader + follower (third voter down); logs of 3 entries + no-op + 1 client update; the unflushed tail kept across the crash is any allowed prefix; round-robin goroutine schedule"
func VH_C10_cluster2_follower_restart() {
	cfgE := vClusterConfig().encode()
	cfgE.index, cfgE.term = 1, 1
	e2 := &entry{index: 2, term: 1, typ: entryUpdate, data: vBytes("payload2", 1)}
	e3 := &entry{index: 3, term: 2, typ: entryUpdate, data: vBytes("payload3", 1)}
	c := vNewCluster()
	L := c.add(1, []*entry{cfgE, e2, e3}, 3, 1, 2)
	F := c.add(2, []*entry{cfgE, e2, e3}, 3, 1, 2)
	L.state, L.leader = Leader, 1
	L.quorumWait = time.Hour
	vDiskInitAt(vDirF, ".id", 7, 2)
	c.wire()
	c.start(1)
	ne := &newEntry{task: newTask(), entry: &entry{typ: entryUpdate, data: vBytes("client.cmd", 1)}}
	lfsm := L.fsm.FSM.(*vFSM)
	var F2 *Raft
	var f2fsm *vFSM
	var ackTerm, ackLast uint64
	step := 0
	vSetIdleHook(func() {
		switch step {
		case 0:
			vAssert(L.commitIndex == 4 && F.commitIndex == 4, "Y-settled")
			vOffer(L.newEntryCh, ne)
		case 1:
			vAssert(isClosed(ne.Done()) && ne.Err() == nil && L.commitIndex == 5 && F.commitIndex == 5, "Y-update-committed-on-both")
			vReach("update-committed")
			// the follower process dies
			ackTerm, ackLast = F.term, L.ldr.repls[2].status.matchIndex
			c.isolate(2) // (the dead process's goroutines stay parked for ever: nothing reaches them any more)
			vCrashedLogs[vDirF+"/log"] = c.logs[2]
			vReach("crashed")
			// ... and is started again on the same directory
			f2fsm = &vFSM{}
			opt := DefaultOptions()
			opt.Logger = nil
			r2, err := New(opt, f2fsm, vDirF)
			vAssert(err == nil && r2 != nil, "Y-restart-opens")
			if err != nil {
				vStop()
			}
			F2 = r2
			vAssert(F2.cid == 7 && F2.nid == 2, "Y-identity-survives")
			vAssert(F2.term >= ackTerm, "Y-term-not-older-than-acknowledged")
			vAssert(F2.lastLogIndex >= ackLast, "Y-acknowledged-entries-retained")
			c.nodes[2], c.logs[2] = F2, vAbs(F2.log)
			c.srv[2], c.dial[2] = vServe(F2)
			go F2.fsm.runLoop()
			go F2.stateLoop()
			c.heal(2)
			vReach("restarted")
			// the leader's next heartbeat to the dead connection is due
			vAssert(vFire(L.ldr.repls[2].timer), "Y-heartbeat-timer-armed")
		case 2:
			// the heartbeat failed: the leader knows the follower is unreachable and its replication is backing off
			vAssert(!L.ldr.repls[2].status.noContact.IsZero() && L.state == Leader, "Y-leader-notices-the-drop-and-keeps-waiting-for-quorum")
			vAssert(vFire(L.ldr.repls[2].timer), "Y-replication-backs-off-on-a-timer")
		case 3:
			vReach("rejoined")
			vAssert(L.ldr.repls[2].status.noContact.IsZero(), "Y-leader-sees-the-follower-again")
			vAssert(L.state == Leader && L.ldr.repls[2].status.matchIndex == L.lastLogIndex, "Y-leader-caught-the-restarted-node-up")
			vAssert(F2.lastLogIndex == L.lastLogIndex && vLogsEqual(c.logs[1], c.logs[2], L.lastLogIndex), "Y-restarted-log-equals-leaders")
			vAssert(F2.commitIndex == L.commitIndex && F2.term == L.term && F2.leader == 1, "Y-restarted-node-follows-and-commits")
			vAssert(len(f2fsm.updates) == 3 && vSameUpdates(lfsm, f2fsm), "Y-new-state-machine-fed-the-committed-updates-once-in-order")
			c.nodes[2].doClose(ErrServerClosed)
			L.doClose(ErrServerClosed)
			c.srv[1].shutdown()
			c.srv[2].shutdown()
		}
		step++
	})
	L.stateLoop()
	vReach("closed")
	vAssert(step >= 4, "script-completed")
	vReach("end")
}

//verif:check C10,C02,C04,C06 sched=coop maxsteps=2500000 onunwind=violation stubs=rt,timers,valuefile,abslog,snapfs,restart onblock=violation reach=crashed,kept-tail,lost-tail,new-leader,rejoined,closed,end desc="three real nodes end to end through a crash and restart of a cut-off leader: the isolated leader has accepted a client update it could not commit (stored but not flushed); its process dies; the node restarts on the same directory through the real raft.New/openStorage with any surviving prefix of its log that includes everything flushed (the uncommitted entry may or may not have survived); meanwhile the majority side elected a leader; after the repair the restarted node is caught up. Everything committed before the crash is in the reopened log, the restarted node's term is not older, the uncommitted entry is gone in the end, logs and commit indexes converge, and the restarted node's new state machine holds exactly the committed commands" bounds="3 voters, logs of 3 entries + no-op + 1 uncommitted entry on the old leader; every allowed surviving prefix; one election timeout; round-robin goroutine schedule"
func VH_C10_cluster3_leader_restart() {
	cfgE := vClusterConfig().encode()
	cfgE.index, cfgE.term = 1, 1
	e2 := &entry{index: 2, term: 1, typ: entryUpdate, data: vBytes("payload2", 1)}
	e3 := &entry{index: 3, term: 2, typ: entryUpdate, data: vBytes("payload3", 1)}
	c := vNewCluster()
	for id := uint64(1); id <= 3; id++ {
		r := c.add(id, []*entry{cfgE, e2, e3}, 3, 1, 2)
		r.quorumWait = time.Hour
	}
	L, N := c.nodes[1], c.nodes[2]
	L.state, L.leader = Leader, 1
	vDiskInitAt(vDir, ".id", 7, 1)
	c.wire()
	c.start(2) // node 2's loop runs on the main goroutine; node 1 is the one that dies
	lost := &newEntry{task: newTask(), entry: &entry{typ: entryUpdate, data: vBytes("lost.cmd", 1)}}
	var R *Raft
	var rfsm *vFSM
	step := 0
	vSetIdleHook(func() {
		switch step {
		case 0:
			vAssert(L.state == Leader && L.commitIndex == 4 && N.commitIndex == 4 && c.nodes[3].commitIndex == 4, "Z-settled")
			c.isolate(1)
			vOffer(L.newEntryCh, lost)
		case 1:
			vAssert(L.lastLogIndex == 5 && L.commitIndex == 4 && c.logs[1].flushed >= 4, "Z-uncommitted-entry-stored-committed-prefix-flushed")
			// the isolated leader's process dies and is started again
			vCrashedLogs[vDir+"/log"] = c.logs[1]
			vReach("crashed")
			rfsm = &vFSM{}
			opt := DefaultOptions()
			opt.Logger = nil
			r2, err := New(opt, rfsm, vDir)
			vAssert(err == nil && r2 != nil, "Z-restart-opens")
			if err != nil {
				vStop()
			}
			R = r2
			R.quorumWait = time.Hour
			vAssert(R.term >= 3 && R.cid == 7 && R.nid == 1, "Z-term-not-older-identity-kept")
			vAssert(R.lastLogIndex >= 4 && vLogsEqual(c.logs[2], vAbs(R.log), 4), "Z-committed-entries-survive-the-crash")
			if R.lastLogIndex == 5 {
				vReach("kept-tail")
			} else {
				vReach("lost-tail")
			}
			vAssert(R.state == Follower && R.commitIndex == 0, "Z-restarts-as-follower")
			c.nodes[1], c.logs[1] = R, vAbs(R.log)
			c.srv[1], c.dial[1] = vServe(R)
			go R.fsm.runLoop()
			go R.stateLoop()
			// the majority side times out
			vAssert(vFire(N.timer), "Z-follower-election-timer-armed")
		case 2:
			vAssert(N.state == Leader && N.term == 4 && N.commitIndex == 5, "Z-majority-side-elects-and-commits")
			vReach("new-leader")
			c.heal(1)
			vAssert(vFire(N.ldr.repls[1].timer), "Z-replication-to-the-dead-node-is-backing-off")
		case 3:
			vReach("rejoined")
			vAssert(R.state == Follower && R.term == 4 && R.leader == 2, "Z-restarted-node-follows-the-new-leader")
			vAssert(R.lastLogIndex == N.lastLogIndex && vLogsEqual(c.logs[2], c.logs[1], N.lastLogIndex), "Z-uncommitted-entry-gone-logs-equal")
			vAssert(R.commitIndex == N.commitIndex, "Z-commit-indexes-converge")
			vAssert(len(rfsm.updates) == 2 && bytes.Equal(rfsm.updates[0], e2.data) && bytes.Equal(rfsm.updates[1], e3.data), "Z-new-state-machine-holds-exactly-the-committed-commands")
			c.closeAll()
		}
		step++
	})
	N.stateLoop()
	vReach("closed")
	vAssert(step >= 4, "script-completed")
	vReach("end")
}

// vListen: a channel listener for node r and the dial function that reaches it (for running the real Raft.Serve).
func vListen() (*vChanListener, dialFn) {
	lr := vNewListener()
	return lr, func(network, address string, timeout time.Duration) (net.Conn, error) {
		if lr.closed {
			return nil, vIOError{"dial: connection refused"}
		}
		a, b := vPipe()
		lr.incoming <- b
		return a, nil
	}
}

//verif:check C15,C20,C07,C04 sched=coop maxsteps=1500000 onunwind=violation stubs=rt,timers,valuefile,abslog,snapfs,lockfs,servefs onblock=violation reach=serving,second-instance-refused,shutdown-requested,served-out,end desc="the real Raft.Serve on two real nodes end to end (directory lock, FSM loop, accept loop, batching goroutine, state loop, deferred shutdown sequence): while the nodes serve, a second Serve on one of the directories is refused with ErrLockExists and disturbs nothing; the follower catches up and a client update submitted through FSMTasks commits; another update is still uncommitted... then Shutdown is requested on both: every Serve call returns ErrServerClosed, every submitted task has completed (the pending one with ErrServerClosed), no goroutine is left blocked in the shutdown sequence, and both directory locks are released" bounds="leader + follower (third voter down), follower log empty; 1 committed client update + 1 submitted at shutdown; round-robin goroutine schedule"
func VH_C15_cluster2_serve_shutdown() {
	cfgE := vClusterConfig().encode()
	cfgE.index, cfgE.term = 1, 1
	e2 := &entry{index: 2, term: 1, typ: entryUpdate, data: vBytes("payload2", 1)}
	e3 := &entry{index: 3, term: 2, typ: entryUpdate, data: vBytes("payload3", 1)}
	L, la := vClusterNode(vDir, 1, []*entry{cfgE, e2, e3}, 3, 1, 2)
	L.state, L.leader = Leader, 1
	L.quorumWait = time.Hour
	F, fa := vClusterNode(vDirF, 2, nil, 0, 0, 0)
	lrL, _ := vListen()
	lrF, dialF := vListen()
	L.dialFn = func(network, address string, timeout time.Duration) (net.Conn, error) {
		if address != vAddr(2) {
			return nil, vIOError{"dial: connection refused"}
		}
		return dialF(network, address, timeout)
	}
	var errF, errSecond, errShutF, errShutL error
	shut := 0
	servedF := make(chan error, 1)
	go func() { servedF <- F.Serve(lrF) }()
	u1, u2 := UpdateFSM(vBytes("cmd1", 1)), UpdateFSM(vBytes("cmd2", 1))
	step := 0
	vSetIdleHook(func() {
		switch step {
		case 0:
			vReach("serving")
			vAssert(vLockHeld(vDir) && vLockHeld(vDirF), "S-both-directories-locked-while-serving")
			vAssert(L.commitIndex == 4 && F.commitIndex == 4 && vLogsEqual(la, fa, 4), "S-follower-caught-up-under-the-real-serve")
			// a second instance on the follower's directory
			other := vMkRaftAt(vDirF, 2)
			lr2, _ := vListen()
			errSecond = other.Serve(lr2)
			vAssert(errSecond == ErrLockExists, "S-second-instance-refused")
			vAssert(vLockHeld(vDirF) && !F.isClosed(), "S-serving-instance-undisturbed")
			vReach("second-instance-refused")
			go func() { L.FSMTasks() <- u1 }()
		case 1:
			vAssert(isClosed(u1.Done()) && u1.Err() == nil && F.commitIndex == 5, "S-update-through-FSMTasks-commits")
			// another update is on its way when the operator shuts both nodes down
			go func() { L.FSMTasks() <- u2 }()
			go func() { errShutF = F.Shutdown(context.Background()); shut++ }()
			go func() { errShutL = L.Shutdown(context.Background()); shut++ }()
			vReach("shutdown-requested")
		}
		step++
	})
	errL := L.Serve(lrL)
	vReach("served-out")
	vAssert(errL == ErrServerClosed, "S-serve-returns-server-closed")
	errF = <-servedF // (a blocked shutdown sequence on the follower would be reported as a deadlock here)
	vAssert(errF == ErrServerClosed, "S-follower-serve-returns-server-closed")
	vAssert(isClosed(u2.Done()) && (u2.Err() == nil || u2.Err() == ErrServerClosed), "S-task-submitted-at-shutdown-completes")
	vAssert(!vLockHeld(vDir) && !vLockHeld(vDirF), "S-locks-released-after-shutdown")
	vAssert(isClosed(L.closed) && isClosed(F.closed), "S-closed-signalled")
	vAssert(shut >= 1 && errShutF == nil && errShutL == nil, "S-shutdown-calls-return-nil")
	vAssert(step >= 2, "script-completed")
	vReach("end")
}

//verif:check C09,C03,C10,C12 sched=coop maxsteps=3000000 onunwind=violation stubs=rt,timers,valuefile,abslog,snapfs,lockfs,servefs,restart onblock=violation reach=snapshot-taken,crashed,restarted-from-snapshot,new-leader,closed,end desc="two real nodes under the real Raft.Serve through snapshot, compaction and restart: the leader takes a snapshot through the TakeSnapshot task (real onTakeSnapshot / doTakeSnapshot / snapshot sink / onSnapshotTaken), compacts its log, commits one more update, then its process dies; it is started again on the same directory (raft.New + Serve: snapshot label read back, log suffix kept, state machine restored from the snapshot exactly once); the other node times out, is elected with the restarted node's vote and brings it up to date. The snapshot label names the applied index, its term and the committed configuration; the restarted node's log starts at the snapshot and continues with the same entries; after catching up its state machine has applied exactly the updates above the snapshot, once, in order, and both nodes agree on commit index and log" bounds="leader + follower (third voter down); logs of 3 entries + no-op + 2 client updates; snapshot after the first update; round-robin goroutine schedule"
func VH_C09_cluster2_snapshot_restart() {
	cfgE := vClusterConfig().encode()
	cfgE.index, cfgE.term = 1, 1
	e2 := &entry{index: 2, term: 1, typ: entryUpdate, data: vBytes("payload2", 1)}
	e3 := &entry{index: 3, term: 2, typ: entryUpdate, data: vBytes("payload3", 1)}
	L, la := vClusterNode(vDir, 1, []*entry{cfgE, e2, e3}, 3, 1, 2)
	L.state, L.leader = Leader, 1
	L.quorumWait = time.Hour
	F, fa := vClusterNode(vDirF, 2, []*entry{cfgE, e2, e3}, 3, 1, 2)
	F.quorumWait = time.Hour
	vDiskInitAt(vDir, ".id", 7, 1)
	lrL, dialL := vListen()
	lrF, dialF := vListen()
	cut := false
	L.dialFn = func(network, address string, timeout time.Duration) (net.Conn, error) {
		if address != vAddr(2) || cut {
			return nil, vIOError{"dial: connection refused"}
		}
		return dialF(network, address, timeout)
	}
	F.dialFn = func(network, address string, timeout time.Duration) (net.Conn, error) {
		if address != vAddr(1) || cut {
			return nil, vIOError{"dial: connection refused"}
		}
		return dialL(network, address, timeout)
	}
	go func() { _ = L.Serve(lrL) }()
	u1, u2 := UpdateFSM(vBytes("cmd1", 1)), UpdateFSM(vBytes("cmd2", 1))
	snapT := TakeSnapshot(0)
	ffsm := F.fsm.FSM.(*vFSM)
	var R *Raft
	var rfsm *vFSM
	step := 0
	vSetIdleHook(func() {
		switch step {
		case 0:
			vAssert(L.commitIndex == 4 && F.commitIndex == 4, "W-settled")
			go func() { L.FSMTasks() <- u1 }()
		case 1:
			vAssert(isClosed(u1.Done()) && u1.Err() == nil && L.commitIndex == 5 && F.commitIndex == 5, "W-first-update-committed")
			go func() { L.Tasks() <- snapT }()
		case 2:
			vAssert(isClosed(snapT.Done()) && snapT.Err() == nil && snapT.Result() == uint64(5), "W-snapshot-task-reports-the-applied-index")
			vReach("snapshot-taken")
			m, err := L.snaps.meta()
			vAssert(err == nil && m.index == 5 && m.term == 3 && m.config.Index == 1 && len(m.config.Nodes) == 3, "W-label-names-applied-index-term-and-committed-configuration")
			vAssert(L.snaps.index == 5 && la.prev <= 5, "W-compaction-bounded-by-the-snapshot")
			go func() { L.FSMTasks() <- u2 }()
		case 3:
			vAssert(isClosed(u2.Done()) && u2.Err() == nil && L.commitIndex == 6 && F.commitIndex == 6, "W-second-update-committed")
			// the leader's process dies (its connections drop, its lock file goes with the process)
			cut = true
			for _, pe := range vPipes {
				_ = pe.Close()
			}
			delete(vLDir, vDir+"/lock")
			vCrashedLogs[vDir+"/log"] = la
			vReach("crashed")
			rfsm = &vFSM{}
			opt := DefaultOptions()
			opt.Logger = nil
			r2, err := New(opt, rfsm, vDir)
			vAssert(err == nil && r2 != nil, "W-restart-opens")
			if err != nil {
				vStop()
			}
			R = r2
			R.quorumWait = time.Hour
			vAssert(R.snaps.index == 5 && R.snaps.term == 3, "W-snapshot-label-read-back")
			vAssert(R.lastLogIndex == 6 && vAbs(R.log).prev <= 5, "W-log-suffix-kept-contiguous-with-the-snapshot")
			lrR, dialR := vListen()
			dialL = dialR
			R.dialFn = L.dialFn
			go func() { _ = R.Serve(lrR) }()
			cut = false
		case 4:
			vReach("restarted-from-snapshot")
			vAssert(rfsm.restored == 1 && R.fsm.index == 5 && R.commitIndex == 5, "W-state-machine-restored-from-the-snapshot-once")
			vAssert(len(rfsm.updates) == 0, "W-nothing-above-the-snapshot-applied-before-it-is-committed-again")
			vAssert(vFire(F.timer), "W-follower-election-timer-armed")
		case 5:
			vAssert(F.state == Leader && F.term == 4, "W-other-node-elected-with-the-restarted-nodes-vote")
			vReach("new-leader")
			vAssert(R.state == Follower && R.leader == 2 && R.commitIndex == F.commitIndex && R.lastLogIndex == F.lastLogIndex, "W-restarted-node-caught-up")
			ra := vAbs(R.log)
			for i := ra.prev + 1; i <= R.lastLogIndex; i++ {
				vAssert(bytes.Equal(ra.ents[i-ra.base-1], fa.ents[i-1]), "W-restarted-log-equals-the-other-log-above-the-snapshot")
			}
			vAssert(rfsm.restored == 1 && len(rfsm.updates) == 1 && bytes.Equal(rfsm.updates[0], ffsm.updates[len(ffsm.updates)-1]), "W-updates-above-the-snapshot-applied-once-after-restore")
			go func() { _ = R.Shutdown(context.Background()) }()
			go func() { _ = F.Shutdown(context.Background()) }()
			go func() { _ = L.Shutdown(context.Background()) }()
		}
		step++
	})
	errF := F.Serve(lrF)
	vReach("closed")
	vAssert(errF == ErrServerClosed, "W-serve-returns")
	vAssert(step >= 6, "script-completed")
	vReach("end")
}

//verif:check C15,C09 sched=coop maxsteps=1500000 onunwind=violation stubs=rt,timers,valuefile,abslog,snapfs onblock=violation reach=user-snapshot-running,periodic-tick-while-running,snapshot-done,second-periodic,closed,end desc="periodic snapshots against a slow user snapshot, on a real leader with the real FSM loop and snapshot goroutine: a TakeSnapshot task is in progress (the state machine's Snapshot call is held) when the periodic snapshot timer fires; the tick is consumed, the periodic request is turned away, the loop keeps serving tasks; when the user snapshot completes its task succeeds, the log is compacted and the periodic timer is re-armed without blocking the loop; the next tick then takes a periodic snapshot (or reports nothing to snapshot); shutdown completes" bounds="leader + follower (third voter down), snapshot interval on; one user snapshot, two timer ticks, one client update in between; round-robin goroutine schedule"
func VH_C15_cluster2_periodic_snapshot() {
	cfgE := vClusterConfig().encode()
	cfgE.index, cfgE.term = 1, 1
	e2 := &entry{index: 2, term: 1, typ: entryUpdate, data: vBytes("payload2", 1)}
	e3 := &entry{index: 3, term: 2, typ: entryUpdate, data: vBytes("payload3", 1)}
	c := vNewCluster()
	L := c.add(1, []*entry{cfgE, e2, e3}, 3, 1, 2)
	F := c.add(2, []*entry{cfgE, e2, e3}, 3, 1, 2)
	L.state, L.leader = Leader, 1
	L.snapInterval = time.Hour
	lfsm := L.fsm.FSM.(*vFSM)
	lfsm.snapGate = make(chan struct{})
	c.wire()
	c.start(1)
	user := takeSnapshot{task: newTask(), threshold: 0}
	probe := inspect{task: newTask(), fn: func(r *Raft) {}}
	ne := &newEntry{task: newTask(), entry: &entry{typ: entryUpdate, data: vBytes("client.cmd", 1)}}
	step := 0
	vSetIdleHook(func() {
		switch step {
		case 0:
			vAssert(L.commitIndex == 4 && F.commitIndex == 4, "Q-settled")
			vAssert(L.snapTimer.active, "Q-periodic-timer-armed-at-start")
			vOffer(L.taskCh, user)
		case 1:
			vAssert(L.snapTakenCh != nil && !isClosed(user.Done()), "Q-user-snapshot-in-progress")
			vReach("user-snapshot-running")
			vAssert(vFire(L.snapTimer), "Q-periodic-timer-pending")
		case 2:
			vReach("periodic-tick-while-running")
			vAssert(!L.snapTimer.active, "Q-consumed-tick-leaves-the-timer-inactive")
			vAssert(!isClosed(user.Done()), "Q-user-snapshot-still-running")
			vOffer(L.taskCh, probe)
		case 3:
			vAssert(isClosed(probe.Done()), "Q-loop-serves-tasks-while-a-snapshot-runs")
			close(lfsm.snapGate) // the state machine finally hands its state over
		case 4:
			vReach("snapshot-done")
			vAssert(isClosed(user.Done()) && user.Err() == nil && L.snaps.index == 4, "Q-user-snapshot-succeeds")
			vAssert(L.snapTakenCh == nil && L.snapTimer.active, "Q-periodic-timer-re-armed-after-the-snapshot")
			vOffer(L.newEntryCh, ne)
		case 5:
			vAssert(isClosed(ne.Done()) && ne.Err() == nil && L.commitIndex == 5, "Q-update-after-the-snapshot-commits")
			lfsm.snapGate = nil
			vAssert(vFire(L.snapTimer), "Q-periodic-timer-pending-again")
		case 6:
			vReach("second-periodic")
			vAssert(L.snaps.index == 5 && L.snapTakenCh == nil && L.snapTimer.active, "Q-periodic-snapshot-taken-and-timer-re-armed")
			c.closeAll()
		}
		step++
	})
	L.stateLoop()
	vReach("closed")
	vAssert(step >= 7, "script-completed")
	vReach("end")
}

//verif:check C18,C16,C09 sched=coop maxsteps=1500000 onunwind=violation stubs=rt,timers,valuefile,abslog,snapfs onblock=violation reach=clients-started,answers,closed,end desc="the admin client protocol end to end on three real nodes, the state-changing calls: Client.TakeSnapshot against the leader returns the snapshot index over the wire (a second call while nothing changed returns the library's no-updates sentinel, recognisable by equality); Client.TransferLeadership to a named node returns success and that node leads a higher term; the same call sent to the old leader right afterwards is answered with a typed not-leader error whose hint is the new leader or empty" bounds="3 voters, logs of 3 entries + no-op; four client calls in sequence; round-robin goroutine schedule"
func VH_C18_cluster3_client_admin() {
	cfgE := vClusterConfig().encode()
	cfgE.index, cfgE.term = 1, 1
	e2 := &entry{index: 2, term: 1, typ: entryUpdate, data: vBytes("payload2", 1)}
	e3 := &entry{index: 3, term: 2, typ: entryUpdate, data: vBytes("payload3", 1)}
	c := vNewCluster()
	for id := uint64(1); id <= 3; id++ {
		c.add(id, []*entry{cfgE, e2, e3}, 3, 1, 2)
	}
	L := c.nodes[1]
	L.state, L.leader = Leader, 1
	c.wire()
	c.start(1)
	var (
		snap1, snap2           uint64
		errS1, errS2, errT, errT2 error
		done                   int
	)
	step := 0
	vSetIdleHook(func() {
		switch step {
		case 0:
			vAssert(L.state == Leader && L.commitIndex == 4, "A-settled")
			cl := &Client{vAddr(1), c.dial[1]}
			go func() {
				snap1, errS1 = cl.TakeSnapshot(0)
				snap2, errS2 = cl.TakeSnapshot(0)
				errT = cl.TransferLeadership(2, time.Second)
				errT2 = cl.TransferLeadership(3, time.Second)
				done++
			}()
			vReach("clients-started")
		case 1:
			vAssert(done == 1, "A-every-client-call-returned")
			vReach("answers")
			vAssert(errS1 == nil && snap1 == 4 && L.snaps.index == 4, "A-take-snapshot-returns-the-snapshot-index")
			vAssert(errS2 == ErrNoUpdates && snap2 == 0, "A-second-snapshot-reports-no-updates-by-equality")
			vAssert(errT == nil, "A-transfer-reports-success")
			N := c.nodes[2]
			vAssert(N.state == Leader && N.term > 3 && L.state == Follower && L.leader == 2, "A-named-target-leads-a-higher-term")
			nle, ok := errT2.(NotLeaderError)
			// (at that instant the old leader may not have heard from its successor yet: the hint is the successor or empty)
			vAssert(ok && !nle.Lost, "A-old-leader-answers-with-a-typed-not-leader-error")
			vAssert(ok && (nle.Leader.ID == 0 || (nle.Leader.ID == 2 && nle.Leader.Addr == vAddr(2))), "A-leader-hint-is-the-successor-or-empty")
			c.closeAll()
		}
		step++
	})
	L.stateLoop()
	vReach("closed")
	vAssert(step >= 2, "script-completed")
	vReach("end")
}

//verif:check C16,C01 tier=thorough sched=coop+1 maxsteps=800000 onunwind=violation stubs=rt,timers,valuefile,abslog onblock=violation reach=transfer-submitted,transferred,closed,end desc="as VH_C16_cluster3_transfer under every goroutine schedule that differs from round robin in at most one hand-over" bounds="as VH_C16_cluster3_transfer; schedules within 1 deviation from round robin" maxdec=6000
func VH_C16_cluster3_transfer_sched1() { VH_C16_cluster3_transfer() }

//verif:check C07,C03 tier=thorough sched=coop+1 maxsteps=1000000 onunwind=violation stubs=rt,timers,valuefile,abslog onblock=violation reach=submitted,answered,closed,end desc="as VH_C07_cluster2_client_ops under every goroutine schedule that differs from round robin in at most one hand-over (the batching goroutine then also forms batches of more than one task)" bounds="as VH_C07_cluster2_client_ops; schedules within 1 deviation from round robin" maxdec=6000
func VH_C07_cluster2_client_ops_sched1() { VH_C07_cluster2_client_ops() }

// ---- the replication goroutine against a scripted peer: what is left on a connection that goes back to the pool ----

// vScriptedPeer answers on one end of a pipe the way a follower does: identity -> success, append -> success with
// the index the request covers, vote -> alreadyVoted. Every request and reply goes through the library's codecs.
func vScriptedPeer(conn *vPipeEnd, served *int) {
	br := bufio.NewReader(conn)
	bw := bufio.NewWriter(conn)
	for {
		b, err := br.ReadByte()
		if err != nil {
			return
		}
		switch rpcType(b) {
		case rpcIdentity:
			q := &identityReq{}
			if q.decode(br) != nil {
				return
			}
			_ = (&identityResp{resp{term: q.term, result: success}}).encode(bw)
		case rpcAppendEntries:
			q := &appendReq{}
			if q.decode(br) != nil {
				return
			}
			for k := uint64(0); k < q.numEntries; k++ {
				e := &entry{}
				if e.decode(br) != nil {
					return
				}
			}
			_ = (&appendResp{resp{term: q.term, result: success}, q.prevLogIndex + q.numEntries}).encode(bw)
		case rpcVote:
			q := &voteReq{}
			if q.decode(br) != nil {
				return
			}
			_ = (&voteResp{resp{term: q.term, result: alreadyVoted}}).encode(bw)
		default:
			return
		}
		*served++
		if bw.Flush() != nil {
			return
		}
	}
}

//verif:check C01,C04,C20 sched=coop maxsteps=600000 onunwind=violation stubs=rt,timers,valuefile,abslog onblock=violation reach=pipeline-write-in-flight,stopped,pooled,end desc="the real replication goroutine (probe, pipeline writer and reader) against a scripted peer, stopped by its leader while the pipeline writer is inside a network write that then completes: when the goroutine has ended, a connection it put back into the per-peer pool has no unanswered request on it - the next request sent on it (a vote request of the same node's next candidacy) is answered by the reply to THAT request, never by a left-over reply of the pipeline counted as a vote" bounds="leader log of 1 entry; the third network write (the pipeline's first request) is held while the leader stops the replication; both outcomes of the writer's select between the stop signal and reporting its request"
func VH_C01_replication_conn_reuse() {
	r := vLoopNode(Leader)
	r.hbTimeout = 1000
	var leaderEnd *vPipeEnd
	served := 0
	writes, gate := 0, make(chan struct{})
	r.dialFn = func(network, address string, timeout time.Duration) (net.Conn, error) {
		a, b := vPipe()
		leaderEnd = a
		a.onWrite = func() {
			writes++
			if writes == 3 {
				<-gate // the network is slow for this one
			}
		}
		go vScriptedPeer(b, &served)
		return a, nil
	}
	r.resolver.addrs[2] = vAddr(2)
	l := r.ldr
	l.replUpdateCh = make(chan replUpdate, 64)
	repl := &replication{
		node: r.configs.Latest.Nodes[2], rtime: newRandTime(),
		status:        replicationStatus{id: 2, node: r.configs.Latest.Nodes[2]},
		ldrStartIndex: 1, ldrLastIndex: r.lastLogIndex, nextIndex: r.lastLogIndex + 1,
		connPool: r.getConnPool(2), hbTimeout: r.hbTimeout, timer: newSafeTimer(),
		log: r.log.ViewAt(0, r.lastLogIndex), snaps: r.snaps,
		stopCh: make(chan struct{}), replUpdateCh: l.replUpdateCh, leaderUpdateCh: make(chan leaderUpdate, 1),
	}
	areq := &appendReq{req: req{r.term, r.nid}, ldrCommitIndex: r.commitIndex, prevLogIndex: r.lastLogIndex, prevLogTerm: r.lastLogTerm}
	ended := make(chan struct{})
	go func() { repl.runLoop(areq); close(ended) }()
	step := 0
	vSetIdleHook(func() {
		switch step {
		case 0:
			vAssert(writes == 3 && repl.matchIndex == r.lastLogIndex, "CR-pipeline-writer-is-inside-its-first-write")
			vReach("pipeline-write-in-flight")
			close(repl.stopCh) // the leader steps down and stops its replications
		case 1:
			close(gate) // the write completes after all
		}
		step++
	})
	<-ended
	vReach("stopped")
	pool := r.getConnPool(2)
	if len(pool.conns) == 1 {
		vReach("pooled")
		// the same node campaigns later and reuses the pooled connection for its vote request
		resp := &voteResp{}
		err := pool.doRPC(&voteReq{req: req{r.term + 1, r.nid}, lastLogIndex: r.lastLogIndex, lastLogTerm: r.lastLogTerm}, resp, time.Now().Add(time.Second))
		vAssert(err == nil, "CR-vote-request-on-the-pooled-connection-answered")
		vAssert(resp.result == alreadyVoted && resp.term == r.term+1, "CR-reply-belongs-to-the-request-it-answers")
	} else {
		vReach("closed-not-pooled")
		vAssert(leaderEnd.closed, "CR-connection-not-pooled-is-closed")
	}
	vReach("end")
}

//verif:check C19,C09,C12 sched=coop maxsteps=800000 onunwind=violation stubs=rt,timers,valuefile,abslog,snapfs onblock=violation reach=own-snapshot-being-written,installed-meanwhile,own-snapshot-finished,end desc="a follower writing its own snapshot (slow Persist, on the snapshot goroutine) while the leader installs a newer snapshot on it (real state loop, real handlers, real FSM loop): when the older own snapshot finally completes, the node's snapshot index does not move backwards, the snapshot it names is still on disk, the status report keeps its ordering relations, and the TakeSnapshot task completes" bounds="follower with 3 applied entries taking a snapshot at 3; InstallSnapshot for index 5 (abstract payload) arrives while the snapshot is being written; retain 1 snapshot"
func VH_C19_snapshot_take_vs_install() {
	r := vLoopNode(Follower)
	a := vAbs(r.log)
	for i := uint64(2); i <= 3; i++ {
		e := &entry{index: i, term: 1, typ: entryUpdate, data: vBytes("payload", 1)}
		a.ents = append(a.ents, vEncodeEntry(e))
	}
	a.flushed = 3
	r.lastLogIndex, r.lastLogTerm = 3, 1
	r.commitIndex, r.fsm.index, r.fsm.term = 3, 3, 1
	r.fsm.config = r.configs.Committed
	r.leader, r.votedFor, r.termVal.v2 = 2, 2, 2
	vDiskInit(".term", 1, 2)
	fsm := r.fsm.FSM.(*vFSM)
	fsm.persistGate = make(chan struct{})
	go r.fsm.runLoop()
	user := takeSnapshot{task: newTask(), threshold: 0}
	cfg5 := r.configs.Committed.clone()
	ireq := &installSnapReq{req: req{1, 2}, lastIndex: 5, lastTerm: 1, lastConfig: cfg5, size: 0}
	var w bytes.Buffer
	if err := ireq.encode(&w); err != nil {
		panic(err)
	}
	conn, _ := vMkConn(w.Bytes())
	x := &rpc{req: &installSnapReq{}, conn: conn, done: make(chan struct{})}
	step := 0
	vSetIdleHook(func() {
		switch step {
		case 0:
			vOffer(r.taskCh, user)
		case 1:
			vAssert(r.snapTakenCh != nil && !isClosed(user.Done()), "R-own-snapshot-in-progress")
			vReach("own-snapshot-being-written")
			vOffer(r.rpcCh, x)
		case 2:
			vAssert(isClosed(x.done) && x.resp.getResult() == success, "R-install-acknowledged")
			vAssert(r.snaps.index == 5 && r.commitIndex == 5 && a.prev == 5, "R-newer-snapshot-installed")
			vReach("installed-meanwhile")
			close(fsm.persistGate)
		case 3:
			vReach("own-snapshot-finished")
			vAssert(isClosed(user.Done()), "R-take-snapshot-task-completes")
			vAssert(r.snaps.index >= 5, "R-snapshot-index-never-moves-backwards")
			vAssert(vSLookup(vMetaFile(r.snaps.dir, r.snaps.index)) != nil && vSLookup(vSnapFile(r.snaps.dir, r.snaps.index)) != nil, "R-the-snapshot-the-node-names-is-on-disk")
			inf := r.info()
			vAssert(inf.FirstLogIndex-1 <= inf.SnapshotIndex && inf.SnapshotIndex <= inf.LastLogIndex, "R-report-first-1-le-snapshot-le-last")
			r.doClose(ErrServerClosed)
		}
		step++
	})
	r.stateLoop()
	vAssert(step >= 4, "script-completed")
	vReach("end")
}

// vStaleTermPeer: as vScriptedPeer for the handshake and the probe; then it waits until two pipelined requests have
// arrived and answers the first with staleTerm (it has moved on to term 5) and the second with success.
func vStaleTermPeer(conn *vPipeEnd, then func() bool) {
	br := bufio.NewReader(conn)
	bw := bufio.NewWriter(conn)
	appends := 0
	var held []*appendReq
	for {
		b, err := br.ReadByte()
		if err != nil {
			return
		}
		switch rpcType(b) {
		case rpcIdentity:
			q := &identityReq{}
			if q.decode(br) != nil {
				return
			}
			_ = (&identityResp{resp{term: q.term, result: success}}).encode(bw)
		case rpcAppendEntries:
			q := &appendReq{}
			if q.decode(br) != nil {
				return
			}
			for k := uint64(0); k < q.numEntries; k++ {
				e := &entry{}
				if e.decode(br) != nil {
					return
				}
			}
			appends++
			if appends == 1 { // the probe
				_ = (&appendResp{resp{term: q.term, result: success}, q.prevLogIndex + q.numEntries}).encode(bw)
				break
			}
			held = append(held, q)
			if len(held) < 2 {
				continue
			}
			_ = (&appendResp{resp{term: 5, result: staleTerm}, 0}).encode(bw)
			if then != nil && then() {
				// ... and hangs up without answering the second
				_ = bw.Flush()
				_ = conn.Close()
				return
			}
			_ = (&appendResp{resp{term: held[1].term, result: success}, held[1].prevLogIndex + held[1].numEntries}).encode(bw)
			if bw.Flush() != nil {
				return
			}
			continue
		default:
			return
		}
		if bw.Flush() != nil {
			return
		}
	}
}

//verif:check C02,C15,C17 sched=coop maxsteps=600000 onunwind=violation stubs=rt,timers,valuefile,abslog onblock=violation reach=two-in-flight,told,end desc="the real replication goroutine with two pipelined requests in flight when the peer answers the first with a stale-term reply (it is in term 5 now) and the second with success: the leader is told exactly the peer's term (newTerm{5}: it must step down to it; neither a later reply nor a failed read of one may replace the term it is told), and the replication ends" bounds="leader log of 1 entry + 1 appended while the first pipelined request is unanswered; scripted peer"
func VH_C02_replication_staleterm_in_pipeline() {
	r := vLoopNode(Leader)
	r.hbTimeout = 1000
	hangup := vBool("peer.hangs.up.after.stale.reply")
	r.dialFn = func(network, address string, timeout time.Duration) (net.Conn, error) {
		a, b := vPipe()
		go vStaleTermPeer(b, func() bool { return hangup })
		return a, nil
	}
	r.resolver.addrs[2] = vAddr(2)
	l := r.ldr
	l.replUpdateCh = make(chan replUpdate, 64)
	repl := &replication{
		node: r.configs.Latest.Nodes[2], rtime: newRandTime(),
		status:        replicationStatus{id: 2, node: r.configs.Latest.Nodes[2]},
		ldrStartIndex: 1, ldrLastIndex: r.lastLogIndex, nextIndex: r.lastLogIndex + 1,
		connPool: r.getConnPool(2), hbTimeout: r.hbTimeout, timer: newSafeTimer(),
		log: r.log.ViewAt(0, r.lastLogIndex), snaps: r.snaps,
		stopCh: make(chan struct{}), replUpdateCh: l.replUpdateCh, leaderUpdateCh: make(chan leaderUpdate, 1),
	}
	areq := &appendReq{req: req{r.term, r.nid}, ldrCommitIndex: r.commitIndex, prevLogIndex: r.lastLogIndex, prevLogTerm: r.lastLogTerm}
	ended := make(chan struct{})
	go func() { repl.runLoop(areq); close(ended) }()
	step := 0
	vSetIdleHook(func() {
		switch step {
		case 0:
			// the first pipelined request (a heartbeat) is unanswered; a client entry arrives at the leader
			r.storage.appendEntry(&entry{index: r.lastLogIndex + 1, term: r.term, typ: entryUpdate, data: vBytes("cmd", 1)})
			repl.leaderUpdateCh <- leaderUpdate{log: r.log.ViewAt(0, r.lastLogIndex), commitIndex: r.commitIndex}
			vReach("two-in-flight")
		case 1:
			close(repl.stopCh) // (if it has not ended by itself: the leader, stepping down, stops it)
		}
		step++
	})
	<-ended
	// what the leader's loop finds on its update channel
	told := false
	for len(l.replUpdateCh) > 0 {
		u := <-l.replUpdateCh
		if nt, ok := u.update.(newTerm); ok {
			vReach("told")
			vAssert(nt.val == 5, "ST-leader-is-told-the-peers-term")
			told = true
		}
	}
	vAssert(told, "ST-stale-term-reply-reaches-the-leader")
	vReach("end")
}

// vProbePeer: handshake ok; the first probe is refused (the peer holds only entry 1), later requests succeed.
func vProbePeer(conn *vPipeEnd) {
	br := bufio.NewReader(conn)
	bw := bufio.NewWriter(conn)
	appends := 0
	for {
		b, err := br.ReadByte()
		if err != nil {
			return
		}
		switch rpcType(b) {
		case rpcIdentity:
			q := &identityReq{}
			if q.decode(br) != nil {
				return
			}
			_ = (&identityResp{resp{term: q.term, result: success}}).encode(bw)
		case rpcAppendEntries:
			q := &appendReq{}
			if q.decode(br) != nil {
				return
			}
			for k := uint64(0); k < q.numEntries; k++ {
				e := &entry{}
				if e.decode(br) != nil {
					return
				}
			}
			appends++
			if appends == 1 {
				_ = (&appendResp{resp{term: q.term, result: prevEntryNotFound}, 1}).encode(bw)
			} else {
				_ = (&appendResp{resp{term: q.term, result: success}, q.prevLogIndex + q.numEntries}).encode(bw)
			}
		default:
			return
		}
		if bw.Flush() != nil {
			return
		}
	}
}

//verif:check C04,C09,C15 sched=coop maxsteps=800000 onunwind=violation stubs=rt,timers,valuefile,abslog onblock=violation reach=writer-in-flight,deposed,released,end desc="a leader that is deposed inside a request handler (a higher-term AppendEntries whose entries conflict with its own uncommitted ones) while one of its replications is in the middle of sending those entries (the network write is slow): the replication goroutine never reads, through the log view it holds, entries that the handler has meanwhile removed and rewritten (it would ship bytes of the new term under its old-term request, or touch unmapped memory)" bounds="leader log of 3 entries, follower at 1; the pipeline's first request (2 entries) held in its network write while the handler truncates at 2 and appends the new leader's entry; then the state loop's release"
func VH_C04_deposed_leader_replication() {
	r := vLoopNode(Leader)
	a := vAbs(r.log)
	for i := uint64(2); i <= 3; i++ {
		a.ents = append(a.ents, vEncodeEntry(&entry{index: i, term: 1, typ: entryUpdate, data: vBytes("old", 1)}))
	}
	a.flushed = 1
	r.lastLogIndex, r.lastLogTerm = 3, 1
	r.hbTimeout = 1000
	writes, gate, reached, gateOpen := 0, make(chan struct{}), make(chan struct{}), false
	r.dialFn = func(network, address string, timeout time.Duration) (net.Conn, error) {
		x, y := vPipe()
		x.onWrite = func() {
			writes++
			if writes == 4 { // identity, probe, probe, then the pipeline's first request
				close(reached)
				<-gate
			}
		}
		go vProbePeer(y)
		return x, nil
	}
	r.resolver.addrs[2] = vAddr(2)
	l := r.ldr
	l.replUpdateCh = make(chan replUpdate, 64)
	repl := &replication{
		node: r.configs.Latest.Nodes[2], rtime: newRandTime(),
		status:        replicationStatus{id: 2, node: r.configs.Latest.Nodes[2]},
		ldrStartIndex: 1, ldrLastIndex: r.lastLogIndex, nextIndex: r.lastLogIndex + 1,
		connPool: r.getConnPool(2), hbTimeout: r.hbTimeout, timer: newSafeTimer(),
		log: r.log.ViewAt(0, r.lastLogIndex), snaps: r.snaps,
		stopCh: make(chan struct{}), replUpdateCh: l.replUpdateCh, leaderUpdateCh: make(chan leaderUpdate, 1),
	}
	l.repls[2] = repl
	areq := &appendReq{req: req{r.term, r.nid}, ldrCommitIndex: r.commitIndex, prevLogIndex: r.lastLogIndex, prevLogTerm: r.lastLogTerm}
	ended := make(chan struct{})
	l.wg.Add(1)
	go func() { defer l.wg.Done(); repl.runLoop(areq); close(ended) }()
	vSetIdleHook(func() {
		// nothing can move: the slow network write completes (or times out) eventually
		if !gateOpen {
			gateOpen = true
			close(gate)
		}
	})
	<-reached
	vReach("writer-in-flight")
	// node 3 has won term 2 and sends its entry for index 2: this node is deposed inside the handler
	ne := &entry{index: 2, term: 2, typ: entryUpdate, data: vBytes("new", 1)}
	hc, _ := vMkConn(vEncodeEntry(ne))
	hreq := &appendReq{req: req{2, 3}, prevLogIndex: 1, prevLogTerm: 1, ldrCommitIndex: 1, numEntries: 1}
	res, _ := r.onAppendEntriesRequest(hreq, hc)
	vAssert(res == success && r.state == Follower && r.term == 2 && r.lastLogIndex == 2, "DL-deposed-and-log-rewritten")
	vReach("deposed")
	if !gateOpen {
		gateOpen = true
		close(gate) // the replication's network write completes
	}
	l.release() // what the state loop does next
	<-ended
	vReach("released")
	vReach("end")
}

//verif:check C15 sched=coop maxsteps=800000 onunwind=violation stubs=rt,timers,valuefile,abslog onblock=violation reach=reported,end desc="a storage error hit by the pipeline writer goroutine of a replication (reading the entries to send fails): the error is reported to the leader's state loop (which shuts the node down with it) - the goroutine's panic never escapes and kills the process" bounds="leader log of 3 entries, follower at 1; the pipeline's first read of entries fails"
func VH_C15_pipeline_writer_storage_error() {
	r := vLoopNode(Leader)
	a := vAbs(r.log)
	for i := uint64(2); i <= 3; i++ {
		a.ents = append(a.ents, vEncodeEntry(&entry{index: i, term: 1, typ: entryUpdate, data: vBytes("old", 1)}))
	}
	a.flushed = 3
	a.getNFailAt = 1
	r.lastLogIndex, r.lastLogTerm = 3, 1
	r.hbTimeout = 1000
	r.dialFn = func(network, address string, timeout time.Duration) (net.Conn, error) {
		x, y := vPipe()
		go vProbePeer(y)
		return x, nil
	}
	r.resolver.addrs[2] = vAddr(2)
	l := r.ldr
	l.replUpdateCh = make(chan replUpdate, 64)
	repl := &replication{
		node: r.configs.Latest.Nodes[2], rtime: newRandTime(),
		status:        replicationStatus{id: 2, node: r.configs.Latest.Nodes[2]},
		ldrStartIndex: 1, ldrLastIndex: r.lastLogIndex, nextIndex: r.lastLogIndex + 1,
		connPool: r.getConnPool(2), hbTimeout: r.hbTimeout, timer: newSafeTimer(),
		log: r.log.ViewAt(0, r.lastLogIndex), snaps: r.snaps,
		stopCh: make(chan struct{}), replUpdateCh: l.replUpdateCh, leaderUpdateCh: make(chan leaderUpdate, 1),
	}
	areq := &appendReq{req: req{r.term, r.nid}, ldrCommitIndex: r.commitIndex, prevLogIndex: r.lastLogIndex, prevLogTerm: r.lastLogTerm}
	ended := make(chan struct{})
	go func() { repl.runLoop(areq); close(ended) }()
	<-ended
	told := false
	for len(l.replUpdateCh) > 0 {
		u := <-l.replUpdateCh
		if e, ok := u.update.(error); ok {
			_, isOp := e.(OpError)
			vAssert(isOp, "PW-leader-told-the-storage-error")
			told = true
		}
	}
	vAssert(told, "PW-storage-error-of-the-writer-reaches-the-leader")
	vReach("reported")
	vReach("end")
}

// vLaggingAckPeer: handshake ok; probes and the first pipelined request are acknowledged, but the reply to pipelined
// request k is sent only after request k+1 has been read completely (the peer's replies lag one request behind);
// the last request read stays unanswered.
func vLaggingAckPeer(conn *vPipeEnd, acked *uint64) {
	br := bufio.NewReader(conn)
	bw := bufio.NewWriter(conn)
	appends := 0
	var pending *appendResp
	for {
		b, err := br.ReadByte()
		if err != nil {
			return
		}
		switch rpcType(b) {
		case rpcIdentity:
			q := &identityReq{}
			if q.decode(br) != nil {
				return
			}
			_ = (&identityResp{resp{term: q.term, result: success}}).encode(bw)
		case rpcAppendEntries:
			q := &appendReq{}
			if q.decode(br) != nil {
				return
			}
			for k := uint64(0); k < q.numEntries; k++ {
				e := &entry{}
				if e.decode(br) != nil {
					return
				}
			}
			appends++
			mine := &appendResp{resp{term: q.term, result: success}, q.prevLogIndex + q.numEntries}
			if appends == 1 {
				// the probe (a heartbeat at the leader's last index): answered at once
				*acked = mine.lastLogIndex
				_ = mine.encode(bw)
			} else {
				if pending != nil {
					*acked = pending.lastLogIndex
					_ = pending.encode(bw)
				}
				pending = mine
			}
		default:
			return
		}
		if bw.Flush() != nil {
			return
		}
	}
}

//verif:check C06,C02,C03 sched=coop maxsteps=800000 onunwind=violation stubs=rt,timers,valuefile,abslog onblock=violation reach=two-in-flight,credited,end desc="the real replication goroutine with two pipelined requests in flight, of which the peer has answered only the first: the match index the leader is told (what it counts towards the majority that commits) never exceeds what the peer has acknowledged - a reply to an earlier request does not credit the entries of later, unanswered requests" bounds="leader log of 1 entry, then two client entries stored one after the other while the pipeline runs; scripted peer whose replies lag one request behind"
func VH_C06_pipeline_ack_credit() {
	r := vLoopNode(Leader)
	r.hbTimeout = 1000
	var acked uint64
	var peerEnd *vPipeEnd
	r.dialFn = func(network, address string, timeout time.Duration) (net.Conn, error) {
		a, b := vPipe()
		peerEnd = b
		go vLaggingAckPeer(b, &acked)
		return a, nil
	}
	r.resolver.addrs[2] = vAddr(2)
	l := r.ldr
	l.replUpdateCh = make(chan replUpdate, 64)
	repl := &replication{
		node: r.configs.Latest.Nodes[2], rtime: newRandTime(),
		status:        replicationStatus{id: 2, node: r.configs.Latest.Nodes[2]},
		ldrStartIndex: 1, ldrLastIndex: r.lastLogIndex, nextIndex: r.lastLogIndex + 1,
		connPool: r.getConnPool(2), hbTimeout: r.hbTimeout, timer: newSafeTimer(),
		log: r.log.ViewAt(0, r.lastLogIndex), snaps: r.snaps,
		stopCh: make(chan struct{}), replUpdateCh: l.replUpdateCh, leaderUpdateCh: make(chan leaderUpdate, 1),
	}
	areq := &appendReq{req: req{r.term, r.nid}, ldrCommitIndex: r.commitIndex, prevLogIndex: r.lastLogIndex, prevLogTerm: r.lastLogTerm}
	ended := make(chan struct{})
	go func() { repl.runLoop(areq); close(ended) }()
	step := 0
	checkUpdates := func() {
		for len(l.replUpdateCh) > 0 {
			u := <-l.replUpdateCh
			if m, ok := u.update.(matchIndex); ok {
				vAssert(m.val <= acked, "PA-match-index-told-to-the-leader-was-acknowledged-by-the-peer")
				if m.val > 1 {
					vReach("credited")
				}
			}
		}
	}
	vSetIdleHook(func() {
		checkUpdates()
		switch step {
		case 0, 1, 2:
			// a client entry arrives at the leader; the pipeline sends it while earlier requests are unanswered
			r.storage.appendEntry(&entry{index: r.lastLogIndex + 1, term: r.term, typ: entryUpdate, data: vBytes("cmd", 1)})
			repl.leaderUpdateCh <- leaderUpdate{log: r.log.ViewAt(0, r.lastLogIndex), commitIndex: r.commitIndex}
			if step == 1 {
				vReach("two-in-flight")
			}
		case 3:
			_ = peerEnd.Close() // the connection drops with the last request unanswered
		case 4:
			close(repl.stopCh)
		}
		step++
	})
	<-ended
	checkUpdates()
	vReach("end")
}


//verif:check C01,C04,C18,C20 sched=coop maxsteps=800000 onunwind=violation stubs=rt,timers,valuefile,abslog onblock=violation reach=entries-write-in-flight,stopped,end desc="as VH_C01_replication_conn_reuse, but the pipeline writer's network write of the ENTRIES (written to the connection directly, not through the buffered writer) is cut short by its deadline after half of the bytes, at the moment the leader stops the replication: a connection on which a request was only partly written is never put back into the per-peer pool - the next request sent on it (a vote request) would be read by the peer as the rest of those entries" bounds="leader log of 3 entries, follower at 1; the fifth network write (the entries of the pipeline's first request) delivers half and fails; both outcomes of the writer's select between the stop signal and reporting its request"
func VH_C01_replication_conn_reuse_failed_write() {
	r := vLoopNode(Leader)
	a := vAbs(r.log)
	for i := uint64(2); i <= 3; i++ {
		a.ents = append(a.ents, vEncodeEntry(&entry{index: i, term: 1, typ: entryUpdate, data: vBytes("cmd", 4)}))
	}
	a.flushed = 3
	r.lastLogIndex, r.lastLogTerm = 3, 1
	r.hbTimeout = 1000
	var leaderEnd *vPipeEnd
	writes, gate := 0, make(chan struct{})
	r.dialFn = func(network, address string, timeout time.Duration) (net.Conn, error) {
		x, y := vPipe()
		leaderEnd = x
		x.onWrite = func() {
			writes++
			if writes == 5 { // identity, probe, probe, request header, then the entries
				<-gate
				x.failNext = 1
			}
		}
		go vProbePeer(y)
		return x, nil
	}
	r.resolver.addrs[2] = vAddr(2)
	l := r.ldr
	l.replUpdateCh = make(chan replUpdate, 64)
	repl := &replication{
		node: r.configs.Latest.Nodes[2], rtime: newRandTime(),
		status:        replicationStatus{id: 2, node: r.configs.Latest.Nodes[2]},
		ldrStartIndex: 1, ldrLastIndex: r.lastLogIndex, nextIndex: r.lastLogIndex + 1,
		connPool: r.getConnPool(2), hbTimeout: r.hbTimeout, timer: newSafeTimer(),
		log: r.log.ViewAt(0, r.lastLogIndex), snaps: r.snaps,
		stopCh: make(chan struct{}), replUpdateCh: l.replUpdateCh, leaderUpdateCh: make(chan leaderUpdate, 1),
	}
	areq := &appendReq{req: req{r.term, r.nid}, ldrCommitIndex: r.commitIndex, prevLogIndex: r.lastLogIndex, prevLogTerm: r.lastLogTerm}
	ended := make(chan struct{})
	go func() { repl.runLoop(areq); close(ended) }()
	step := 0
	vSetIdleHook(func() {
		switch step {
		case 0:
			vAssert(writes == 5, "FW-pipeline-writer-is-inside-the-write-of-its-entries")
			vReach("entries-write-in-flight")
			close(repl.stopCh) // the leader steps down and stops its replications
		case 1:
			close(gate) // the write deadline passes: half of the bytes went out
		case 2:
			// (still running: the reader waits for a reply to the request that was never completed; its drain
			// timeout - time.After, which the engine never fires - or the peer hanging up ends that)
			_ = leaderEnd.peer.Close()
		}
		step++
	})
	<-ended
	vReach("stopped")
	pool := r.getConnPool(2)
	vAssert(len(pool.conns) == 0, "FW-connection-with-a-partly-written-request-is-not-pooled")
	vAssert(leaderEnd.closed, "FW-connection-with-a-partly-written-request-is-closed")
	vReach("end")
}

// vEmptyPeer: handshake ok; every append request is refused with "I hold nothing" (a new, empty node).
func vEmptyPeer(conn *vPipeEnd) {
	br := bufio.NewReader(conn)
	bw := bufio.NewWriter(conn)
	for {
		b, err := br.ReadByte()
		if err != nil {
			return
		}
		switch rpcType(b) {
		case rpcIdentity:
			q := &identityReq{}
			if q.decode(br) != nil {
				return
			}
			_ = (&identityResp{resp{term: q.term, result: success}}).encode(bw)
		case rpcAppendEntries:
			q := &appendReq{}
			if q.decode(br) != nil {
				return
			}
			for k := uint64(0); k < q.numEntries; k++ {
				e := &entry{}
				if e.decode(br) != nil {
					return
				}
			}
			_ = (&appendResp{resp{term: q.term, result: prevEntryNotFound}, 0}).encode(bw)
		default:
			return // (an install-snapshot request: this scripted peer never gets a complete one)
		}
		if bw.Flush() != nil {
			return
		}
	}
}

//verif:check C09,C03,C18 sched=coop maxsteps=800000 onunwind=violation stubs=rt,timers,valuefile,abslog,snapfs onblock=violation reach=snapshot-send-failed,stopped,end desc="the real replication goroutine serving a new, empty node from a leader whose log is compacted: the install-snapshot request it falls back to is cut short by the network (the write of the snapshot payload - which goes to the connection directly, past the buffered writer - delivers half and fails). Nothing more is written on that connection - the peer would read whatever follows as the rest of the snapshot, store it and restore its state machine from it - and the connection is closed" bounds="leader log compacted up to a snapshot at index 3 + 1 entry; scripted empty peer; the payload of the install-snapshot request fails half way; then back-off and stop"
func VH_C09_replication_snapshot_send_failure() {
	r := vLoopNode(Leader)
	a := vAbs(r.log)
	for i := uint64(2); i <= 4; i++ {
		a.ents = append(a.ents, vEncodeEntry(&entry{index: i, term: 1, typ: entryUpdate, data: vBytes("cmd", 1)}))
	}
	a.flushed = 4
	r.lastLogIndex, r.lastLogTerm = 4, 1
	r.commitIndex = 4
	vPublishSnapshot(r, 3, 1, r.configs.Latest, 10)
	a.prev = 3 // compacted up to the snapshot
	r.hbTimeout = 1000
	vCopySendFailBudget = 1 // the payload of the first install-snapshot request goes out only half
	var leaderEnd *vPipeEnd
	writes := 0
	dials := 0
	r.dialFn = func(network, address string, timeout time.Duration) (net.Conn, error) {
		dials++
		if dials > 1 {
			return nil, vIOError{"dial: connection refused"}
		}
		x, y := vPipe()
		leaderEnd = x
		x.onWrite = func() {
			writes++ // identity, probe, then the install-snapshot request's header; its payload is abstract
		}
		go vEmptyPeer(y)
		return x, nil
	}
	r.resolver.addrs[2] = vAddr(2)
	l := r.ldr
	l.replUpdateCh = make(chan replUpdate, 64)
	repl := &replication{
		node: r.configs.Latest.Nodes[2], rtime: newRandTime(),
		status:        replicationStatus{id: 2, node: r.configs.Latest.Nodes[2]},
		ldrStartIndex: 1, ldrLastIndex: r.lastLogIndex, nextIndex: r.lastLogIndex + 1,
		connPool: r.getConnPool(2), hbTimeout: r.hbTimeout, timer: newSafeTimer(),
		log: r.log.ViewAt(3, r.lastLogIndex), snaps: r.snaps,
		stopCh: make(chan struct{}), replUpdateCh: l.replUpdateCh, leaderUpdateCh: make(chan leaderUpdate, 1),
	}
	areq := &appendReq{req: req{r.term, r.nid}, ldrCommitIndex: r.commitIndex, prevLogIndex: r.lastLogIndex, prevLogTerm: r.lastLogTerm}
	ended := make(chan struct{})
	go func() { repl.runLoop(areq); close(ended) }()
	step := 0
	vSetIdleHook(func() {
		switch step {
		case 0:
			vAssert(vCopySendFailBudget == 0, "SF-install-snapshot-request-was-cut-short")
			vReach("snapshot-send-failed")
			vAssert(writes == 3, "SF-nothing-written-after-the-partly-written-snapshot-request")
			vAssert(leaderEnd.closed, "SF-connection-closed-after-the-failed-snapshot-send")
			close(repl.stopCh)
		}
		step++
	})
	<-ended
	vReach("stopped")
	vAssert(writes == 3, "SF-nothing-written-after-the-partly-written-snapshot-request")
	vReach("end")
}
