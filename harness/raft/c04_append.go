package raft

import "bytes"

// The append-entries handler from an arbitrary follower state and an arbitrary request whose entries come from a
// sender log X with LogMatching(F, X). Serves C04 (A1), C02 (F1, F2), C06 (D1), C19 (step obligations).

type vAppendCase struct {
	r         *Raft
	a         *vAbsLog
	base      uint64
	req       *appendReq
	ents      []*entry // carried entries
	conn      *conn
	commit0   uint64
	term0     uint64
	last0     uint64
	flushed0  uint64
	pre       [][]byte
	avail     int
	script    []byte // the carried entries as they appear on the wire after the request header
}

// vAppendSetup builds follower state (log of L entries) and a request carrying E entries, avail of which arrive.
func vAppendSetup(L, E int, withLC bool) *vAppendCase {
	r := vMkRaft(2)
	vSymTermState(r)
	vAssume(r.term >= 1)
	r.leader = vU64("leader")
	r.state = State(vU8("state"))
	vAssume(r.state == Follower || r.state == Candidate || r.state == Leader)
	a := vInitLog(r, L, 1)
	base := a.base
	r.commitIndex = vU64("commitIndex")
	vAssume(r.commitIndex <= r.lastLogIndex && r.commitIndex >= r.snaps.index)
	vAssume(a.flushed >= r.commitIndex)
	r.fsm.FSM = &vFSM{}
	r.fsm.index = r.commitIndex
	cfg := vStableConfig("cfg", 3, vU64("cfg.index"), 1)
	vAssume(cfg.Index <= r.snaps.index)
	r.configs.Latest, r.configs.Committed = cfg, cfg

	req := &appendReq{req: req{vU64("req.term"), vU64("req.src")},
		ldrCommitIndex: vU64("req.ldrCommitIndex"), prevLogIndex: vU64("req.prevLogIndex"), prevLogTerm: vU64("req.prevLogTerm"),
		numEntries: uint64(E)}
	vAssume(req.src != 0 && req.src != r.nid)
	vAssume(req.prevLogIndex < 1<<41)
	vAssume(vImp(req.prevLogIndex == 0, req.prevLogTerm == 0))
	c := &vAppendCase{r: r, a: a, base: base, req: req, commit0: r.commitIndex, term0: r.term, last0: r.lastLogIndex, flushed0: a.flushed}
	for _, b := range a.ents {
		c.pre = append(c.pre, b)
	}
	// the sender's entries: contiguous after prevLogIndex, terms non-decreasing from prevLogTerm up to the sender's term
	t := req.prevLogTerm
	var script bytes.Buffer
	c.avail = E
	if E > 0 {
		c.avail = E - vChoice(2) // all entries arrive, or the connection is cut before the last one
	}
	for j := 0; j < E; j++ {
		e := vSymEntry("req.e"+string(rune('1'+j)), req.prevLogIndex+uint64(j)+1, 1)
		vAssume(e.term >= t && e.term <= req.term && e.term >= 1)
		vAssume(e.typ == entryUpdate || e.typ == entryNop)
		t = e.term
		c.ents = append(c.ents, e)
		if j < c.avail {
			script.Write(vEncodeEntry(e))
		}
	}
	c.script = script.Bytes()
	c.conn, _ = vMkConn(c.script)

	// LogMatching(F, X): wherever F and the sender agree on (index, term) they agree on content and on everything before
	last := r.lastLogIndex
	matchPrev := vOr(req.prevLogIndex <= base, vOr(req.prevLogIndex > last, vTermAt(a, base, req.prevLogIndex) == req.prevLogTerm))
	// (indexes <= base are not retained by F, nothing to compare)
	allBefore := matchPrev
	for j, e := range c.ents {
		i := e.index
		inF := vAnd(i > base, i <= last)
		same := vAnd(inF, vTermAt(a, base, i) == e.term)
		// same (index,term) => same content and all earlier carried entries (and prev) match too
		vAssume(vImp(same, allBefore))
		for k, fe := range vEntries {
			at := vAnd(same, i == base+uint64(k)+1)
			vAssume(vImp(at, vAnd(fe.typ == e.typ, fe.data[0] == e.data[0])))
		}
		allBefore = vAnd(allBefore, vOr(vNot(inF), same))
		_ = j
	}
	if withLC {
		// Leader completeness, request form: a legitimate leader's log agrees with F on every index F has committed
		vAssume(vImp(vAnd(req.prevLogIndex > base, req.prevLogIndex <= r.commitIndex), vTermAt(a, base, req.prevLogIndex) == req.prevLogTerm))
		for _, e := range c.ents {
			vAssume(vImp(vAnd(e.index > base, e.index <= r.commitIndex), vTermAt(a, base, e.index) == e.term))
		}
		// and it is at least as long as what F has committed... (not needed by the handler)
	}
	return c
}

//verif:check C04 stubs=env,valuefile,abslog reach=success,rejected,truncated,readerr,end desc="onAppendEntriesRequest: log matching preserved, success => carried entries stored verbatim, rejection => log untouched" bounds="follower log L=2 entries after a symbolic base, request E=2 entries (1-byte payloads), connection cut before last entry or not; all 64-bit terms/indexes"
func VH_C04_append_L2E2() { vAppendLM(2, 2) }

//verif:check C04 tier=thorough stubs=env,valuefile,abslog reach=success,rejected,truncated,end desc="as VH_C04_append_L2E2 with deeper bounds" bounds="L=3, E=3"
func VH_C04_append_L3E3() { vAppendLM(3, 3) }

func vAppendLM(L, E int) {
	c := vAppendSetup(L, E, false)
	r, a, req := c.r, c.a, c.req
	res, err := r.onAppendEntriesRequest(req, c.conn)
	_ = err
	last := a.last()
	vAssert(r.lastLogIndex == last, "lastLogIndex-tracks-log")
	switch res {
	case success:
		vReach("success")
		// accepting means the logs agree at prevLogIndex (wherever this node still has that position)
		vAssert(vImp(vAnd(req.prevLogIndex > c.base, req.prevLogIndex > r.snaps.index), vAnd(req.prevLogIndex <= c.last0, vTermAt(a, c.base, req.prevLogIndex) == req.prevLogTerm)), "A1-success-implies-prev-entry-matched")
		// every carried entry above the snapshot index is now in the log, byte for byte
		for _, e := range c.ents {
			if e.index > r.snaps.index {
				vAssert(e.index <= last && e.index > a.base, "A1-success-entry-present")
				k := vConcreteInt(int(e.index - a.base - 1))
				vAssert(bytes.Equal(a.ents[k], vEncodeEntry(e)), "A1-success-entry-verbatim")
			}
		}
	case staleTerm, prevEntryNotFound, prevTermMismatch:
		vReach("rejected")
		vAssert(len(a.ents) == len(c.pre) && a.nAppend == 0 && a.nRemoveGTE == 0, "A1-rejected-log-untouched")
	case readErr:
		vReach("readerr")
	default:
		vAssert(false, "unexpected-result")
	}
	if a.nRemoveGTE > 0 {
		vReach("truncated")
	}
	// in every outcome: an entry of F that is still there is unchanged, and log matching with the sender still holds
	for k := range a.ents {
		if k < len(c.pre) && uint64(k) < a.removedGTEorMax()-a.base-1 {
			vAssert(bytes.Equal(a.ents[k], c.pre[k]), "A1-retained-entry-unchanged")
		}
	}
	for _, e := range c.ents {
		if e.index > a.base && e.index <= last {
			k := vConcreteInt(int(e.index - a.base - 1))
			fe := &entry{}
			if derr := fe.decode(bytes.NewReader(a.ents[k])); derr != nil {
				vAssert(false, "stored-entry-decodes")
			}
			vAssert(vImp(fe.term == e.term, vAnd(fe.typ == e.typ, fe.data[0] == e.data[0])), "A1-log-matching-preserved")
		}
	}
	vReach("end")
}

func (a *vAbsLog) removedGTEorMax() uint64 {
	if a.removedGTE == 0 {
		return ^uint64(0)
	}
	return a.removedGTE
}

//verif:check C02,C05 stubs=env,valuefile,abslog reach=committed,truncated,end desc="onAppendEntriesRequest under leader completeness: in-memory (term, votedFor) equals the durable pair afterwards (a term learned from the leader clears the vote in memory and on disk alike); truncation only above commitIndex; commitIndex only forward, <= leader commit, <= last, entry at it has the leader's term" bounds="L=2, E=2, 1-byte payloads; all 64-bit values"
func VH_C02_append_commit_L2E2() { vAppendCommit(2, 2) }

func vAppendCommit(L, E int) {
	c := vAppendSetup(L, E, true)
	r, a, req := c.r, c.a, c.req
	res, _ := r.onAppendEntriesRequest(req, c.conn)
	_ = res
	if a.nRemoveGTE > 0 {
		vReach("truncated")
		vAssert(a.removedGTE > c.commit0, "F2-truncate-above-commit")
		vAssert(r.state == Follower, "L1-truncate-only-as-follower")
		// only a real conflict removes anything: the entry this node held at the truncation point differs in term
		// from the one the request carries there (entries it had already acknowledged, possibly committed by the
		// leader, survive a stale or duplicate request)
		conflict := false
		for k, pe := range vEntries {
			for _, e := range c.ents {
				conflict = vOr(conflict, vAnd(vAnd(a.removedGTE == c.base+uint64(k)+1, e.index == a.removedGTE), pe.term != e.term))
			}
		}
		vAssert(conflict, "F3-truncate-only-at-a-conflicting-entry")
	}
	vAssert(r.commitIndex >= c.commit0, "F1-commit-monotone")
	if r.commitIndex > c.commit0 {
		vReach("committed")
		vAssert(r.commitIndex <= req.ldrCommitIndex, "F1-commit-le-leader-commit")
		vAssert(r.commitIndex <= r.lastLogIndex, "F1-commit-le-last")
		// the entry at the new commit index carries the leader's term
		k := vConcreteInt(int(r.commitIndex - a.base - 1))
		fe := &entry{}
		_ = fe.decode(bytes.NewReader(a.ents[k]))
		vAssert(fe.term == req.term, "F1-commit-entry-has-leader-term")
	}
	vAssert(r.term >= c.term0, "term-monotone")
	dt, dv := vDurable(".term")
	vAssert(r.term == dt && r.votedFor == dv, "SI-memory-equals-disk-after-append")
	vAssert(vImp(r.term > c.term0, r.votedFor == 0), "SI-new-term-from-leader-has-no-vote")
	vReach("end")
}

//verif:check C06 stubs=env,valuefile,abslog reach=success,pipelined,end desc="follower ack durability: success => everything up to prevLogIndex+carried entries is flushed, from any pre-state including a dirty tail, whether or not the leader's next pipelined request is already buffered on the connection" bounds="L=2, E=1 and E=0; all 64-bit values; 0 or 2 bytes of a following request in the read buffer"
func VH_C06_follower_ack_durable() {
	E := vChoice(2)
	c := vAppendSetup(2, E, true)
	r, a, req := c.r, c.a, c.req
	if c.avail == E && vChoice(2) == 1 {
		// the leader pipelines: the beginning of its next request is already in the connection's read buffer
		c.conn, _ = vMkConn(append(append([]byte(nil), c.script...), vBytes("next.request", 2)...))
		vReach("pipelined")
	}
	res, _ := r.onAppendEntriesRequest(req, c.conn)
	if res == success {
		vReach("success")
		acked := req.prevLogIndex + uint64(E)
		dirtyPre := c.flushed0 < c.last0
		vAssert(vImp(vNot(dirtyPre), a.flushed >= acked), "D1-ack-implies-flushed")
		vAssert(vImp(dirtyPre, a.flushed >= acked), "D1-ack-implies-flushed/dirty-tail-prestate")
	}
	vReach("end")
}
