package raft

import (
	"bytes"
	"time"
)

// C15 / C16 / C20: the real Raft.stateLoop run for a scripted sequence of events. The harness's idle hook plays the
// environment: whenever the loop's select has nothing ready it injects the next event (a task, a client entry, a
// timer firing, an RPC, shutdown). safeTimer is the real code here, over a model of time.Timer with the pre-Go-1.23
// channel semantics this module (go 1.13) gets: buffered channel of one, Stop reports whether the timer was pending.

//verif:stub rt (raft.randTime).duration vRandDuration
//verif:stub rt (raft.randTime).deadline vRandDeadline
//verif:stub rt raft.newRandTime vNewRandTime
//verif:stub rt raft.durationFor vDurationFor
//verif:stub timers time.NewTimer vNewTimer
//verif:stub timers (*time.Timer).Stop vTimerStopT
//verif:stub timers (*time.Timer).Reset vTimerResetT

type vTimerState struct {
	pending bool
	resets  int // how often the timer was (re)started
	ch      chan time.Time
}

var vTimers = map[*time.Timer]*vTimerState{}

func vNewTimer(d time.Duration) *time.Timer {
	ch := make(chan time.Time, 1)
	t := &time.Timer{C: ch}
	vTimers[t] = &vTimerState{pending: true, ch: ch}
	return t
}
func vTimerStopT(t *time.Timer) bool {
	s := vTimers[t]
	was := s.pending
	s.pending = false
	return was
}
func vTimerResetT(t *time.Timer, d time.Duration) bool {
	s := vTimers[t]
	was := s.pending
	s.pending = true
	s.resets++
	return was
}

// vResets: how often the safeTimer's underlying timer was restarted.
func vResets(st *safeTimer) int {
	if s := vTimers[st.timer]; s != nil {
		return s.resets
	}
	return 0
}

// vFire: the runtime delivers the tick of a pending timer.
func vFire(st *safeTimer) bool {
	s := vTimers[st.timer]
	if s == nil || !s.pending {
		return false
	}
	s.pending = false
	s.ch <- time.Now()
	return true
}

// vLoopNode: a node with a one-entry log (the bootstrap configuration of voters 1 and 2) ready to enter stateLoop.
func vLoopNode(state State) *Raft {
	r := vMkRaft(1)
	r.timer = newSafeTimer()
	r.snapTimer = newSafeTimer()
	r.term, r.votedFor = 1, 1
	r.termVal.v1, r.termVal.v2 = 1, 1
	vDiskInit(".term", 1, 1)
	cfg := Config{Nodes: map[uint64]Node{1: {ID: 1, Addr: vAddr(1), Voter: true}, 2: {ID: 2, Addr: vAddr(2), Voter: true}}, Index: 1, Term: 1}
	l, a := vNewLog(0)
	r.storage.log = l
	a.ents = append(a.ents, vEncodeEntry(cfg.encode()))
	a.flushed = 1
	r.lastLogIndex, r.lastLogTerm = 1, 1
	r.configs.Latest, r.configs.Committed = cfg, cfg
	r.commitIndex = 1
	r.fsm.FSM = &vFSM{}
	r.fsm.index, r.fsm.term = 1, 1
	r.state = state
	if state == Leader {
		r.leader = 1
	}
	r.cid = 7
	return r
}

//verif:check C16,C15 stubs=rt,timers,valuefile,abslog onblock=violation reach=timeout-delivered,after-timeout,closed,end desc="real stateLoop as leader: a leadership transfer whose target is not ready times out (the real safeTimer and the transfer-timer arm of the loop), then the loop must still serve the next task and shut down: the transfer task fails with TimeoutError exactly once, nothing blocks" bounds="2 voters, follower not caught up; event script: transfer task, transfer timer fires, GetInfo-like task, shutdown"
func VH_C16_stateloop_transfer_timeout() {
	r := vLoopNode(Leader)
	tr := transferLdr{task: newTask(), target: 0, timeout: 1000}
	probe := inspect{task: newTask(), fn: func(r *Raft) {}}
	step := 0
	vSetIdleHook(func() {
		vDrainFSM(r)
		switch step {
		case 0:
			vOffer(r.taskCh, tr)
		case 1:
			vAssert(r.ldr.transfer.inProgress(), "transfer-started")
			if vFire(r.ldr.transfer.timer) {
				vReach("timeout-delivered")
			}
		case 2:
			vReach("after-timeout")
			vAssert(isClosed(tr.Done()) && tr.Err() != nil, "TO-transfer-task-failed-with-error")
			vAssert(!r.ldr.transfer.inProgress(), "TO-transfer-cleared")
			vOffer(r.taskCh, probe)
		case 3:
			vAssert(isClosed(probe.Done()), "loop-still-serves-tasks-after-transfer-timeout")
			r.doClose(ErrServerClosed)
		}
		step++
	})
	r.stateLoop()
	vReach("closed")
	vAssert(step >= 4, "script-completed")
	vAssert(isClosed(tr.Done()), "C15-transfer-task-completed")
	vReach("end")
}

//verif:check C15,C07 stubs=rt,timers,valuefile,abslog onblock=violation reach=stored,closed,end desc="real stateLoop as leader: client entries arrive, then shutdown: every submitted task completes exactly once (committed ones with their result, the rest with ErrServerClosed), the loop returns, no assertion/nil dereference/blocked goroutine" bounds="2 voters; batch of 1..2 client tasks of symbolic kind; shutdown right after"
func VH_C15_stateloop_shutdown() {
	r := vLoopNode(Leader)
	var subs []*newEntry
	var head, tail *newEntry
	for i := 0; i < 1+vChoice(2); i++ {
		typ := entryType(vU8("task.typ"))
		vAssume(typ == entryUpdate || typ == entryRead || typ == entryBarrier)
		ne := &newEntry{task: newTask(), entry: &entry{typ: typ}}
		subs = append(subs, ne)
		if tail == nil {
			head, tail = ne, ne
		} else {
			tail.next, tail = ne, ne
		}
	}
	step := 0
	vSetIdleHook(func() {
		vDrainFSM(r)
		switch step {
		case 0:
			vOffer(r.newEntryCh, head)
		case 1:
			vReach("stored")
			r.doClose(ErrServerClosed)
		}
		step++
	})
	r.stateLoop()
	vDrainFSM(r)
	vReach("closed")
	for _, ne := range subs {
		vAssert(isClosed(ne.Done()), "C15-every-task-completed-at-shutdown")
		vAssert(ne.Err() == ErrServerClosed, "C15-pending-task-gets-server-closed")
	}
	vAssert(r.state == Leader || r.state == Follower, "state-sane")
	vReach("end")
}

//verif:check C15,C01,C17 stubs=rt,timers,valuefile,abslog onblock=violation reach=candidate,leader,stepdown,closed,end desc="real stateLoop through an election: follower times out, becomes candidate (term+1, self vote durable), collects vote replies offered on its reply channel, becomes leader exactly when a majority of voters granted, appends its no-op; a reply with a higher term sends it back to follower; then shutdown. Election enabledness (P4) and no blocked goroutine" bounds="3 voters; replies from the two other voters with symbolic result and term; event script of 5 events"
func VH_C15_stateloop_election() {
	r := vLoopNode(Follower)
	cfg := r.configs.Latest.clone()
	cfg.Nodes[3] = Node{ID: 3, Addr: vAddr(3), Voter: true}
	r.configs.Latest, r.configs.Committed = cfg, cfg
	res2, res3 := rpcResult(vU8("vote2.result")), rpcResult(vU8("vote3.result"))
	vAssume(res2 == success || res2 == alreadyVoted || res2 == leaderKnown)
	vAssume(res3 == success || res3 == alreadyVoted || res3 == logNotUptodate)
	t2 := vU64("vote2.term")
	vAssume(t2 >= 1 && t2 < 1<<62)
	step := 0
	becameCandidate := false
	vSetIdleHook(func() {
		vDrainFSM(r)
		switch step {
		case 0:
			vAssert(vFire(r.timer), "follower-election-timer-was-armed")
		case 1:
			vAssert(r.state == Candidate, "P4-voter-times-out-into-candidate")
			becameCandidate = true
			vReach("candidate")
			dt, dv := vDurable(".term")
			vAssert(r.term == 2 && dt == 2 && dv == r.nid, "E1-term-incremented-and-self-vote-durable")
			vOffer(r.cnd.respCh, rpcResponse{response: &voteResp{resp{t2, res2, nil}}, from: 2})
		case 2:
			if r.state == Candidate {
				vOffer(r.cnd.respCh, rpcResponse{response: &voteResp{resp{2, res3, nil}}, from: 3})
			} else {
				r.doClose(ErrServerClosed) // the election is over already (won or stepped down)
			}
		default:
			if !r.isClosed() {
				r.doClose(ErrServerClosed)
			}
		}
		step++
	})
	r.stateLoop()
	vReach("closed")
	vAssert(becameCandidate, "script-ran")
	granted := 1
	if t2 <= 2 && res2 == success {
		granted++
	}
	if t2 > 2 {
		vReach("stepdown")
		vAssert(r.term == t2 && r.state == Follower, "E2-higher-term-stepdown")
	} else {
		if res3 == success {
			granted++
		}
		if granted >= 2 {
			vReach("leader")
			vAssert(r.term == 2 && r.lastLogIndex == 2, "leader-appended-noop-in-its-term")
		} else {
			vAssert(r.state != Leader && r.lastLogIndex == 1, "no-majority-no-leader")
		}
	}
	vReach("end")
}

//verif:check C15,C16 stubs=rt,timers,valuefile,abslog onblock=violation reach=request-sent,stepped-down,stale-reply-offered,closed,end desc="real stateLoop: a transfer whose timeout-now request is in flight is completed by something else (the leader sees a higher term and steps down), then the request's late reply arrives: the node must ignore it and keep running (no nil dereference in the stale handler), the transfer task completes exactly once" bounds="2 voters, follower caught up; event script: transfer, newTerm from a replication, late timeout-now reply (error or any result), a task, shutdown"
func VH_C15_stateloop_stale_transfer_reply() {
	r := vLoopNode(Leader)
	tr := transferLdr{task: newTask(), target: 0, timeout: 1000}
	probe := inspect{task: newTask(), fn: func(r *Raft) {}}
	var inflight chan rpcResponse
	late := rpcResponse{response: &timeoutNowResp{resp{term: 1, result: rpcResult(vU8("late.result"))}}, from: 2}
	if vBool("late.err") {
		late.err = vIOError{"dial"}
	}
	step := 0
	vSetIdleHook(func() {
		vDrainFSM(r)
		switch step {
		case 0:
			r.ldr.repls[2].status.matchIndex = r.lastLogIndex
			vOffer(r.taskCh, tr)
		case 1:
			inflight = r.ldr.transfer.respCh
			vAssert(inflight != nil && vNumSpawned() >= 2, "timeout-now-request-in-flight")
			vReach("request-sent")
			// a replication reports a higher term: the leader steps down, which completes the transfer task
			vOffer(r.ldr.replUpdateCh, replUpdate{status: &r.ldr.repls[2].status, update: newTerm{5}})
		case 2:
			vAssert(r.state == Follower && r.term == 5, "stepped-down-on-higher-term")
			vAssert(isClosed(tr.Done()) && tr.Err() == nil, "transfer-completed-successfully-by-term-advance")
			vReach("stepped-down")
			// the goroutine that sent the timeout-now request finally delivers its result
			inflight <- late
			vReach("stale-reply-offered")
			vOffer(r.taskCh, probe)
		case 3:
			vAssert(isClosed(probe.Done()), "node-still-serves-tasks")
			r.doClose(ErrServerClosed)
		default:
			if !r.isClosed() {
				r.doClose(ErrServerClosed)
			}
		}
		step++
	})
	r.stateLoop()
	vReach("closed")
	vAssert(step >= 4, "script-completed")
	vReach("end")
}

//verif:check C15,C16 stubs=rt,timers,valuefile,abslog onblock=violation reach=acked,newterm-timeout,retried,second-ack,closed,end desc="real stateLoop: a leadership transfer whose target acknowledges timeout-now but never starts its election: the new-term timer fires (the newTermTimer arm of the loop over the real safeTimer), the leader retries, the second acknowledgement re-arms the timer, then shutdown: the transfer stays in progress throughout, no timer operation blocks the loop, and the transfer task completes exactly once with the server-closed error" bounds="2 voters, follower caught up; event script: transfer task, ack, new-term timer fires, ack, new-term timer fires or not, shutdown"
func VH_C15_stateloop_newterm_timer() {
	r := vLoopNode(Leader)
	tr := transferLdr{task: newTask(), target: 0, timeout: 1000}
	ack := func() rpcResponse {
		return rpcResponse{response: &timeoutNowResp{resp{term: 1, result: success}}, from: 2}
	}
	fireAgain := vBool("second.newterm.fires")
	step := 0
	vSetIdleHook(func() {
		vDrainFSM(r)
		switch step {
		case 0:
			r.ldr.repls[2].status.matchIndex = r.lastLogIndex
			vOffer(r.taskCh, tr)
		case 1:
			vAssert(r.ldr.transfer.respCh != nil && vNumSpawned() >= 2, "timeout-now-request-in-flight")
			r.ldr.transfer.respCh <- ack()
			vReach("acked")
		case 2:
			vAssert(r.ldr.transfer.respCh == nil && r.ldr.transfer.newTermTimer.active, "NT-ack-arms-new-term-timer")
			vAssert(vFire(r.ldr.transfer.newTermTimer), "new-term-timer-was-pending")
			vReach("newterm-timeout")
		case 3:
			vAssert(r.ldr.transfer.inProgress(), "NT-transfer-still-in-progress-after-new-term-timeout")
			vAssert(!r.ldr.transfer.newTermTimer.active, "NT-fired-timer-is-inactive")
			vAssert(r.ldr.transfer.respCh != nil, "NT-new-term-timeout-retries-the-target")
			vReach("retried")
			r.ldr.transfer.respCh <- ack()
		case 4:
			vAssert(r.ldr.transfer.newTermTimer.active && r.ldr.transfer.inProgress(), "NT-second-ack-re-arms")
			vReach("second-ack")
			if fireAgain {
				vFire(r.ldr.transfer.newTermTimer)
			} else {
				r.doClose(ErrServerClosed)
			}
		default:
			if !r.isClosed() {
				r.doClose(ErrServerClosed)
			}
		}
		step++
	})
	r.stateLoop()
	vReach("closed")
	vAssert(step >= 5, "script-completed")
	vAssert(isClosed(tr.Done()) && tr.Err() == ErrServerClosed, "C15-pending-transfer-gets-server-closed")
	vAssert(!r.ldr.transfer.timer.active && !r.ldr.transfer.newTermTimer.active, "timers-stopped-at-shutdown")
	vReach("end")
}

//verif:check C17,C15 stubs=rt,timers,valuefile,abslog onblock=violation reach=heartbeat,rejected-append,refused-vote,timeout,closed,end desc="real stateLoop as follower: an AppendEntries request from the current leader handed over on rpcCh is answered and restarts the election timer, also when it is rejected (log mismatch); a vote request that is refused (leader known) changes neither term nor vote and does not restart the timer; when the timer then fires the voter becomes candidate" bounds="2 voters + a campaigning outsider; event script: heartbeat, mismatching append, refused vote request with any term, timer fires, shutdown"
func VH_C17_stateloop_follower_timer() {
	r := vLoopNode(Follower)
	r.votedFor, r.termVal.v2 = 2, 2
	vDiskInit(".term", 1, 2)
	r.leader = 2
	mk := func(req *appendReq) *rpc {
		var w bytes.Buffer
		if err := req.encode(&w); err != nil {
			panic(err)
		}
		c, _ := vMkConn(w.Bytes())
		return &rpc{req: &appendReq{}, conn: c, done: make(chan struct{})}
	}
	hb := mk(&appendReq{req: req{1, 2}, prevLogIndex: 1, prevLogTerm: 1, ldrCommitIndex: 1})
	probe := mk(&appendReq{req: req{1, 2}, prevLogIndex: 5, prevLogTerm: 1, ldrCommitIndex: 1})
	vote := &voteReq{req: req{vU64("vote.term"), 3}, lastLogIndex: vU64("vote.lli"), lastLogTerm: vU64("vote.llt")}
	cv, _ := vMkConn(nil)
	xv := &rpc{req: vote, conn: cv, done: make(chan struct{})}
	step, n0 := 0, 0
	vSetIdleHook(func() {
		vDrainFSM(r)
		switch step {
		case 0:
			n0 = vResets(r.timer)
			vOffer(r.rpcCh, hb)
		case 1:
			vAssert(isClosed(hb.done) && hb.readErr == nil && hb.resp.getResult() == success, "heartbeat-answered")
			vAssert(vResets(r.timer) == n0+1, "F1-heartbeat-from-leader-restarts-election-timer")
			vReach("heartbeat")
			vOffer(r.rpcCh, probe)
		case 2:
			vAssert(isClosed(probe.done) && probe.resp.getResult() == prevEntryNotFound, "probe-rejected")
			vAssert(vResets(r.timer) == n0+2, "F1-rejected-append-from-leader-restarts-election-timer")
			vReach("rejected-append")
			vOffer(r.rpcCh, xv)
		case 3:
			vAssert(isClosed(xv.done) && xv.resp.getResult() == leaderKnown, "F2-outsider-vote-refused-while-leader-known")
			vAssert(r.term == 1 && r.votedFor == 2, "F2-refused-vote-changes-neither-term-nor-vote")
			vAssert(vResets(r.timer) == n0+2, "F2-refused-vote-does-not-restart-election-timer")
			vReach("refused-vote")
			vAssert(vFire(r.timer), "election-timer-armed")
		case 4:
			vAssert(r.state == Candidate && r.term == 2, "F3-voter-campaigns-after-timeout")
			vReach("timeout")
			r.doClose(ErrServerClosed)
		default:
			if !r.isClosed() {
				r.doClose(ErrServerClosed)
			}
		}
		step++
	})
	r.stateLoop()
	vReach("closed")
	vAssert(step >= 5, "script-completed")
	vReach("end")
}

//verif:check C17 stubs=rt,timers,valuefile,abslog onblock=violation reach=aborted,contact desc="real stateLoop of a follower that is not a voter in its own configuration (a node being added, or promoted but not yet told): after it has heard from the leader, silence is still noticed - its election timer runs, so that after an election timeout it forgets the leader (it does not campaign) and stops refusing other voters' vote requests with leader-known; otherwise a majority that includes this node cannot elect anyone until a dead connection is torn down" bounds="node 1 non-voter, nodes 2 (leader) and 3 voters; event script: first timeout, one append from the leader, silence, vote request from node 3"
func VH_C17_stateloop_nonvoter_silent_leader() {
	r := vLoopNode(Follower)
	cfg := Config{Nodes: map[uint64]Node{1: {ID: 1, Addr: vAddr(1)}, 2: {ID: 2, Addr: vAddr(2), Voter: true}, 3: {ID: 3, Addr: vAddr(3), Voter: true}}, Index: 1, Term: 1}
	a := vAbs(r.log)
	a.ents[0] = vEncodeEntry(cfg.encode())
	r.configs.Latest, r.configs.Committed = cfg, cfg
	r.votedFor, r.termVal.v2 = 0, 0
	vDiskInit(".term", 1, 0)
	var w bytes.Buffer
	if err := (&appendReq{req: req{1, 2}, prevLogIndex: 1, prevLogTerm: 1, ldrCommitIndex: 1}).encode(&w); err != nil {
		panic(err)
	}
	c, _ := vMkConn(w.Bytes())
	hb := &rpc{req: &appendReq{}, conn: c, done: make(chan struct{})}
	vote := &voteReq{req: req{2, 3}, lastLogIndex: 1, lastLogTerm: 1}
	cv, _ := vMkConn(nil)
	xv := &rpc{req: vote, conn: cv, done: make(chan struct{})}
	step := 0
	vSetIdleHook(func() {
		vDrainFSM(r)
		switch step {
		case 0:
			vAssert(vFire(r.timer), "timer-armed-at-start")
		case 1:
			vAssert(r.state == Follower && r.leader == 0, "NV-non-voter-does-not-campaign")
			vReach("aborted")
			vOffer(r.rpcCh, hb)
		case 2:
			vAssert(isClosed(hb.done) && hb.resp.getResult() == success && r.leader == 2, "append-answered")
			vReach("contact")
			// the leader falls silent (it sends no idle heartbeats to a non-voter anyway)
			vAssert(vFire(r.timer), "NV-election-timer-runs-after-leader-contact")
		case 3:
			vAssert(r.state == Follower && r.leader == 0, "NV-silent-leader-forgotten")
			vOffer(r.rpcCh, xv)
		case 4:
			vAssert(isClosed(xv.done) && xv.resp.getResult() == success, "NV-vote-request-processed-once-the-leader-is-forgotten")
			r.doClose(ErrServerClosed)
		default:
			if !r.isClosed() {
				r.doClose(ErrServerClosed)
			}
		}
		step++
	})
	r.stateLoop()
}
