package raft

// absLog: the model that replaces *log.Log in raft-level harnesses (stub set "abslog"). It sits at the exported
// byte-level API of log.Log, so storage.go and the entry codec above it are executed for real.
// C13 (log package) is the obligation that the real log.Log refines this model; C14 that of its crash outcomes.

import (
	"bytes"

	"github.com/santhosh-tekuri/raft/log"
)

//verif:stub abslog (*raft/log.Log).Append vLogAppend
//verif:stub abslog (*raft/log.Log).Get vLogGet
//verif:stub abslog (*raft/log.Log).GetN vLogGetN
//verif:stub abslog (*raft/log.Log).CommitN vLogCommitN
//verif:stub abslog (*raft/log.Log).Commit vLogCommit
//verif:stub abslog (*raft/log.Log).RemoveLTE vLogRemoveLTE
//verif:stub abslog (*raft/log.Log).RemoveGTE vLogRemoveGTE
//verif:stub abslog (*raft/log.Log).Reset vLogReset
//verif:stub abslog (*raft/log.Log).Close vLogClose
//verif:stub abslog (*raft/log.Log).PrevIndex vLogPrevIndex
//verif:stub abslog (*raft/log.Log).LastIndex vLogLastIndex
//verif:stub abslog (*raft/log.Log).Count vLogCount
//verif:stub abslog (*raft/log.Log).Contains vLogContains
//verif:stub abslog (*raft/log.Log).ViewAt vLogViewAt
//verif:stub abslog (*raft/log.Log).View vLogView
//verif:stub abslog (*raft/log.Log).CanLTE vLogCanLTE

type vAbsLog struct {
	base    uint64   // ents[k] is the entry at index base+k+1
	ents    [][]byte // the bytes handed to Append, unchanged
	prev    uint64   // PrevIndex: entries <= prev have been removed from the front (base <= prev)
	flushed uint64   // highest index that a crash right now is guaranteed to keep
	bounds  []uint64 // prevIndex of every segment after the first, ascending, each in (prev, last); whole-segment removal only

	// views share the parent's entries but have fixed bounds
	parent       *vAbsLog
	vprev, vlast uint64

	// operation journal for durability / ordering obligations
	nAppend, nRemoveGTE, nReset, nCommit, nRemoveLTE int
	lastCommitArg                                    uint64
	removedGTE                                       uint64 // smallest index ever passed to RemoveGTE (0 = none)
	closed                                           bool

	// back-removals and resets of the root, in order: a view taken before one of them must not read at or beyond its
	// index afterwards (the bytes there were overwritten or unmapped)
	cuts  []uint64
	ncuts int // view: len(parent.cuts) when the view was taken

	// fault injection: the getNFailAt-th GetN (through any view of this root) fails with an I/O error (0 = never)
	getNFailAt, nGetN int
}

var vLogs = map[*log.Log]*vAbsLog{}

// vLogRollover: when true, Append may nondeterministically start a new segment (bounded by vLogMaxBounds).
var vLogRollover bool
var vLogMaxBounds = 2

func vAbs(l *log.Log) *vAbsLog {
	a := vLogs[l]
	if a == nil {
		panic("absLog: unregistered *log.Log")
	}
	return a
}

func vNewLog(base uint64) (*log.Log, *vAbsLog) {
	l := &log.Log{}
	a := &vAbsLog{base: base, prev: base, flushed: base}
	vLogs[l] = a
	return l, a
}

func (a *vAbsLog) root() *vAbsLog {
	if a.parent != nil {
		return a.parent
	}
	return a
}
func (a *vAbsLog) last() uint64 {
	if a.parent != nil {
		return a.vlast
	}
	return a.base + uint64(len(a.ents))
}
func (a *vAbsLog) prevIndex() uint64 {
	if a.parent != nil {
		return a.vprev
	}
	return a.prev
}

func vLogPrevIndex(l *log.Log) uint64 { return vAbs(l).prevIndex() }
func vLogLastIndex(l *log.Log) uint64 { return vAbs(l).last() }
func vLogCount(l *log.Log) uint64     { a := vAbs(l); return a.last() - a.prevIndex() }
func vLogContains(l *log.Log, i uint64) bool {
	a := vAbs(l)
	return i > a.prevIndex() && i <= a.last()
}

func vLogGet(l *log.Log, i uint64) ([]byte, error) {
	a := vAbs(l)
	if i > a.last() {
		panic("log: index>lastIndex")
	}
	if i <= a.prevIndex() {
		return nil, log.ErrNotFound
	}
	r := a.root()
	// a view outlives compaction of its parent only as long as its segments are mapped; reading an index the
	// parent has already removed is use-after-unmap in the real log: flag it.
	if i <= r.prev {
		vAssert(false, "log-view-never-reads-an-unmapped-segment")
		panic("log: read of a removed (unmapped) segment through a stale view")
	}
	a.checkCuts(i)
	k := vConcreteInt(int(i - r.base - 1))
	return r.ents[k], nil
}

// checkCuts: a view must not read index i if the root was cut back to or below i (or reset) after the view was taken:
// those bytes have been overwritten by other entries or unmapped.
func (a *vAbsLog) checkCuts(i uint64) {
	if a.parent == nil {
		return
	}
	for _, c := range a.parent.cuts[a.ncuts:] {
		if i >= c {
			vAssert(false, "log-view-never-reads-entries-removed-or-rewritten-after-it-was-taken")
			panic("log: read through a view of entries that were removed from the back (and possibly rewritten) after the view was taken")
		}
	}
}

func vLogGetN(l *log.Log, i uint64, n uint64) ([][]byte, error) {
	a := vAbs(l)
	if i+(n-1) > a.last() {
		panic("log: index>lastIndex")
	}
	if i <= a.prevIndex() {
		return nil, log.ErrNotFound
	}
	r := a.root()
	if i <= r.prev {
		vAssert(false, "log-view-never-reads-an-unmapped-segment")
		panic("log: read of a removed (unmapped) segment through a stale view")
	}
	a.checkCuts(i + n - 1)
	r.nGetN++
	if r.nGetN == r.getNFailAt {
		return nil, vIOError{"log: read failed"}
	}
	var buffs [][]byte
	nn := vConcreteInt(int(n))
	k := vConcreteInt(int(i - r.base - 1))
	var cur []byte
	for j := 0; j < nn; j++ {
		cur = append(cur, r.ents[k+j]...)
	}
	buffs = append(buffs, cur)
	return buffs, nil
}

func vLogAppend(l *log.Log, b []byte) error {
	a := vAbs(l)
	if a.parent != nil {
		panic("absLog: Append on a view")
	}
	vCrashPoint("log.append.before")
	if vLogRollover && len(a.ents) > 0 && len(a.bounds) < vLogMaxBounds && a.last() > a.prev {
		lastBound := a.prev
		if len(a.bounds) > 0 {
			lastBound = a.bounds[len(a.bounds)-1]
		}
		if a.last() > lastBound && vChoice(2) == 1 {
			// the entry does not fit: the real Append commits everything, then creates a segment named after LastIndex
			a.flushed = a.last()
			a.bounds = append(a.bounds, a.last())
		}
	}
	if vAppendHook != nil {
		vAppendHook(b)
	}
	a.ents = append(a.ents, append([]byte(nil), b...))
	a.nAppend++
	vCrashPoint("log.append.after")
	return nil
}

func vLogCommitN(l *log.Log, n uint64) error {
	a := vAbs(l)
	a.nCommit++
	a.lastCommitArg = n
	last := a.last()
	lo := n
	if lo > last {
		lo = last
	}
	if lo < a.flushed {
		lo = a.flushed
	}
	// a flush is per segment, so it may cover more than asked: flushed' is anything in [lo, last]
	f := vU64("log.flushed")
	vAssume(f >= lo && f <= last)
	a.flushed = f
	vCrashPoint("log.commit.after")
	return nil
}

func vLogCommit(l *log.Log) error {
	a := vAbs(l)
	a.nCommit++
	a.lastCommitArg = a.last()
	a.flushed = a.last()
	vCrashPoint("log.commit.after")
	return nil
}

func vLogCanLTE(l *log.Log, i uint64) uint64 {
	a := vAbs(l)
	res := a.prev
	for _, b := range a.bounds {
		if b <= i {
			res = b
		} else {
			break
		}
	}
	return res
}

func vLogRemoveLTE(l *log.Log, i uint64) error {
	a := vAbs(l)
	a.flushed = a.last()
	a.nRemoveLTE++
	vCrashPoint("log.removelte.before")
	for len(a.bounds) > 0 && a.bounds[0] <= i {
		a.prev = a.bounds[0]
		a.bounds = a.bounds[1:]
	}
	vCrashPoint("log.removelte.after")
	return nil
}

func vLogRemoveGTE(l *log.Log, i uint64) error {
	a := vAbs(l)
	a.flushed = a.last()
	a.nRemoveGTE++
	a.cuts = append(a.cuts, i)
	if a.removedGTE == 0 || i < a.removedGTE {
		a.removedGTE = i
	}
	vCrashPoint("log.removegte.before")
	if i <= a.prev {
		// everything goes; the real code recreates a single segment at i-1 (or 0)
		nb := i
		if nb > 0 {
			nb--
		}
		a.base, a.prev, a.ents, a.bounds = nb, nb, nil, nil
		a.flushed = nb
		return nil
	}
	if i > a.last() {
		return nil
	}
	k := vConcreteInt(int(i - a.base - 1))
	a.ents = a.ents[:k]
	// a non-first segment whose prevIndex b satisfies i <= b+1 is removed as a whole
	for len(a.bounds) > 0 && a.bounds[len(a.bounds)-1]+1 >= i {
		a.bounds = a.bounds[:len(a.bounds)-1]
	}
	a.flushed = a.last()
	vCrashPoint("log.removegte.after")
	return nil
}

func vLogReset(l *log.Log, lastIndex uint64) error {
	a := vAbs(l)
	a.nReset++
	a.cuts = append(a.cuts, 0)
	vCrashPoint("log.reset.before")
	// the real Reset unlinks every segment, then creates the new one: in between the directory holds no segment at
	// all, which openSegments turns into an empty log at index 0 (crash-outcome set of DESIGN.md §3.6, checked at the
	// log level by C14)
	// (the segments are unlinked oldest first: after each one the directory holds the remaining suffix)
	for _, b := range a.bounds {
		if b > a.prev {
			a.prev = b
			vCrashPoint("log.reset.partial")
		}
	}
	a.base, a.prev, a.ents, a.bounds, a.flushed = 0, 0, nil, nil, 0
	vCrashPoint("log.reset.mid")
	a.base, a.prev, a.ents, a.bounds = lastIndex, lastIndex, nil, nil
	a.flushed = lastIndex
	vCrashPoint("log.reset.after")
	return nil
}

func vLogClose(l *log.Log) error {
	a := vAbs(l)
	a.flushed = a.last()
	a.closed = true
	return nil
}

func vLogViewAt(l *log.Log, prevIndex, lastIndex uint64) *log.Log {
	a := vAbs(l)
	if lastIndex > a.last() {
		panic("log: ViewAt lastIndex>LastIndex")
	}
	if prevIndex > lastIndex || prevIndex < a.prevIndex() {
		return nil
	}
	v := &log.Log{}
	vLogs[v] = &vAbsLog{parent: a.root(), vprev: prevIndex, vlast: lastIndex, ncuts: len(a.root().cuts)}
	return v
}

func vLogView(l *log.Log) *log.Log {
	a := vAbs(l)
	return vLogViewAt(l, a.prevIndex(), a.last())
}

// ---- helpers to populate a log with symbolic entries through the real codec ----

func vEncodeEntry(e *entry) []byte {
	w := new(bytes.Buffer)
	if err := e.encode(w); err != nil {
		panic(err)
	}
	return w.Bytes()
}

// vSymEntry returns an entry at the given index with symbolic term, type and a payload of dlen symbolic bytes.
func vSymEntry(name string, index uint64, dlen int) *entry {
	e := &entry{index: index, term: vU64(name + ".term"), typ: entryType(vU8(name + ".typ"))}
	if dlen > 0 {
		e.data = vBytes(name+".data", dlen)
	}
	return e
}

// vAppendHook, when set, is called by the model for every Append, before the bytes are stored.
var vAppendHook func(b []byte)
