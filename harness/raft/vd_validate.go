package raft

// Translator validation: deterministic, stub-free functions whose printed result must be identical when run natively
// (go test -overlay) and in the engine (concrete mode). They push the repository's own kinds of computation - the
// codecs, bufio framing, sorting, map iteration over small maps, closures/defers/recover, integer conversions -
// through both executions.

import (
	"bufio"
	"bytes"
	"errors"
	"runtime"
	"sort"
	"sync"
)

func vHex(b []byte) string {
	const d = "0123456789abcdef"
	s := make([]byte, 0, 2*len(b))
	for _, x := range b {
		s = append(s, d[x>>4], d[x&15])
	}
	return string(s)
}

func vB(b bool) string {
	if b {
		return "T"
	}
	return "F"
}

func vU(v uint64) string {
	if v == 0 {
		return "0"
	}
	var b []byte
	for v > 0 {
		b = append([]byte{byte('0' + v%10)}, b...)
		v /= 10
	}
	return string(b)
}

//verif:validate C18
func VD_C18_messages() string {
	var w bytes.Buffer
	out := ""
	msgs := []message{
		&voteReq{req: req{term: 0xfedcba9876543210, src: 3}, lastLogIndex: 1<<63 + 5, lastLogTerm: 7, transfer: true},
		&appendReq{req: req{term: 9, src: 1}, prevLogIndex: 1 << 40, prevLogTerm: 8, ldrCommitIndex: 1<<64 - 1, numEntries: 2},
		&timeoutNowReq{req: req{term: 1, src: 2}},
		&identityReq{req: req{term: 0, src: 5}, cid: 1 << 63, nid: 1<<64 - 1},
		&voteResp{resp{term: 77, result: alreadyVoted}},
		&appendResp{resp{term: 78, result: unexpectedErr, err: OpError{"Log.Get", errors.New("boom")}}, 99},
		&installSnapResp{resp{term: 79, result: unexpectedErr, err: plainError("plain")}},
	}
	for _, m := range msgs {
		w.Reset()
		if err := m.encode(&w); err != nil {
			return "encode error"
		}
		out += vHex(w.Bytes()) + ";"
	}
	// decode what was encoded, re-encode, compare
	for i, m := range msgs {
		w.Reset()
		m.encode(&w)
		var d message
		switch i {
		case 0:
			d = &voteReq{}
		case 1:
			d = &appendReq{}
		case 2:
			d = &timeoutNowReq{}
		case 3:
			d = &identityReq{}
		case 4:
			d = &voteResp{}
		case 5:
			d = &appendResp{}
		case 6:
			d = &installSnapResp{}
		}
		if err := d.decode(bytes.NewReader(w.Bytes())); err != nil {
			out += "decode error;"
			continue
		}
		var w2 bytes.Buffer
		d.encode(&w2)
		if bytes.Equal(w.Bytes(), w2.Bytes()) {
			out += "rt;"
		} else {
			out += "RT-MISMATCH;"
		}
	}
	return out
}

//verif:validate C18,C04
func VD_C18_entries_bufio() string {
	var w bytes.Buffer
	es := []*entry{
		{index: 1, term: 1, typ: entryNop},
		{index: 2, term: 1, typ: entryUpdate, data: []byte("hello")},
		{index: 3, term: 1<<64 - 1, typ: entryConfig, data: bytes.Repeat([]byte{0xab}, 40)},
	}
	for _, e := range es {
		e.encode(&w)
	}
	out := vHex(w.Bytes()[:32]) + ";"
	r := bufio.NewReaderSize(bytes.NewReader(w.Bytes()), 16)
	for range es {
		buffered := isEntryBuffered(r)
		e := &entry{}
		if err := e.decode(r); err != nil {
			return out + "decode error"
		}
		out += vB(buffered) + ":" + vU(e.index) + "," + vU(e.term) + "," + vU(uint64(e.typ)) + "," + vU(uint64(len(e.data))) + ";"
	}
	// truncated stream
	r = bufio.NewReader(bytes.NewReader(w.Bytes()[:30]))
	e := &entry{}
	err1 := e.decode(r)
	err2 := e.decode(r)
	out += vB(err1 == nil) + "|" + vB(err2 == nil)
	return out
}

//verif:validate C18,C08
func VD_C18_config() string {
	c := Config{Nodes: map[uint64]Node{}, Index: 9, Term: 4}
	c.Nodes[3] = Node{ID: 3, Addr: "c:3", Voter: true}
	c.Nodes[1] = Node{ID: 1, Addr: "a:1", Voter: true, Action: Demote, Data: "x"}
	c.Nodes[2] = Node{ID: 2, Addr: "b:2", Action: Promote}
	e := c.encode()
	var d Config
	if err := d.decode(e); err != nil {
		return "decode error"
	}
	ids := make([]int, 0)
	for id := range d.Nodes {
		ids = append(ids, int(id))
	}
	sort.Ints(ids)
	out := vU(uint64(len(e.data))) + ";" + vU(d.Index) + ";" + vU(uint64(d.numVoters())) + ";" + vU(uint64(d.quorum())) + ";"
	for _, id := range ids {
		n := d.Nodes[uint64(id)]
		out += vU(n.ID) + n.Addr + vB(n.Voter) + n.Data + vU(uint64(n.Action)) + vU(uint64(n.nextAction())) + ";"
	}
	out += vB(d.isStable()) + vB(d.isVoter(2)) + vB(c.validate() == nil)
	return out
}

//verif:validate C02,C01
func VD_C02_sort_quorum() string {
	s := decrUint64Slice{5, 1 << 63, 0, 7, 7, 1<<64 - 1, 3}
	sort.Sort(s)
	out := ""
	for _, v := range s {
		out += vU(v) + ","
	}
	for n := 1; n <= 7; n++ {
		c := Config{Nodes: map[uint64]Node{}}
		for i := 1; i <= n; i++ {
			c.Nodes[uint64(i)] = Node{ID: uint64(i), Voter: i%3 != 0}
		}
		out += vU(uint64(c.quorum())) + "/" + vU(uint64(c.numVoters())) + ";"
	}
	out += vU(min(3, 9)) + vU(min(1<<63, 2)) + vU(uint64(backOff(5, 1000000000)))
	return out
}

type vdT struct{ n int }

func (t *vdT) bump() int { t.n++; return t.n }

//verif:validate C15
func VD_C15_control_flow() (out string) {
	defer func() {
		if v := recover(); v != nil {
			out += "recovered:" + vB(v == errAssertion) + ";"
		}
	}()
	t := &vdT{}
	fs := []func() int{}
	for i := 0; i < 3; i++ {
		i := i
		fs = append(fs, func() int { return i*10 + t.bump() })
	}
	for _, f := range fs {
		out += vU(uint64(f())) + ","
	}
	var tk *task
	tk.reply(1) // nil receiver tolerated
	tk = newTask()
	tk.reply(errStop)
	tk.reply(nil) // second reply must not close twice
	out += vB(isClosed(tk.Done())) + vB(tk.Err() == nil) + ";"
	x := int64(-5)
	out += vU(uint64(uint8(x))) + "," + vU(uint64(uint32(x)>>3)) + "," + vU(uint64(int32(int8(x*40)))&0xffff) + ";"
	ch := make(chan int, 2)
	ch <- 1
	ch <- 2
	close(ch)
	for v := range ch {
		out += vU(uint64(v))
	}
	assert(len(out) == 0)
	return out + "unreachable"
}

// ---- cooperative goroutines (engine: sched=coop; natively: the Go runtime). The printed result does not depend on
// the schedule, so both executions must agree. ----

//verif:validate C15
func VD_goroutines_coop() string {
	out := ""
	// 1. unbuffered rendezvous, range over a closed channel, WaitGroup
	ch := make(chan int)
	res := make(chan int, 16)
	var wg sync.WaitGroup
	for w := 0; w < 3; w++ {
		wg.Add(1)
		go func(w int) {
			defer wg.Done()
			for x := range ch {
				res <- x * (w*0 + 2)
			}
		}(w)
	}
	for i := 1; i <= 6; i++ {
		ch <- i
	}
	close(ch)
	wg.Wait()
	close(res)
	sum := 0
	for x := range res {
		sum += x
	}
	out += vU(uint64(sum)) + ";"
	// 2. select over two producers with a stop channel, mutex-protected counter
	a, b, stop := make(chan int), make(chan int, 2), make(chan struct{})
	var mu sync.Mutex
	cnt := 0
	done := make(chan int)
	go func() {
		got := 0
		for {
			select {
			case x := <-a:
				got += x
			case x := <-b:
				got += 10 * x
			case <-stop:
				done <- got
				return
			}
			mu.Lock()
			cnt++
			mu.Unlock()
		}
	}()
	for i := 1; i <= 3; i++ {
		a <- i
		b <- i
	}
	// both producers are consumed before stop can be observed: wait until the counter says so
	for {
		mu.Lock()
		n := cnt
		mu.Unlock()
		if n == 6 {
			break
		}
		runtime.Gosched()
	}
	close(stop)
	out += vU(uint64(<-done)) + ";" + vU(uint64(cnt)) + ";"
	// 3. a chain of goroutines passing a token through unbuffered channels
	first := make(chan int)
	in := first
	for k := 0; k < 4; k++ {
		nxt := make(chan int)
		go func(in, out chan int) { out <- 1 + <-in }(in, nxt)
		in = nxt
	}
	first <- 100
	out += vU(uint64(<-in)) + ";"
	// 4. non-blocking select takes default when nobody is ready, and a receive from a closed channel is ready
	c := make(chan int)
	select {
	case <-c:
		out += "recv;"
	default:
		out += "default;"
	}
	close(c)
	select {
	case _, ok := <-c:
		out += "closed:" + vB(ok) + ";"
	default:
		out += "default;"
	}
	return out
}
