package raft

import (
	"bytes"

	"github.com/santhosh-tekuri/raft/log"
)

// The sender side: what replication.writeAppendEntriesReq puts on the wire (C04.A2, C09.S5) and how
// onAppendEntriesResp moves matchIndex/nextIndex (C06.D2, C17.P1).

func vMkReplication(r *Raft, a *vAbsLog) *replication {
	repl := &replication{
		node:           Node{ID: 2, Addr: vAddr(2), Voter: true},
		status:         replicationStatus{id: 2},
		log:            r.log.ViewAt(a.prev, a.last()),
		snaps:          r.snaps,
		hbTimeout:      1000,
		timer:          vMkTimer(),
		ldrLastIndex:   a.last(),
		stopCh:         make(chan struct{}),
		replUpdateCh:   make(chan replUpdate, 8),
		leaderUpdateCh: make(chan leaderUpdate, 1),
	}
	return repl
}

//verif:check C04,C09 stubs=env,valuefile,abslog,snapfs reach=sent,heartbeat,needs-snapshot,end desc="replication.writeAppendEntriesReq from any replication progress: the request names prevLogIndex = nextIndex-1 with the term the leader's log (or snapshot) has there, carries exactly the leader's entries from nextIndex on, verbatim and contiguous, at most 64 and within its view, and advances nextIndex by what it sent; it reports ErrNotFound exactly when what it needs lies at or below its view's first index" bounds="leader log of 3 entries after a symbolic base, snapshot index anywhere in [base, last], symbolic nextIndex in (base, last+1]"
func VH_C04_writeAppendEntriesReq() {
	r := vMkRaft(1)
	vSymTermState(r)
	vAssume(r.term >= 1)
	a := vInitLog(r, 3, 1)
	vNoConfigEntries()
	repl := vMkReplication(r, a)
	repl.matchIndex = vU64("matchIndex")
	repl.nextIndex = vU64("nextIndex")
	vAssume(repl.matchIndex < repl.nextIndex && repl.nextIndex <= a.last()+1 && repl.nextIndex >= 1)
	send := vBool("sendEntries")
	c, vc := vMkConn(nil)
	req := &appendReq{req: req{r.term, r.nid}, ldrCommitIndex: vU64("commit")}
	next0 := repl.nextIndex
	err := repl.writeAppendEntriesReq(c, req, send)
	prev := next0 - 1
	if err == log.ErrNotFound {
		vReach("needs-snapshot")
		// the follower needs something the log no longer has: the term at prev (below the view and not the snapshot
		// index), or the first entry to send
		needsTerm := vAnd(vAnd(prev != 0, prev != r.snaps.index), prev <= a.prev)
		needsEntry := vAnd(send, vAnd(next0 <= a.last(), next0 <= a.prev))
		vAssert(vOr(needsTerm, needsEntry), "A2-notfound-only-when-compacted")
		vAssert(r.snaps.index >= a.prev, "S5-snapshot-covers-what-was-compacted")
		vAssert(repl.nextIndex == next0, "A2-notfound-leaves-progress-unchanged")
		return
	}
	vAssert(err == nil, "A2-no-other-error")
	// decode what went on the wire with the real codec
	wire := bytes.NewReader(vc.wr.Bytes())
	typ, _ := wire.ReadByte()
	vAssert(rpcType(typ) == rpcAppendEntries, "A2-frame-type")
	got := &appendReq{}
	vAssert(got.decode(wire) == nil, "A2-request-decodes")
	vAssert(got.prevLogIndex == prev, "A2-prev-is-next-minus-one")
	var wantTerm uint64
	if prev == 0 {
		wantTerm = 0
	} else if prev == r.snaps.index {
		wantTerm = r.snaps.term
	} else {
		wantTerm = vTermAt(a, a.base, prev)
	}
	vAssert(got.prevLogTerm == wantTerm, "A2-prev-term-is-the-leaders")
	vAssert(got.term == r.term && got.src == r.nid, "A2-term-and-source")
	n := vConcreteInt(int(got.numEntries))
	vAssert(uint64(n) <= maxAppendEntries && prev+uint64(n) <= a.last(), "A2-entries-within-view")
	if !send {
		vAssert(n == 0, "A2-heartbeat-carries-nothing")
	} else {
		vAssert(uint64(n) == a.last()-prev || n == maxAppendEntries, "A2-sends-everything-it-has-up-to-the-cap")
	}
	for j := 0; j < n; j++ {
		e := &entry{}
		vAssert(e.decode(wire) == nil, "A2-entry-decodes")
		vAssert(e.index == prev+uint64(j)+1, "A2-entries-contiguous")
		k := vConcreteInt(int(e.index - a.base - 1))
		vAssert(bytes.Equal(vEncodeEntry(e), a.ents[k]), "A2-entries-verbatim-from-leader-log")
	}
	vAssert(wire.Len() == 0, "A2-nothing-else-on-the-wire")
	vAssert(repl.nextIndex == next0+uint64(n), "A2-next-index-advances-by-sent")
	if n > 0 {
		vReach("sent")
	} else {
		vReach("heartbeat")
	}
	vReach("end")
}

//verif:check C06,C17 stubs=env,valuefile,abslog reach=raised,backoff,faulty,newterm,end desc="replication.onAppendEntriesResp: matchIndex rises only on a success reply and only to the last index the acknowledged request covered; a consistency failure strictly lowers nextIndex and keeps it above matchIndex (or reports a faulty follower), so probing terminates; a stale-term reply is reported to the leader" bounds="all 64-bit values"
func VH_C06_onAppendEntriesResp() {
	repl := &replication{status: replicationStatus{id: 2}, stopCh: make(chan struct{}), replUpdateCh: make(chan replUpdate, 8)}
	ch := make(chan replUpdate, 8)
	repl.replUpdateCh = ch
	repl.matchIndex, repl.nextIndex = vU64("matchIndex"), vU64("nextIndex")
	vAssume(repl.matchIndex < repl.nextIndex)
	resp := &appendResp{resp{term: vU64("resp.term"), result: rpcResult(vU8("resp.result"))}, vU64("resp.lastLogIndex")}
	vAssume(resp.result == success || resp.result == staleTerm || resp.result == prevEntryNotFound || resp.result == prevTermMismatch)
	reqLast := vU64("reqLastIndex")
	// a follower does not refuse prevLogIndex == matchIndex: it acknowledged that very entry before, and only a leader
	// of a higher term could have replaced it (then the reply is staleTerm). So a consistency failure answers a probe
	// above the match index.
	vAssume(vImp(vOr(resp.result == prevEntryNotFound, resp.result == prevTermMismatch), repl.nextIndex-1 > repl.matchIndex))
	vAssume(resp.lastLogIndex < 1<<62) // log indexes do not approach 2^64 (lastLogIndex+1 would wrap)
	m0, n0 := repl.matchIndex, repl.nextIndex
	err := repl.onAppendEntriesResp(resp, reqLast)
	vAssert(repl.matchIndex >= m0, "D2-match-never-decreases")
	if repl.matchIndex > m0 {
		vReach("raised")
		vAssert(resp.result == success && repl.matchIndex == reqLast, "D2-match-rises-only-on-success-to-acked-index")
		vAssert(len(ch) == 1, "D2-leader-notified")
	}
	switch resp.result {
	case prevEntryNotFound, prevTermMismatch:
		if err == ErrFaultyFollower {
			vReach("faulty")
			vAssert(resp.lastLogIndex < m0, "P1-faulty-only-if-follower-lost-acknowledged-entries")
		} else {
			vReach("backoff")
			vAssert(err == nil && repl.nextIndex < n0 && repl.nextIndex > repl.matchIndex, "P1-next-index-strictly-lower-and-above-match")
		}
	case staleTerm:
		vReach("newterm")
		vAssert(err == errStop && len(ch) == 1, "S1-stale-term-reported-to-leader")
		u := <-ch
		nt, ok := u.update.(newTerm)
		vAssert(ok && nt.val == resp.term, "S1-new-term-value")
	}
	vReach("end")
}
