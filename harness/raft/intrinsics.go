package raft

// Harness intrinsics. In the engine every function in this file is intercepted by name and given its symbolic
// meaning; the bodies below are the native meaning, used when a harness is replayed as an ordinary Go test with the
// solver's model (VERIF_MODEL=<replay file>).

import (
	"encoding/json"
	"fmt"
	"os"
)

type vNativeModel struct {
	Model map[string]uint64 `json:"model"`
	Trail []struct {
		Val  uint64
		Kind uint8
	} `json:"trail"`
}

var (
	vModel    *vNativeModel
	vNames    = map[string]int{}
	vChoiceAt int
	vFailed   []string
)

type vAssumeFailed struct{ msg string }
type vAssertFailed struct{ id string }
type vStopped struct{}

func vLoadModel() {
	if vModel != nil {
		return
	}
	vModel = &vNativeModel{Model: map[string]uint64{}}
	if p := os.Getenv("VERIF_MODEL"); p != "" {
		b, err := os.ReadFile(p)
		if err != nil {
			panic(err)
		}
		if err := json.Unmarshal(b, vModel); err != nil {
			panic(err)
		}
	}
	vNames = map[string]int{}
	vChoiceAt = 0
}

func vFresh(name string) string {
	n := vNames[name]
	vNames[name] = n + 1
	if n == 0 {
		return name
	}
	return fmt.Sprintf("%s#%d", name, n)
}

func vVal(name string) uint64 { vLoadModel(); return vModel.Model[vFresh(name)] }

func vU64(name string) uint64 { return vVal(name) }
func vU32(name string) uint32 { return uint32(vVal(name)) }
func vU16(name string) uint16 { return uint16(vVal(name)) }
func vU8(name string) uint8   { return uint8(vVal(name)) }
func vInt(name string) int    { return int(vVal(name)) }
func vI64(name string) int64  { return int64(vVal(name)) }
func vBool(name string) bool  { return vVal(name) != 0 }

func vBytes(name string, n int) []byte {
	vLoadModel()
	base := vFresh(name)
	b := make([]byte, n)
	for i := range b {
		b[i] = byte(vModel.Model[vFresh(fmt.Sprintf("%s[%d]", base, i))])
	}
	return b
}
func vString(name string, n int) string { return string(vBytes(name, n)) }

func vAssume(c bool) {
	if !c {
		panic(vAssumeFailed{"assumption does not hold for this model"})
	}
}
func vAssert(c bool, id string) {
	if !c {
		vFailed = append(vFailed, id)
		panic(vAssertFailed{id})
	}
}
func vReach(id string) {}
func vChoice(n int) int {
	vLoadModel()
	for vChoiceAt < len(vModel.Trail) {
		d := vModel.Trail[vChoiceAt]
		vChoiceAt++
		if d.Kind == 2 {
			return int(d.Val)
		}
	}
	return 0
}
func vConcrete(x uint64) uint64 { return x }
func vConcreteInt(x int) int    { return x }
func vConcreteU8(x uint8) uint8 { return x }
func vStop()                    { panic(vStopped{}) }
func vIsEngine() bool           { return false }
func vNumSpawned() int          { return 0 }
func vRunSpawned(i int)         {}
func vAnd(a, b bool) bool       { return a && b }
func vOr(a, b bool) bool        { return a || b }
func vImp(a, b bool) bool       { return !a || b }
func vNot(a bool) bool          { return !a }
func vIte64(c bool, a, b uint64) uint64 {
	if c {
		return a
	}
	return b
}
func vIte8(c bool, a, b uint8) uint8 {
	if c {
		return a
	}
	return b
}
func vSetIdleHook(f func())          {}
type vCrashedT struct{}

func vCrashNow() { panic(vCrashedT{}) }
func vRunToCrash(f func()) (crashed bool) {
	defer func() {
		if r := recover(); r != nil {
			if _, ok := r.(vCrashedT); ok {
				crashed = true
				return
			}
			panic(r)
		}
	}()
	f()
	return false
}
func vOffer(ch interface{}, v interface{}) {}
func vExpectRecv(ch interface{})            {}
func vIsSymbolic(x uint64) bool        { return false }
func vChanPending(ch interface{}) int { return 0 }
