package raft

import "time"

// C16: leadership transfer step obligations.

func vTransferLeader(n int) (*Raft, *leader) {
	r, l, _ := vMkLeader(n, 2, true)
	cfg := r.configs.Latest
	vAssume(cfg.numVoters() >= 1 && l.node.Voter)
	r.configs.Committed = cfg
	vAssume(r.commitIndex >= l.startIndex && cfg.Index <= r.commitIndex)
	return r, l
}

// vTimeoutNowTargets: the nodes for which a timeout-now request goroutine was spawned (one spawned closure per request).
func vSpawnCount() int { return vNumSpawned() }

//verif:check C16 stubs=env,valuefile,abslog reach=started,rejected,sent,waiting,end desc="leader.onTransfer: a timeout-now request is only created for a voter other than the leader that is reachable and fully caught up; invalid targets are rejected at once with an error and leave no transfer in progress" bounds="n=2..3 nodes, symbolic voter flags, match indexes and reachability; target any id 0..n+1"
func VH_C16_onTransfer() {
	n := 2 + vChoice(2)
	r, l := vTransferLeader(n)
	target := uint64(vChoice(n + 2)) // 0 = any
	t := transferLdr{task: newTask(), target: target, timeout: time.Duration(vI64("timeout"))}
	// which followers are eligible successors right now
	var eligible, eligibleTarget bool
	for id, repl := range l.repls {
		ok := r.configs.Latest.Nodes[id].Voter && repl.status.noContact.IsZero() && repl.status.matchIndex == r.lastLogIndex
		if ok {
			eligible = true
			if id == target {
				eligibleTarget = true
			}
		}
	}
	l.onTransfer(t)
	if l.transfer.inProgress() {
		vReach("started")
		vAssert(!isClosed(t.Done()), "T-not-replied-while-in-progress")
		vAssert(l.transfer.term == r.term, "T-records-term")
		if vSpawnCount() > 0 {
			vReach("sent")
			vAssert(vSpawnCount() == 1 && l.transfer.respCh != nil, "T-one-request")
			if target != 0 {
				vAssert(eligibleTarget, "T-given-target-must-be-caught-up-reachable-voter")
			} else {
				vAssert(eligible, "T-any-target-must-be-caught-up-reachable-voter")
			}
		} else {
			vReach("waiting")
			if target != 0 {
				vAssert(!eligibleTarget, "T-eligible-target-is-asked-at-once")
			} else {
				vAssert(!eligible, "T-eligible-target-is-asked-at-once")
			}
		}
		// while in progress: no new entries, no membership changes
		ne := &newEntry{entry: &entry{typ: entryUpdate}, task: newTask()}
		last := r.lastLogIndex
		l.storeEntry(ne)
		vAssert(r.lastLogIndex == last && isClosed(ne.Done()) && ne.Err() != nil, "T-updates-rejected-while-in-progress")
		vAssert(!l.canChangeConfig(), "T-no-config-change-while-in-progress")
	} else {
		vReach("rejected")
		vAssert(isClosed(t.Done()) && t.Err() != nil, "T-invalid-request-fails-with-error")
		vAssert(vSpawnCount() == 0, "T-no-request-for-invalid-target")
		nd, member := r.configs.Latest.Nodes[target]
		vAssert(r.configs.Latest.numVoters() == 1 || target == r.nid || (target != 0 && (!member || !nd.Voter)), "T-rejected-only-for-a-reason")
	}
	vReach("end")
}

//verif:check C16 stubs=env,valuefile,abslog reach=ok,failed,end desc="leader.release with a transfer in progress: the task completes exactly once, with success iff the leader's term advanced past the term recorded at request time" bounds="n=2 nodes; all 64-bit terms"
func VH_C16_release_reply() {
	r, l := vTransferLeader(2)
	t := transferLdr{task: newTask(), target: 0, timeout: 1000}
	l.onTransfer(t)
	vAssume(l.transfer.inProgress())
	t0 := l.transfer.term
	// leadership ends: either a higher term was seen (setTerm) or quorum was lost
	if vBool("higherTerm") {
		nt := vU64("newTerm")
		vAssume(nt > r.term)
		r.setState(Follower)
		r.setTerm(nt)
	} else {
		r.setState(Follower)
	}
	l.release()
	vAssert(isClosed(t.Done()), "R-transfer-task-completed")
	if t.Err() == nil {
		vReach("ok")
		vAssert(r.term > t0, "R-success-only-if-term-advanced")
	} else {
		vReach("failed")
		vAssert(r.term == t0, "R-error-iff-term-unchanged")
	}
	vAssert(!l.transfer.inProgress(), "R-transfer-cleared")
	vReach("end")
}

//verif:check C16 stubs=env,valuefile,abslog reach=timeout,end desc="transfer timeout / rejection: the task fails with an error, the transfer is cleared and membership actions are re-enabled" bounds="n=2..3 nodes"
func VH_C16_timeout() {
	n := 2 + vChoice(2)
	r, l := vTransferLeader(n)
	_ = r
	t := transferLdr{task: newTask(), target: 0, timeout: 1000}
	l.onTransfer(t)
	vAssume(l.transfer.inProgress())
	l.onTransferTimeout()
	vReach("timeout")
	vAssert(isClosed(t.Done()) && t.Err() != nil, "TO-fails-with-error")
	vAssert(!l.transfer.inProgress() && !l.transfer.targetChosen(), "TO-cleared")
	vAssert(l.canChangeConfig(), "TO-config-actions-re-enabled")
	vReach("end")
}

//verif:check C16,C17,C11 stubs=env,valuefile reach=stale-refused,accepted,end desc="a timeout-now request through Raft.onRequest, with any term: one that carries a term older than the node's (sent by a leader that has been deposed since, or delivered late) is refused and changes nothing - in particular it does not make the current leader or any follower of a newer term start an election; one of the current or a newer term makes a voter a candidate with the transfer permission" bounds="n<=3 nodes; node in any role; all 64-bit terms"
func VH_C16_timeoutNow_term() {
	r := vElectionNode(3)
	r.state = State(vU8("state"))
	vAssume(r.state == Follower || r.state == Candidate || r.state == Leader)
	r.leader = vU64("leader")
	vAssume(vImp(r.state == Leader, r.leader == r.nid))
	nd, member := r.configs.Latest.Nodes[r.nid]
	vAssume(member && nd.Voter)
	req := &timeoutNowReq{req{vU64("req.term"), vU64("req.src")}}
	vAssume(req.src != 0 && req.src != r.nid)
	s0, l0, t0, v0 := r.state, r.leader, r.term, r.votedFor
	res, err := r.onRequest(req, nil)
	vAssert(err == nil, "no-error")
	if req.term < t0 {
		vReach("stale-refused")
		vAssert(res != success, "TN-stale-timeout-now-refused")
		vAssert(r.state == s0 && r.leader == l0 && r.term == t0 && r.votedFor == v0 && !r.cnd.transfer, "TN-stale-timeout-now-changes-nothing")
	} else {
		vReach("accepted")
		vAssert(res == success && r.state == Candidate && r.cnd.transfer, "TN-voter-becomes-transfer-candidate")
	}
	vReach("end")
}

//verif:check C16,C17,C15 stubs=env,valuefile,abslog reach=asked,reply-error,reply-rejected,reply-ok,gave-up,retried,end desc="leader.onTimeoutNowResult for every outcome of the timeout-now request (transport error, rejected by the target, accepted): a transfer whose task has been answered is over - no further timeout-now request is created, no timer of it stays armed, updates are accepted again; a transfer still in progress has its task unanswered, and at most one request outstanding; every request goes to a reachable, caught-up voter other than the leader" bounds="n=2..3 nodes, symbolic voter flags, match indexes and reachability; named or any target; one request and its outcome"
func VH_C16_onTimeoutNowResult() {
	n := 2 + vChoice(2)
	r, l := vTransferLeader(n)
	target := uint64(vChoice(n + 1)) // 0 = any
	t := transferLdr{task: newTask(), target: target, timeout: 1000}
	l.onTransfer(t)
	vAssume(l.transfer.inProgress() && vSpawnCount() == 1) // a request went out
	vReach("asked")
	var asked uint64
	for id, repl := range l.repls {
		if r.configs.Latest.Nodes[id].Voter && repl.status.noContact.IsZero() && repl.status.matchIndex == r.lastLogIndex {
			if target == 0 || target == id {
				asked = id // (one of the eligible ones; which one does not matter for what follows)
			}
		}
	}
	vAssume(asked != 0)
	var res rpcResponse
	switch vChoice(3) {
	case 0:
		res = rpcResponse{response: &timeoutNowResp{}, from: asked, err: vIOError{"connection reset"}}
		vReach("reply-error")
	case 1:
		res = rpcResponse{response: &timeoutNowResp{resp{term: r.term, result: staleTerm}}, from: asked}
		vReach("reply-rejected")
	case 2:
		res = rpcResponse{response: &timeoutNowResp{resp{term: r.term, result: success}}, from: asked}
		vReach("reply-ok")
	}
	l.onTimeoutNowResult(res)
	if isClosed(t.Done()) {
		vReach("gave-up")
		vAssert(t.Err() != nil, "TR-answered-with-an-error")
		vAssert(!l.transfer.inProgress() && !l.transfer.targetChosen(), "TR-answered-transfer-is-over")
		vAssert(vSpawnCount() == 1, "TR-no-timeout-now-after-the-task-was-answered")
		ne := &newEntry{entry: &entry{typ: entryUpdate}, task: newTask()}
		last := r.lastLogIndex
		l.storeEntry(ne)
		vAssert(r.lastLogIndex == last+1, "TR-updates-accepted-again")
	} else {
		vAssert(l.transfer.inProgress(), "TR-unanswered-transfer-is-in-progress")
		vAssert(vSpawnCount() <= 2, "TR-at-most-one-retry")
		if vSpawnCount() == 2 {
			vReach("retried")
			vAssert(l.transfer.respCh != nil, "TR-retry-is-outstanding")
		}
	}
	vReach("end")
}
