package raft

import "time"

// C09: compaction after a snapshot on a leader, relative to followers' progress and to the views replications hold.

//verif:stub env raft.durationFor vDurationFor

func vDurationFor(bandwidth int64, n int64) time.Duration { return 0 }

// vCompactLeader: leader with a 3-entry log in up to 3 segments, everything committed and applied up to c,
// replications holding a view of the whole log (as addReplication / the last notifyFlr gave them).
func vCompactLeader(n int) (*Raft, *leader, *vAbsLog) {
	r, l, a := vMkLeader(n, 3, true)
	cfg := r.configs.Latest
	vAssume(cfg.numVoters() >= 1 && l.node.Voter)
	r.configs.Committed = cfg
	vAssume(cfg.Index <= r.commitIndex)
	// segment boundaries: any subset of the interior indexes
	for k := 1; k < len(a.ents); k++ {
		if vChoice(2) == 1 {
			a.bounds = append(a.bounds, a.base+uint64(k))
		}
	}
	a.flushed = a.last()
	if r.snaps.index > 0 {
		vPublishSnapshot(r, r.snaps.index, r.snaps.term, cfg, 10)
	}
	for _, repl := range l.repls {
		repl.log = r.log.ViewAt(l.removeLTE, r.lastLogIndex)
		repl.snaps = r.snaps
		repl.ldrLastIndex = r.lastLogIndex
		repl.matchIndex = repl.status.matchIndex
		repl.hbTimeout = 1000
		repl.timer = vMkTimer()
	}
	return r, l, a
}

//verif:check C09 stubs=env,valuefile,abslog,snapfs reach=compacted,notified,end desc="Raft.onSnapshotTaken on a leader, then the next update: compaction is bounded by the snapshot index and by every follower's match index, whole segments only; the leader's removeLTE bookkeeping stays at or above the first index so that the views built for replications afterwards exist" bounds="n=2 nodes, log of 3 entries in 1..3 segments, symbolic match index and reachability, snapshot index anywhere in (old snapshot, applied]"
func VH_C09_onSnapshotTaken() { vOnSnapshotTaken(2) }

//verif:check C09 tier=thorough stubs=env,valuefile,abslog,snapfs reach=compacted,notified,end desc="as VH_C09_onSnapshotTaken with two followers" bounds="n=3 nodes"
func VH_C09_onSnapshotTaken_n3() { vOnSnapshotTaken(3) }

func vOnSnapshotTaken(n int) {
	r, l, a := vCompactLeader(n)
	prev0 := a.prev
	// a snapshot was taken at the FSM's applied index
	si := vU64("newSnap.index")
	vAssume(si > r.snaps.index && si <= r.commitIndex && si > a.base)
	si = a.base + uint64(vConcreteInt(int(si-a.base)))
	st := vTermAt(a, a.base, si)
	vPublishSnapshot(r, si, st, r.configs.Committed, 10)
	r.snapTakenCh = make(chan snapTaken, 1)
	t := takeSnapshot{task: newTask()}
	var minMatch uint64 = si
	for _, repl := range l.repls {
		if repl.status.matchIndex < minMatch {
			minMatch = repl.status.matchIndex
		}
	}
	r.onSnapshotTaken(snapTaken{req: t, meta: snapshotMeta{index: si, term: st, config: r.configs.Committed, size: 10}})
	vAssert(isClosed(t.Done()) && t.Err() == nil, "snapshot-task-completed")
	vAssert(a.prev >= prev0, "S2-first-index-only-forward")
	vAssert(a.prev <= r.snaps.index, "S2-compaction-bounded-by-snapshot")
	vAssert(a.prev <= minMatch || a.prev == prev0, "S2-compaction-bounded-by-every-followers-match-index")
	if a.prev > prev0 {
		vReach("compacted")
	}
	vAssert(l.removeLTE >= a.prev, "S2-leader-removeLTE-at-or-above-first-index/after-immediate-compaction")
	// the next client update notifies every replication with a fresh view: it must exist
	ne := &newEntry{entry: &entry{typ: entryUpdate, data: []byte{1}}, task: newTask()}
	l.storeEntry(ne)
	for _, repl := range l.repls {
		vAssert(len(repl.leaderUpdateCh) == 1, "follower-notified")
		u := <-repl.leaderUpdateCh
		vReach("notified")
		vAssert(u.log != nil, "S2-view-for-replication-exists/after-immediate-compaction")
	}
	vReach("end")
}

//verif:check C09 stubs=env,valuefile,abslog,snapfs reach=compacted,read,snapshot-fallback,end desc="a replication that still holds the view it was given before the compaction builds its next request: every log position it reads is still mapped, or the read reports ErrNotFound so that it falls back to sending the snapshot" bounds="n=2 nodes, log of 3 entries in 1..3 segments, symbolic match/next index of the follower"
func VH_C09_replication_reads() {
	r, l, a := vCompactLeader(2)
	prev0 := a.prev
	si := vU64("newSnap.index")
	vAssume(si > r.snaps.index && si <= r.commitIndex && si > a.base)
	si = a.base + uint64(vConcreteInt(int(si-a.base)))
	st := vTermAt(a, a.base, si)
	vPublishSnapshot(r, si, st, r.configs.Committed, 10)
	var repl *replication
	for _, x := range l.repls {
		repl = x
	}
	repl.nextIndex = vU64("nextIndex")
	vAssume(repl.nextIndex > repl.matchIndex && repl.nextIndex <= r.lastLogIndex+1)
	r.snapTakenCh = make(chan snapTaken, 1)
	r.onSnapshotTaken(snapTaken{req: takeSnapshot{task: newTask()}, meta: snapshotMeta{index: si, term: st, config: r.configs.Committed, size: 10}})
	if a.prev > prev0 {
		vReach("compacted")
	}
	// the replication goroutine has not yet looked at its leaderUpdateCh: it builds the next request from its old view
	c, _ := vMkConn(nil)
	req := &appendReq{req: req{r.term, r.nid}, ldrCommitIndex: r.commitIndex}
	err := repl.writeAppendEntriesReq(c, req, vBool("sendEntries"))
	if err == nil {
		vReach("read")
	} else {
		vReach("snapshot-fallback")
	}
	vReach("end")
}

//verif:check C09 stubs=env,valuefile,abslog,snapfs reach=deferred-pending,acked,deferred-compacted,end desc="deferred compaction (leader.removeLTE / replication.onLeaderUpdate / leader.checkLogCompact): after a snapshot whose compaction has to wait for replications, each replication picks up its new view (or not yet) through the real onLeaderUpdate and the leader processes the acknowledgements through the real checkReplUpdates: the log's first index moves past a position only after EVERY replication holds a view that starts at or after it (nobody is still reading what is unmapped), never beyond the snapshot, and once all have acknowledged the compaction does happen" bounds="n=2..3 nodes, log of 3 entries in 1..3 segments, symbolic match indexes and reachability, any subset of replications has picked up its notification"
func VH_C09_deferred_compaction() {
	n := 2 + vChoice(2)
	r, l, a := vCompactLeader(n)
	si := vU64("newSnap.index")
	vAssume(si > r.snaps.index && si <= r.commitIndex && si > a.base)
	si = a.base + uint64(vConcreteInt(int(si-a.base)))
	st := vTermAt(a, a.base, si)
	vPublishSnapshot(r, si, st, r.configs.Committed, 10)
	r.snapTakenCh = make(chan snapTaken, 1)
	r.onSnapshotTaken(snapTaken{req: takeSnapshot{task: newTask()}, meta: snapshotMeta{index: si, term: st, config: r.configs.Committed, size: 10}})
	p1 := a.prev
	pending := l.removeLTE > a.prev
	if pending {
		vReach("deferred-pending")
	}
	// each replication goroutine gets round to its leaderUpdateCh, or has not yet
	all := true
	for _, repl := range l.repls {
		if len(repl.leaderUpdateCh) == 1 && vChoice(2) == 1 {
			u := <-repl.leaderUpdateCh
			repl.onLeaderUpdate(u, &appendReq{})
			vReach("acked")
		}
		if len(repl.leaderUpdateCh) == 1 {
			all = false
		}
	}
	// the leader's loop receives the acknowledgements (checkReplUpdates drains whatever else is queued)
	if len(l.replUpdateCh) > 0 {
		l.checkReplUpdates(<-l.replUpdateCh)
	}
	vAssert(len(l.replUpdateCh) == 0, "updates-drained")
	vAssert(a.prev >= p1 && a.prev <= r.snaps.index, "S2-deferred-compaction-bounded-by-snapshot")
	if a.prev > p1 {
		vReach("deferred-compacted")
		for _, repl := range l.repls {
			vAssert(repl.log != nil && repl.log.PrevIndex() >= a.prev, "S3-unmapped-only-after-every-replication-switched-views")
		}
	}
	if pending && all {
		vAssert(a.prev == l.removeLTE, "S3-deferred-compaction-completes-once-all-acknowledged")
	}
	vAssert(l.removeLTE >= a.prev, "S2-leader-removeLTE-at-or-above-first-index")
	vReach("end")
}
