#!/bin/bash
# Regression over the seeded corpus, on scratch copies so that /repo and /verif/evidence stay untouched:
# a git worktree of /repo (VERIF_REPO) and a copy of /verif (VERIF_DIR). For every seeded/<id>: apply patch.diff,
# run the quick checks named in meta.json caught_by_checks, expect exit 1 from at least one, undo.
# Writes /verif/seeded/RESULTS.md. Usage: tools/seedall.sh [id-prefix]
set -u
SR=/tmp/seedrepo; SV=/tmp/seedverif
rm -rf $SV; git -C /repo worktree remove --force $SR 2>/dev/null; rm -rf $SR
git -C /repo worktree add -q --detach $SR HEAD || exit 3
mkdir -p $SV && rsync -a --exclude .git --exclude out --exclude evidence /verif/ $SV/ && mkdir -p $SV/evidence $SV/out
export VERIF_REPO=$SR VERIF_DIR=$SV
out=/verif/seeded/RESULTS.md
echo "| seed | property | checks run | detected by (exit 1) | clean tree restored |" > $out
echo "|---|---|---|---|---|" >> $out
cd $SV
for d in /verif/seeded/${1:-}*/; do
  id=$(basename $d)
  [ -f $d/meta.json ] || continue
  prop=$(python3 -c "import json;print(json.load(open('$d/meta.json'))['breaks_property'])")
  checks=$(python3 -c "import json;print(' '.join(json.load(open('$d/meta.json'))['caught_by_checks']))")
  (cd $SR && git apply $d/patch.diff 2>/dev/null) || { echo "| $id | $prop | - | PATCH DOES NOT APPLY (code since repaired or changed) | - |" >> $out; echo "$id: patch does not apply"; continue; }
  det=""
  for p in $checks; do
    timeout 1800 ./bin/vcheck $p > /tmp/seedall_${id}_$p.log 2>&1; ec=$?
    [ $ec -eq 1 ] && det="$det $p"
    [ $ec -eq 2 ] && det="$det $p(inconclusive)"
  done
  (cd $SR && git checkout -- .)
  st=$(cd $SR && git status --short | wc -l)
  echo "| $id | $prop | $checks | ${det:-NONE} | $([ $st -eq 0 ] && echo yes || echo NO) |" >> $out
  echo "$id: detected by:${det:- NONE}"
done
git -C /repo worktree remove --force $SR; rm -rf $SV /tmp/seedall_*.log
