#!/bin/bash
# Regression over the seeded corpus: for every /verif/seeded/<id>, apply patch.diff to /repo, run the quick checks named
# in meta.json caught_by_checks, expect exit 1 from at least one, undo. Writes /verif/seeded/RESULTS.md.
cd /verif
out=/verif/seeded/RESULTS.md
echo "| seed | property | checks run | detected by (exit 1) | clean tree restored |" > $out
echo "|---|---|---|---|---|" >> $out
for d in /verif/seeded/*/; do
  id=$(basename $d)
  [ -f $d/meta.json ] || continue
  prop=$(python3 -c "import json;print(json.load(open('$d/meta.json'))['breaks_property'])")
  checks=$(python3 -c "import json;print(' '.join(json.load(open('$d/meta.json'))['caught_by_checks']))")
  (cd /repo && git apply $d/patch.diff) || { echo "| $id | $prop | - | PATCH DOES NOT APPLY | - |" >> $out; continue; }
  det=""
  for p in $checks; do
    timeout 1800 ./bin/vcheck $p > /tmp/seedall_${id}_$p.log 2>&1; ec=$?
    [ $ec -eq 1 ] && det="$det $p"
    [ $ec -eq 2 ] && det="$det $p(inconclusive)"
  done
  (cd /repo && git checkout -- .)
  st=$(cd /repo && git status --short | wc -l)
  echo "| $id | $prop | $checks | ${det:-NONE} | $([ $st -eq 0 ] && echo yes || echo NO) |" >> $out
  echo "$id: detected by:${det:- NONE}"
done
