#!/usr/bin/env python3
"""Regenerates /verif/MANIFEST.json from the table below (kept in one place so it stays valid)."""
import json, os, sys

TECH = "bounded symbolic execution of the real Go code (go/ssa) with SMT (z3) deciding every assertion"
NOTE = ("Holds for all values within the stated bounds only (see evidence coverage.bounds). Trusted: go/ssa builder, z3, the engine's "
        "instruction semantics (validated against native execution by the translator-validation harnesses), and the environment models "
        "listed per run under evidence.assumptions (abstract log, value file, timers, sequentialised goroutines).")

# id -> (level text, design ref, extra note) ; absent => not_applicable with reason
CLAIMED = {
}
NOT_APPLICABLE = {
}

def load_tables():
    p = os.path.join(os.path.dirname(__file__), "manifest_table.json")
    t = json.load(open(p))
    return t["claimed"], t["not_applicable"]

def main():
    claimed, na = load_tables()
    checks = []
    for pid in sorted(claimed):
        c = claimed[pid]
        checks.append({
            "property_id": pid,
            "quick_cmd": f"./bin/vcheck --tier quick {pid}",
            "thorough_cmd": f"./bin/vcheck --tier thorough {pid}",
            "evidence_file": f"/verif/evidence/{pid}.json",
            "replay_cmd_template": "./bin/vcheck --replay {path}",
            "engine": "gosmt",
            "level_claimed": {"category": "other", "text": c["text"], "design_ref": c.get("design_ref", "DESIGN.md §5 " + pid)},
            "level_note": c.get("note", NOTE),
            "technique": c.get("technique", TECH),
        })
    m = {
        "version": 1,
        "setup_cmd": "cd /verif/engine && GOFLAGS=-mod=mod GOPROXY=off GOSUMDB=off GOTOOLCHAIN=local go build -o ../bin/ ./cmd/...",
        "hooks": {
            "guard": "verif",
            "enable": "none needed: harnesses are injected with go/packages overlays (in-package files zz_verif_*.go), /repo is never modified by a check",
            "baseline_off_cmd": "cd /repo && go test -vet=off -count=1 -timeout 25m ./...",
            "source_commits": [],
            "add_only": True,
        },
        "engines": [{
            "name": "gosmt", "path": "/verif/engine",
            "serves_properties": sorted(claimed),
            "kind_free_text": "symbolic executor for go/ssa (fork of x/tools go/ssa/interp with SMT-term values, path-wise re-execution DFS, if-conversion of pure regions) + z3 over SMT-LIB2",
        }],
        "checks": checks,
        "not_applicable": [{"property_id": k, "reason": na[k]} for k in sorted(na)],
        "notes": "All checks: exit 0 = held within bounds; 1 = VIOLATION (replayed counterexample); 2 = inconclusive (never reported as success). known_findings.json lists recorded genuine defects.",
    }
    json.dump(m, open("/verif/MANIFEST.json", "w"), indent=1)
    print("wrote MANIFEST.json:", len(checks), "checks,", len(na), "not_applicable")

main()
