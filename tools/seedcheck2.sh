#!/bin/bash
# usage: seedcheck2.sh <seed-id> <worktree> <prop> [<prop>...]
# Like seedcheck.sh, but never touches /repo or /verif/evidence: the checks run against the sub-agent's own worktree
# (VERIF_REPO, patch applied there) with a scratch copy of /verif (VERIF_DIR), so it can run beside runall.sh.
# Verifies the demonstration (fails with the change, passes without) and the suite record, runs the quick checks of the
# given properties, and leaves everything in /verif/seeded/<id>/.
set -u
export GOFLAGS=-mod=mod GOPROXY=off GOSUMDB=off GOTOOLCHAIN=local
id=$1; wt=$2; shift 2
out=/verif/seeded/$id; mkdir -p $out
cp $wt/seed_patch.diff $out/patch.diff
for f in $wt/zz_seed_test.go $wt/log/zz_seed_test.go; do [ -f $f ] && cp $f $out/demo_$(basename $(dirname $f))_zz_seed_test.go; done
[ -f $wt/SEED_REPORT.md ] && cp $wt/SEED_REPORT.md $out/SEED_REPORT.md
[ -f $wt/suite.txt ] && cp $wt/suite.txt $out/suite.txt
pkgdir=.; [ -f $wt/log/zz_seed_test.go ] && pkgdir=./log
cd $wt
# make sure the tree holds exactly the patch (plus untracked deliverables)
git checkout -q -- . && git checkout -q --detach $(git -C /repo rev-parse HEAD) && git apply $out/patch.diff || { echo "PATCH DOES NOT APPLY to a clean worktree at /repo's HEAD"; exit 3; }
echo "== demo WITH change"; (timeout 600 go test -vet=off -count=1 -run TestSeedDemo $pkgdir 2>&1 | grep -v "INFO\|WARN" | tail -4) | tee $out/demo_with.txt
git apply -R $out/patch.diff; echo "== demo WITHOUT change"; (timeout 600 go test -vet=off -count=1 -run TestSeedDemo $pkgdir 2>&1 | grep -v "INFO\|WARN" | tail -3) | tee $out/demo_without.txt; git apply $out/patch.diff
SV=/tmp/seedverif_$id
rm -rf $SV; mkdir -p $SV && rsync -a --exclude .git --exclude out --exclude evidence --exclude seeded /verif/ $SV/ && mkdir -p $SV/evidence $SV/out
# the demonstration test files must not be part of the analysed package
mkdir -p /tmp/seedhold_$id; for f in $wt/zz_seed_test.go $wt/log/zz_seed_test.go; do [ -f $f ] && mv $f /tmp/seedhold_$id/$(basename $(dirname $f))_zz_seed_test.go; done
cd $SV
for p in "$@"; do
  VERIF_REPO=$wt VERIF_DIR=$SV timeout 1800 ./bin/vcheck $p > $out/check_$p.txt 2>&1; ec=$?
  echo "== check $p exit=$ec"; grep "VIOLATION\|INCONCLUSIVE\|^OK\|ERROR" $out/check_$p.txt | head -5
done
for f in /tmp/seedhold_$id/*; do [ -f $f ] || continue; b=$(basename $f); case $b in log_*) mv $f $wt/log/zz_seed_test.go;; *) mv $f $wt/zz_seed_test.go;; esac; done
rm -rf $SV /tmp/seedhold_$id
