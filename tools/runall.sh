#!/bin/bash
# runs every claimed check's quick (or $1) tier, prints id, exit code, seconds
tier=${1:-quick}
cd /verif
for id in $(python3 -c "import json;print(' '.join(c['property_id'] for c in json.load(open('MANIFEST.json'))['checks']))"); do
  t0=$(date +%s)
  timeout 3600 ./bin/vcheck --tier $tier $id > /tmp/runall_$id.log 2>&1
  ec=$?
  echo "$id exit=$ec $(( $(date +%s) - t0 ))s $(grep -c KNOWN-FINDING /tmp/runall_$id.log) known"
done
