#!/bin/bash
# usage: seedcheck.sh <seed-id> <worktree> <prop> [<prop>...]
# verifies the demonstration in the worktree (fails with change, passes without) and runs our quick checks for the
# given properties against /repo with the patch applied (then undoes it).
set -u
export GOFLAGS=-mod=mod GOPROXY=off GOSUMDB=off GOTOOLCHAIN=local
id=$1; wt=$2; shift 2
out=/verif/seeded/$id; mkdir -p $out
cp $wt/seed_patch.diff $out/patch.diff
for f in $wt/zz_seed_test.go $wt/log/zz_seed_test.go; do [ -f $f ] && cp $f $out/demo_$(basename $(dirname $f))_zz_seed_test.go; done
[ -f $wt/SEED_REPORT.md ] && cp $wt/SEED_REPORT.md $out/SEED_REPORT.md
pkgdir=.; [ -f $wt/log/zz_seed_test.go ] && pkgdir=./log
cd $wt
echo "== demo WITH change"; (timeout 600 go test -vet=off -count=1 -run TestSeedDemo $pkgdir 2>&1 | grep -v "INFO\|WARN" | tail -4) | tee $out/demo_with.txt
git apply -R $out/patch.diff; echo "== demo WITHOUT change"; (timeout 600 go test -vet=off -count=1 -run TestSeedDemo $pkgdir 2>&1 | grep -v "INFO\|WARN" | tail -3) | tee $out/demo_without.txt; git apply $out/patch.diff
cd /repo && git apply $out/patch.diff || { echo "PATCH DOES NOT APPLY to /repo"; exit 3; }
cd /verif
for p in "$@"; do
  timeout 1800 ./bin/vcheck $p > $out/check_$p.txt 2>&1; ec=$?
  echo "== check $p exit=$ec"; grep "VIOLATION\|INCONCLUSIVE\|^OK\|ERROR" $out/check_$p.txt | head -5
done
cd /repo && git checkout -- . && git status --short | head -3
