package raft

import (
	"fmt"
	"io/ioutil"
	"os"
	"path/filepath"
	"sort"
	"strings"
	"testing"
	"time"
)

// configHistory returns the configs found in the log of r, in log order,
// rendered as "index:{id(v|n)[,action] ...}".
func configHistory(t *testing.T, r *Raft) (hist []string, confs []Config) {
	t.Helper()
	err := r.inspect(func(r *Raft) {
		for i := r.log.PrevIndex() + 1; i <= r.lastLogIndex; i++ {
			e := &entry{}
			r.storage.mustGetEntry(i, e)
			if e.typ != entryConfig {
				continue
			}
			c := Config{}
			if err := c.decode(e); err != nil {
				panic(err)
			}
			confs = append(confs, c)
			var nodes []string
			for id := uint64(1); id <= 9; id++ {
				n, ok := c.Nodes[id]
				if !ok {
					continue
				}
				s := fmt.Sprintf("%d", id)
				if n.Voter {
					s += "v"
				} else {
					s += "n"
				}
				if n.Action != None {
					s += "," + n.Action.String()
				}
				nodes = append(nodes, s)
			}
			hist = append(hist, fmt.Sprintf("%d:{%s}", i, strings.Join(nodes, " ")))
		}
	})
	if err != nil {
		t.Fatal(err)
	}
	return
}

// TestReview1: in a cluster where the config change commits at once (a lone voter
// remaining), leader.onChangeConfig stores the requested config a second time,
// after the action in it has already been carried out and committed.
//
// two voters {1,2}. user asks to demote the follower. leader stores
// {ldr voter, flr nonvoter}, which it commits alone immediately (it is the only
// voter of that config), from within checkConfigActions. back in onChangeConfig,
// configs.IsCommitted() is true again, which is taken as "no action was performed",
// and the config as given by user {ldr voter, flr voter+demote} is stored also, with
// the same task. the demoted node is a voter again in the log, and is demoted again.
func TestReview1(t *testing.T) {
	c, ldr, flrs := launchCluster(t, 2)
	defer c.shutdown()
	c.waitCommitReady(ldr)
	flr := flrs[0]

	before, _ := configHistory(t, ldr)

	config := c.info(ldr).Configs.Latest
	if err := config.SetAction(flr.nid, Demote); err != nil {
		t.Fatal(err)
	}
	task := ChangeConfig(config)
	if _, err := waitTask(ldr, task, c.longTimeout); err != nil {
		t.Fatalf("changeConfig: %v", err)
	}
	c.ensure(waitTask(ldr, WaitForStableConfig(), c.longTimeout))

	after, confs := configHistory(t, ldr)
	added := after[len(before):]
	t.Logf("configs before: %v", before)
	t.Logf("configs added by one ChangeConfig(demote %d): %v", flr.nid, added)

	// once the node is nonvoter in a config of the log, it
	// must not be seen as voter in a later config
	demoted := false
	for i, conf := range confs {
		n := conf.Nodes[flr.nid]
		if !n.Voter {
			demoted = true
		} else if demoted {
			t.Errorf("node %d was demoted, but config %s makes it voter again", flr.nid, after[i])
		}
	}
	if len(added) != 1 {
		t.Errorf("one ChangeConfig with one demote action stored %d config entries %v, want 1", len(added), added)
	}
}

// TestReview2: an entry which leader and the up-to-date followers store fine
// (log grows the next segment to fit a big entry), kills a follower whose log has
// just been reset by InstallSnapshot: its only segment is empty, log.Append answers
// ErrExceedsSegmentSize for that case, storage.appendEntry panics with it and the
// node terminates itself. it dies the same way on every restart (snapshot + same entry).
func TestReview2(t *testing.T) {
	c := newCluster(t)
	c.opt.LogSegmentSize = 1024
	ldr, _ := c.ensureLaunch(3)
	defer c.shutdown()

	<-c.sendUpdates(ldr, 1, 30).Done()

	// add nonvoter M4 (not yet launched)
	c.ensure(c.waitAddNonvoter(ldr, 4, c.id2Addr(4), false))
	c.waitCatchup()

	logCompacted := c.registerFor(eventLogCompacted, ldr)
	defer c.unregister(logCompacted)
	c.takeSnapshot(ldr, 1, nil)
	c.ensure(logCompacted.waitForEvent(c.longTimeout))

	// first entry after the snapshot is bigger than a log segment.
	// leader and the two followers accept it
	big := strings.Repeat("x", 2000)
	if _, err := waitUpdate(ldr, big, c.longTimeout); err != nil {
		t.Fatalf("big update on leader: %v", err)
	}
	c.waitFSMLen(31)

	// now launch M4: it gets the snapshot, then the big entry
	m4 := c.launch(1, false)[4]
	ok := waitForCondition(func() bool {
		return fsm(m4).len() == 31 || m4.isClosed()
	}, c.commitTimeout, c.longTimeout)
	if !ok {
		t.Fatalf("M4 neither caught up nor died: fsmLen=%d", fsm(m4).len())
	}
	if m4.isClosed() {
		err := c.serveError(m4)
		t.Fatalf("M4 terminated itself while catching up after InstallSnapshot: fsmLen=%d, Serve returned: %v", fsm(m4).len(), err)
	}
}

// TestReview3: node dies in the middle of storage.clearLog (log.Reset removes segment
// files one after another, oldest first), while discarding a log that contradicts the
// snapshot just installed. the surviving suffix of the old log starts after the snapshot
// index. openStorage detects only "log behind snapshot" and "entry at snapshot index has
// another term"; here the log no longer has the entry at snapshot index, so the stale
// suffix is kept: there is a hole between snapshot and log, and last log index/term are
// those of entries that were to be discarded.
func TestReview3(t *testing.T) {
	dir, err := ioutil.TempDir(tempDir, "review3")
	if err != nil {
		t.Fatal(err)
	}
	if err := SetIdentity(dir, 1, 1); err != nil {
		t.Fatal(err)
	}
	opt := Options{
		HeartbeatTimeout: time.Second,
		PromoteThreshold: time.Second,
		Bandwidth:        256 * 1024,
		LogSegmentSize:   1024,
		SnapshotsRetain:  1,
	}
	nodes := map[uint64]Node{
		1: {ID: 1, Addr: "M1:8888", Voter: true},
		2: {ID: 2, Addr: "M2:8888", Voter: true},
		3: {ID: 3, Addr: "M3:8888", Voter: true},
	}
	if err := bootstrapStorage(dir, opt, nodes); err != nil {
		t.Fatal(err)
	}

	// node was leader of term 1, isolated: it has a long tail of term 1
	// entries which never got committed, spanning many small segments
	s, err := openStorage(dir, opt)
	if err != nil {
		t.Fatal(err)
	}
	for i := uint64(2); i <= 60; i++ {
		s.appendEntry(&entry{index: i, term: 1, typ: entryUpdate, data: []byte(strings.Repeat("j", 50))})
	}
	s.commitLog(s.lastLogIndex)
	var segs []uint64 // prevIndex of each segment
	{
		matches, _ := filepath.Glob(filepath.Join(dir, "log", "*.log"))
		for _, m := range matches {
			var p uint64
			fmt.Sscanf(filepath.Base(m), "%d.log", &p)
			segs = append(segs, p)
		}
		sort.Slice(segs, func(i, j int) bool { return segs[i] < segs[j] })
	}
	if len(segs) < 3 {
		t.Fatalf("want at least 3 segments, got %v", segs)
	}
	last := segs[len(segs)-1] // prevIndex of the last segment

	// new leader of term 2 sends InstallSnapshot with an index that falls
	// in our stale tail, before the last segment. (what onInstallSnapRequest does:)
	snapIndex := last - 1
	sink, err := s.snaps.new(snapIndex, 2, Config{Nodes: nodes, Index: 1, Term: 1})
	if err != nil {
		t.Fatal(err)
	}
	if _, err = sink.done(nil); err != nil {
		t.Fatal(err)
	}
	term, err := s.getEntryTerm(snapIndex)
	if err != nil || term == 2 {
		t.Fatalf("setup: want a contradicting entry at %d: term=%d err=%v", snapIndex, term, err)
	}
	// ...so the log has to be discarded: storage.clearLog -> log.Reset removes the
	// segment files oldest first. we die when all but the last one are removed
	if err := s.log.Close(); err != nil {
		t.Fatal(err)
	}
	for _, p := range segs[:len(segs)-1] {
		if err := os.Remove(filepath.Join(dir, "log", fmt.Sprintf("%d.log", p))); err != nil {
			t.Fatal(err)
		}
	}

	// restart
	s, err = openStorage(dir, opt)
	if err != nil {
		t.Fatalf("node can not be started again after it died in the middle of clearLog (surviving log suffix starts after snapshot index %d, left as it is; entries between are looked up): openStorage: %v", snapIndex, err)
	}
	t.Logf("after restart: snapshot(index=%d term=%d) log(prevIndex=%d lastIndex=%d) lastLogIndex=%d lastLogTerm=%d",
		s.snaps.index, s.snaps.term, s.log.PrevIndex(), s.log.LastIndex(), s.lastLogIndex, s.lastLogTerm)
	if s.log.PrevIndex() > s.snaps.index {
		t.Errorf("hole between snapshot and log: snapshot index %d, log starts at %d. entries %d..%d are nowhere",
			s.snaps.index, s.log.PrevIndex()+1, s.snaps.index+1, s.log.PrevIndex())
	}
	if s.lastLogIndex != snapIndex || s.lastLogTerm != 2 {
		t.Errorf("log that was being discarded is back: last log index/term = %d/%d, want %d/%d (that of snapshot)",
			s.lastLogIndex, s.lastLogTerm, snapIndex, 2)
	}
}
