package raft

import (
	"io/ioutil"
	"os"
	"path/filepath"
	"testing"
)

// finding (al): the storage directory's path was used as part of a filepath.Glob pattern. with a directory
// whose name has a glob meta character, the files stored in it are not found again: term and vote are forgotten
// at restart, identity can be set again to something else
func TestVerifFindingAL(t *testing.T) {
	base, err := ioutil.TempDir("", "verif-al")
	if err != nil {
		t.Fatal(err)
	}
	defer os.RemoveAll(base)
	for _, name := range []string{"node[1]", `g\\\`, "plain"} {
		dir := filepath.Join(base, name)
		if err := os.Mkdir(dir, 0700); err != nil {
			t.Fatal(err)
		}
		v, err := openValue(dir, ".term")
		if err != nil {
			t.Fatalf("%q: %v", name, err)
		}
		if err := v.set(7, 3); err != nil {
			t.Fatalf("%q: %v", name, err)
		}
		v, err = openValue(dir, ".term") // restart
		if err != nil {
			t.Errorf("%q: reopen: %v", name, err)
			continue
		}
		if v.v1 != 7 || v.v2 != 3 {
			t.Errorf("%q: stored term=7 vote=3, after restart term=%d vote=%d", name, v.v1, v.v2)
		}
		if err := SetIdentity(dir, 1, 1); err != nil {
			t.Fatalf("%q: %v", name, err)
		}
		if err := SetIdentity(dir, 2, 2); err != ErrIdentityAlreadySet {
			t.Errorf("%q: identity (1,1) is set. SetIdentity(2,2) returned %v, want ErrIdentityAlreadySet", name, err)
		}
	}
}
