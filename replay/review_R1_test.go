package raft

import (
	"bufio"
	"bytes"
	"fmt"
	"io"
	"io/ioutil"
	"net"
	"testing"
	"time"
)

// ---------------------------------------------------------------------
// helpers

// reviewConn is a net.Conn that reads from r and records what is written
type reviewConn struct {
	r io.Reader
	w bytes.Buffer
}

func (c *reviewConn) Read(b []byte) (int, error) {
	if c.r == nil {
		return 0, io.EOF
	}
	return c.r.Read(b)
}
func (c *reviewConn) Write(b []byte) (int, error)      { return c.w.Write(b) }
func (c *reviewConn) Close() error                     { return nil }
func (c *reviewConn) LocalAddr() net.Addr              { return nil }
func (c *reviewConn) RemoteAddr() net.Addr             { return nil }
func (c *reviewConn) SetDeadline(time.Time) error      { return nil }
func (c *reviewConn) SetReadDeadline(time.Time) error  { return nil }
func (c *reviewConn) SetWriteDeadline(time.Time) error { return nil }

func reviewNewConn(in []byte) (*conn, *reviewConn) {
	rc := &reviewConn{r: bytes.NewReader(in)}
	return &conn{rwc: rc, bufr: bufio.NewReader(rc), bufw: bufio.NewWriter(rc)}, rc
}

func reviewOptions() Options {
	return Options{
		HeartbeatTimeout: time.Second,
		PromoteThreshold: time.Second,
		Bandwidth:        256 * 1024,
		LogSegmentSize:   4 * 1024,
		SnapshotsRetain:  1,
	}
}

func reviewConfig(n int) Config {
	nodes := make(map[uint64]Node)
	for i := 1; i <= n; i++ {
		id := uint64(i)
		nodes[id] = Node{ID: id, Addr: fmt.Sprintf("M%d:8888", id), Voter: true}
	}
	return Config{Nodes: nodes, Index: 1, Term: 1}
}

// reviewNode makes a node with real storage in a temp dir, bootstrapped
// with n voters. log has the config entry at index 1 (term 1)
func reviewNode(t *testing.T, nid uint64, n int) *Raft {
	t.Helper()
	dir, err := ioutil.TempDir(tempDir, "review")
	if err != nil {
		t.Fatal(err)
	}
	if err := SetIdentity(dir, 1234, nid); err != nil {
		t.Fatal(err)
	}
	r, err := New(reviewOptions(), &fsmMock{}, dir)
	if err != nil {
		t.Fatal(err)
	}
	// note: not using storage.bootstrap, because Config.encode depends on map iteration
	// order: all nodes must get the same bytes for the entry at index 1
	config := reviewConfig(n)
	e, ok := reviewConfigEntries[n]
	if !ok {
		e = config.encode()
		reviewConfigEntries[n] = e
	}
	r.storage.appendEntry(e)
	r.storage.commitLog(1)
	r.setTerm(1)
	r.changeConfig(config)
	return r
}

var reviewConfigEntries = make(map[int]*entry)

func reviewUpdate(index, term uint64, data string) *entry {
	return &entry{index: index, term: term, typ: entryUpdate, data: []byte(data)}
}

func reviewEncode(t *testing.T, ee ...*entry) []byte {
	t.Helper()
	buf := new(bytes.Buffer)
	for _, e := range ee {
		if err := e.encode(buf); err != nil {
			t.Fatal(err)
		}
	}
	return buf.Bytes()
}

// reviewLog returns the entries in log of r as map[index]entry
func reviewLog(r *Raft) map[uint64]*entry {
	m := make(map[uint64]*entry)
	for i := r.log.PrevIndex() + 1; i <= r.lastLogIndex; i++ {
		e := &entry{}
		r.storage.mustGetEntry(i, e)
		m[i] = e
	}
	return m
}

func reviewSame(a, b *entry) bool {
	return a.index == b.index && a.term == b.term && a.typ == b.typ && bytes.Equal(a.data, b.data)
}

func (e *entry) reviewString() string {
	return fmt.Sprintf("(index:%d term:%d typ:%d data:%q)", e.index, e.term, e.typ, e.data)
}

// reviewLogMatching checks property C04 between two logs
func reviewLogMatching(a, b map[uint64]*entry) error {
	for i, ea := range a {
		eb, ok := b[i]
		if !ok || ea.term != eb.term {
			continue
		}
		if !reviewSame(ea, eb) {
			return fmt.Errorf("entries with same index %d and term %d differ: %s %s", i, ea.term, ea.reviewString(), eb.reviewString())
		}
		for j := uint64(1); j < i; j++ {
			pa, oka := a[j]
			pb, okb := b[j]
			if oka && okb && !reviewSame(pa, pb) {
				return fmt.Errorf("both logs have entry (index:%d term:%d), but they differ at earlier index %d: %s %s",
					i, ea.term, j, pa.reviewString(), pb.reviewString())
			}
		}
	}
	return nil
}

// ---------------------------------------------------------------------

// TestReview1: C04 (log matching)
//
// a leader that is deposed by an appendEntries request of newer leader, truncates
// and rewrites its log inside the request handler (rpc.go onAppendEntriesRequest).
// its replication goroutines are stopped only after the handler returns
// (stateLoop -> leader.release -> close(repl.stopCh)), and they read the entries
// from a view of the same log. so a replication of the deposed leader can send,
// in the name of its old term, a batch that is mix of entries of new leader and
// its own removed entries. a follower that has not yet heard of the new term
// accepts that batch.
//
// 5 voters: L=M1 F=M2 N=M3 M4 M5
//  - all have 1..3. L is leader of term 2, has 4..7 (term 2) which are not on anyone else
//  - L->F replication has found matchIndex=3, is about to send 4..7
//  - N wins term 3 with votes of M3, M4, M5. F still is in term 2 and follows L
//  - N sends to L: prev=3, entries 4'(t3) 5'(t3). L becomes follower, removes 4..7, appends 4' 5'
//  - L->F replication (not yet stopped) writes its request: prev=3, 4 entries
//  - F handles that request
// now F has 4'(t3) 5'(t3) 6(t2) 7(t2), where as L earlier had 4(t2) 5(t2) 6(t2) 7(t2):
// same (index 6, term 2) in both, but different prefixes
func TestReview1(t *testing.T) {
	// entries of N have same size as entries of L that they replace. (if not, what follows
	// them in the batch sent by L is not even an entry: what F does depends on those bytes)
	cmd4, cmd5 := "cmd4-by-N", "cmd5-by-N"
	L, F := reviewNode(t, 1, 5), reviewNode(t, 2, 5)
	for _, r := range []*Raft{L, F} {
		r.setTerm(2)
		r.storage.appendEntry(reviewUpdate(2, 2, "cmd2-by-L"))
		r.storage.appendEntry(reviewUpdate(3, 2, "cmd3-by-L"))
		r.storage.commitLog(3)
		r.setLeader(1)
	}

	// L is leader of term 2, has 4 more entries
	L.state = Leader
	for i := uint64(4); i <= 7; i++ {
		L.storage.appendEntry(reviewUpdate(i, 2, fmt.Sprintf("cmd%d-by-L", i)))
	}
	logOfLeaderL := reviewLog(L) // log of L, at the time it is leader of term 2

	// replication L->F, as made by leader.addReplication/notifyFlr.
	// it has found that F matches upto 3
	repl := &replication{
		node:           L.configs.Latest.Nodes[2],
		rtime:          newRandTime(),
		status:         replicationStatus{id: 2, node: L.configs.Latest.Nodes[2]},
		ldrStartIndex:  2,
		ldrLastIndex:   L.lastLogIndex,
		matchIndex:     3,
		nextIndex:      4,
		hbTimeout:      L.hbTimeout,
		timer:          newSafeTimer(),
		bandwidth:      L.bandwidth,
		log:            L.storage.log.ViewAt(L.log.PrevIndex(), L.lastLogIndex),
		snaps:          L.storage.snaps,
		stopCh:         make(chan struct{}),
		replUpdateCh:   make(chan replUpdate, 10),
		leaderUpdateCh: make(chan leaderUpdate, 1),
	}
	replReq := &appendReq{req: req{L.term, L.nid}, ldrCommitIndex: 3}

	// raft goroutine of L: request from N, the leader of term 3
	c, _ := reviewNewConn(reviewEncode(t,
		reviewUpdate(4, 3, cmd4),
		reviewUpdate(5, 3, cmd5),
	))
	result, err := L.onAppendEntriesRequest(&appendReq{
		req:            req{term: 3, src: 3},
		prevLogIndex:   3,
		prevLogTerm:    2,
		ldrCommitIndex: 3,
		numEntries:     2,
	}, c)
	if result != success || err != nil {
		t.Fatalf("L.onAppendEntriesRequest: %v %v", result, err)
	}
	if L.state != Follower || L.lastLogIndex != 5 {
		t.Fatalf("L: state=%v lastLogIndex=%d", L.state, L.lastLogIndex)
	}

	// replication goroutine of L: it is not stopped yet. that is done
	// only after the handler returns, and it is noticed even later
	if isClosed(repl.stopCh) {
		t.Fatal("repl is stopped")
	}
	c, rc := reviewNewConn(nil)
	if err := repl.writeAppendEntriesReq(c, replReq, true); err != nil {
		t.Fatalf("repl.writeAppendEntriesReq: %v", err)
	}

	// raft goroutine of F: gets what is written by replication of L
	c, _ = reviewNewConn(rc.w.Bytes())
	if b, _ := c.bufr.ReadByte(); rpcType(b) != rpcAppendEntries {
		t.Fatalf("rpcType=%d", b)
	}
	got := &appendReq{}
	if err := got.decode(c.bufr); err != nil {
		t.Fatal(err)
	}
	t.Logf("L->F: term=%d prevLogIndex=%d prevLogTerm=%d numEntries=%d", got.term, got.prevLogIndex, got.prevLogTerm, got.numEntries)
	if got.term != 2 || F.term != 2 {
		t.Fatalf("req.term=%d F.term=%d", got.term, F.term)
	}
	func() {
		// as Raft.onRequest does
		defer func() {
			if v := recover(); v != nil {
				result, err = unexpectedErr, fmt.Errorf("%v", v)
			}
		}()
		result, err = F.onAppendEntriesRequest(got, c)
	}()
	t.Logf("F replied result=%v err=%v", result, err)
	if result == unexpectedErr {
		t.Errorf("F shuts down with %q, because of the request from L", err)
	}

	logOfF := reviewLog(F)
	for i := uint64(2); i <= F.lastLogIndex; i++ {
		t.Logf("F.log[%d]=%s", i, logOfF[i].reviewString())
	}
	for i := uint64(4); i <= F.lastLogIndex; i++ {
		if e := logOfF[i]; e.term > got.term {
			t.Errorf("F got entry %s from leader of term %d", e.reviewString(), got.term)
		}
	}
	if err := reviewLogMatching(logOfLeaderL, logOfF); err != nil {
		t.Fatalf("C04 violated between log of L (when it was leader of term 2) and log of F: %v", err)
	}
}

// ---------------------------------------------------------------------

// reviewPipeConn is a net.Conn, where written bytes are parsed as appendEntries
// requests and reported on reqs. responses are to be written to respw
type reviewPipeConn struct {
	reqw  *io.PipeWriter
	respr *io.PipeReader
	respw *io.PipeWriter
	reqs  chan *appendReq
}

func newReviewPipeConn() (*conn, *reviewPipeConn) {
	reqr, reqw := io.Pipe()
	respr, respw := io.Pipe()
	pc := &reviewPipeConn{reqw: reqw, respr: respr, respw: respw, reqs: make(chan *appendReq, 100)}
	go func() {
		bufr := bufio.NewReader(reqr)
		for {
			if _, err := bufr.ReadByte(); err != nil {
				return
			}
			req := &appendReq{}
			if err := req.decode(bufr); err != nil {
				return
			}
			for i := uint64(0); i < req.numEntries; i++ {
				if err := (&entry{}).decode(bufr); err != nil {
					return
				}
			}
			pc.reqs <- req
		}
	}()
	return &conn{rwc: pc, bufr: bufio.NewReader(pc), bufw: bufio.NewWriter(pc)}, pc
}

func (c *reviewPipeConn) Read(b []byte) (int, error)       { return c.respr.Read(b) }
func (c *reviewPipeConn) Write(b []byte) (int, error)      { return c.reqw.Write(b) }
func (c *reviewPipeConn) Close() error                     { _ = c.reqw.Close(); return c.respr.Close() }
func (c *reviewPipeConn) LocalAddr() net.Addr              { return nil }
func (c *reviewPipeConn) RemoteAddr() net.Addr             { return nil }
func (c *reviewPipeConn) SetDeadline(time.Time) error      { return nil }
func (c *reviewPipeConn) SetReadDeadline(time.Time) error  { return nil }
func (c *reviewPipeConn) SetWriteDeadline(time.Time) error { return nil }

func (c *reviewPipeConn) waitReq(t *testing.T) *appendReq {
	t.Helper()
	select {
	case req := <-c.reqs:
		return req
	case <-time.After(5 * time.Second):
		t.Fatal("no request from replication")
		return nil
	}
}

func (c *reviewPipeConn) reply(t *testing.T, term uint64, result rpcResult, lastLogIndex uint64) {
	t.Helper()
	resp := &appendResp{resp{term, result, nil}, lastLogIndex}
	buf := new(bytes.Buffer)
	if err := resp.encode(buf); err != nil {
		t.Fatal(err)
	}
	if _, err := c.respw.Write(buf.Bytes()); err != nil {
		t.Fatal(err)
	}
}

// TestReview2: not one of C02/C04/C06. robustness of pipeline reader (replication.go replicate)
//
// when follower replies staleTerm to a pipelined request, the responses of requests
// that are still in flight are drained into the same appendResp object, before the
// term in it is reported to leader. if that drain fails (follower closed the conn, or
// drainRespsTimeout closed it after hbTimeout/2), appendResp.decode leaves term=0 in it.
// leader is then told newTerm{0}: leader.checkReplUpdates does setTerm(0) which trips
// assert(term > s.term), and that panic is re-raised by recoverErr: process dies,
// instead of leader stepping down to the term of follower
func TestReview2(t *testing.T) {
	L := reviewNode(t, 1, 3)
	L.setTerm(2)
	L.state = Leader
	L.setLeader(1)
	for i := uint64(2); i <= 5; i++ {
		L.storage.appendEntry(reviewUpdate(i, 2, fmt.Sprintf("cmd%d-by-L", i)))
	}
	replUpdateCh := make(chan replUpdate, 10)
	repl := &replication{
		node:           L.configs.Latest.Nodes[2],
		rtime:          newRandTime(),
		status:         replicationStatus{id: 2, node: L.configs.Latest.Nodes[2]},
		ldrStartIndex:  2,
		ldrLastIndex:   L.lastLogIndex,
		matchIndex:     0,
		nextIndex:      4,
		hbTimeout:      L.hbTimeout,
		timer:          newSafeTimer(),
		bandwidth:      L.bandwidth,
		log:            L.storage.log.ViewAt(L.log.PrevIndex(), L.lastLogIndex),
		snaps:          L.storage.snaps,
		stopCh:         make(chan struct{}),
		replUpdateCh:   replUpdateCh,
		leaderUpdateCh: make(chan leaderUpdate, 1),
	}
	c, pc := newReviewPipeConn()
	done := make(chan error, 1)
	go func() {
		done <- repl.replicate(c, &appendReq{req: req{L.term, L.nid}, ldrCommitIndex: 1})
	}()

	// probe: prev=3. follower matches
	if req := pc.waitReq(t); req.prevLogIndex != 3 || req.numEntries != 0 {
		t.Fatalf("probe: prev=%d numEntries=%d", req.prevLogIndex, req.numEntries)
	}
	pc.reply(t, 2, success, 3)

	// first pipelined request: 4..5
	if req := pc.waitReq(t); req.prevLogIndex != 3 || req.numEntries != 2 {
		t.Fatalf("req1: prev=%d numEntries=%d", req.prevLogIndex, req.numEntries)
	}

	// leader stores one more entry. second pipelined request: 6
	L.storage.appendEntry(reviewUpdate(6, 2, "cmd6-by-L"))
	repl.leaderUpdateCh <- leaderUpdate{log: L.storage.log.ViewAt(L.log.PrevIndex(), L.lastLogIndex), commitIndex: 1}
	if req := pc.waitReq(t); req.prevLogIndex != 5 || req.numEntries != 1 {
		t.Fatalf("req2: prev=%d numEntries=%d", req.prevLogIndex, req.numEntries)
	}

	// follower is in term 5 now: replies staleTerm to first request and closes the conn
	pc.reply(t, 5, staleTerm, 5)
	_ = pc.respw.Close()

	select {
	case err := <-done:
		if err != errStop {
			t.Fatalf("replicate: %v", err)
		}
	case <-time.After(5 * time.Second):
		t.Fatal("replicate did not return")
	}

	for {
		select {
		case u := <-replUpdateCh:
			if u, ok := u.update.(newTerm); ok {
				if u.val != 5 {
					ldr := &leader{Raft: L, repls: map[uint64]*replication{2: repl}}
					func() {
						defer func() {
							t.Logf("leader.checkReplUpdates(newTerm{%d}) panics with: %v", u.val, recover())
						}()
						ldr.checkReplUpdates(replUpdate{&repl.status, u})
					}()
					t.Fatalf("follower replied staleTerm with term 5, but leader is told newTerm{%d}", u.val)
				}
				return
			}
		default:
			t.Fatal("leader is not told about new term")
		}
	}
}

// TestReview3: not one of C02/C04/C06. liveness (leader.go notifyFlr, replication.go checkLeaderUpdate)
//
// leaderUpdateCh has capacity one, and notifyFlr replaces the update that is not yet taken
// by replication with newer one. update.config is set only in the update sent when config
// entry is stored. if replication does not take that before next update (it is in backOff
// wait, dialing, or blocked in write/read), config change is lost for it: replication.node
// remains what it was. for a nonvoter that got promoted, replication keeps treating it as
// nonvoter and sends no heartbeats when idle, so the new voter keeps starting elections
func TestReview3(t *testing.T) {
	L := reviewNode(t, 1, 3)
	L.setTerm(2)
	L.state = Leader
	L.setLeader(1)
	nonvoter := L.configs.Latest.Nodes[3]
	nonvoter.Voter = false
	repl := &replication{
		node:           nonvoter, // M3 was nonvoter when replication started
		status:         replicationStatus{id: 3, node: nonvoter},
		hbTimeout:      50 * time.Millisecond,
		timer:          newSafeTimer(),
		log:            L.storage.log.ViewAt(L.log.PrevIndex(), L.lastLogIndex),
		ldrLastIndex:   L.lastLogIndex,
		nextIndex:      L.lastLogIndex + 1,
		stopCh:         make(chan struct{}),
		replUpdateCh:   make(chan replUpdate, 10),
		leaderUpdateCh: make(chan leaderUpdate, 1),
	}
	ldr := &leader{Raft: L, repls: map[uint64]*replication{3: repl}}

	// leader stores config entry in which M3 is voter: leader.storeEntry does notifyFlr(true)
	ldr.notifyFlr(true)
	// config entry got committed: leader.onMajorityCommit does notifyFlr(false).
	// replication to M3 has not taken the earlier update yet
	ldr.notifyFlr(false)

	// now replication takes update
	req := &appendReq{req: req{L.term, L.nid}}
	if ldrUpdate, err := repl.checkLeaderUpdate(repl.stopCh, req, true); !ldrUpdate || err != nil {
		t.Fatalf("checkLeaderUpdate: %v %v", ldrUpdate, err)
	}
	if !L.configs.Latest.Nodes[3].Voter {
		t.Fatal("M3 must be voter in config of leader")
	}
	if !repl.node.Voter {
		// consequence: no heartbeats
		stop := make(chan struct{})
		time.AfterFunc(10*repl.hbTimeout, func() { close(stop) })
		_, err := repl.checkLeaderUpdate(stop, req, true)
		t.Logf("idle replication to voter M3 sends heartbeat in 10*hbTimeout: %v", err != errStop)
		t.Fatal("M3 is voter in config of leader, but its replication did not get to know that: config update is lost")
	}
}
