package raft

import (
	"bufio"
	"bytes"
	"encoding/gob"
	"fmt"
	"io/ioutil"
	"net"
	"os"
	"os/exec"
	"path/filepath"
	"sort"
	"strconv"
	"strings"
	"testing"
	"time"
)

// ---- helpers --------------------------------------------------------------

func rvOptions() Options {
	return Options{
		HeartbeatTimeout: time.Second,
		PromoteThreshold: time.Second,
		Bandwidth:        256 * 1024,
		LogSegmentSize:   1024,
		SnapshotsRetain:  1,
	}
}

func rvTempDir(t *testing.T) string {
	t.Helper()
	dir, err := ioutil.TempDir("", "rvraft")
	if err != nil {
		t.Fatal(err)
	}
	return dir
}

func rvCopyTree(t *testing.T, src, dst string) {
	t.Helper()
	err := filepath.Walk(src, func(path string, info os.FileInfo, err error) error {
		if err != nil {
			return err
		}
		rel, _ := filepath.Rel(src, path)
		target := filepath.Join(dst, rel)
		if info.IsDir() {
			return os.MkdirAll(target, 0700)
		}
		b, err := ioutil.ReadFile(path)
		if err != nil {
			return err
		}
		return ioutil.WriteFile(target, b, 0600)
	})
	if err != nil {
		t.Fatal(err)
	}
}

// prevIndexes of the log segment files, sorted
func rvSegments(t *testing.T, storageDir string) []uint64 {
	t.Helper()
	matches, err := filepath.Glob(filepath.Join(storageDir, "log", "*.log"))
	if err != nil {
		t.Fatal(err)
	}
	var segs []uint64
	for _, m := range matches {
		i, err := strconv.ParseUint(strings.TrimSuffix(filepath.Base(m), ".log"), 10, 64)
		if err != nil {
			t.Fatal(err)
		}
		segs = append(segs, i)
	}
	sort.Slice(segs, func(i, j int) bool { return segs[i] < segs[j] })
	return segs
}

func rvConfig() Config {
	return Config{
		Nodes: map[uint64]Node{
			1: {ID: 1, Addr: "M1:8888", Voter: true},
			2: {ID: 2, Addr: "M2:8888", Voter: true},
			3: {ID: 3, Addr: "M3:8888", Voter: true},
		},
		Index: 1, Term: 1,
	}
}

type rvConn struct{ net.Conn }

func (rvConn) SetReadDeadline(time.Time) error { return nil }

func rvAppendReq(r *Raft, term, leader, prevIndex, prevTerm, ldrCommit uint64, entries ...*entry) (rpcResult, error) {
	buf := new(bytes.Buffer)
	for _, e := range entries {
		if err := e.encode(buf); err != nil {
			panic(err)
		}
	}
	c := &conn{rwc: rvConn{}, bufr: bufio.NewReaderSize(buf, 64*1024)}
	req := &appendReq{
		req:            req{term, leader},
		prevLogIndex:   prevIndex,
		prevLogTerm:    prevTerm,
		ldrCommitIndex: ldrCommit,
		numEntries:     uint64(len(entries)),
	}
	return r.onRequest(req, c)
}

func rvInstallSnapReq(r *Raft, term, leader, lastIndex, lastTerm uint64, config Config, cmds []string) (rpcResult, error) {
	buf := new(bytes.Buffer)
	if err := gob.NewEncoder(buf).Encode(cmds); err != nil {
		panic(err)
	}
	size := int64(buf.Len())
	c := &conn{rwc: rvConn{}, bufr: bufio.NewReader(buf)}
	req := &installSnapReq{
		req:        req{term, leader},
		lastIndex:  lastIndex,
		lastTerm:   lastTerm,
		lastConfig: config,
		size:       size,
	}
	return r.onRequest(req, c)
}

// ---- TestReview1 ----------------------------------------------------------
//
// C10: crash in the middle of the log reset that follows an installed snapshot.
//
// onInstallSnapRequest stores the snapshot (sink.done) and then, if the log
// contradicts it, calls storage.clearLog -> log.Reset(snapIndex). Reset removes
// the segment files one by one, oldest first. If the process dies after it has
// removed all segments up to and including the one that holds snapIndex, but
// some later segment is still there, the node restarts with a log that starts
// *after* the snapshot index (a hole between snapshot and log). openStorage
// only repairs "log behind the snapshot" and "term mismatch at snapIndex"; it
// does not notice log.PrevIndex() > snaps.index.
func TestReview1(t *testing.T) {
	dir := rvTempDir(t)
	defer os.RemoveAll(dir)
	opt := rvOptions()
	if err := SetIdentity(dir, 1, 1); err != nil {
		t.Fatal(err)
	}
	r, err := New(opt, &fsmMock{id: identity{1, 1}}, dir)
	if err != nil {
		t.Fatal(err)
	}
	defer r.storage.log.Close()

	// we play fsm loop. handler asks lastApplied between storing the snapshot
	// and resetting the log: we take copy of storage dir at that point, which is
	// what is on disk if the process dies there
	crashBase := rvTempDir(t)
	defer os.RemoveAll(crashBase)
	copied := false
	fsmDone := make(chan struct{})
	go func() {
		defer close(fsmDone)
		for task := range r.fsm.ch {
			switch task := task.(type) {
			case lastApplied:
				rvCopyTree(t, dir, crashBase)
				copied = true
				task.reply(uint64(0))
			case fsmRestoreReq:
				task.err <- nil
			}
		}
	}()

	// leader M3 of term 1 gave us many entries. none is committed
	config := rvConfig()
	const last = 40
	entries := []*entry{config.encode()}
	for i := uint64(2); i <= last; i++ {
		entries = append(entries, &entry{index: i, term: 1, typ: entryUpdate, data: bytes.Repeat([]byte{'x'}, 100)})
	}
	if result, err := rvAppendReq(r, 1, 3, 0, 0, 0, entries...); result != success {
		t.Fatalf("append: %v %v", result, err)
	}
	segs := rvSegments(t, dir)
	if len(segs) < 4 {
		t.Fatalf("need at least 4 segments, got %v", segs)
	}

	// leader M2 of term 2 sends snapshot at snapIndex, whose entry has term 2: our log
	// contradicts it at snapIndex (we have term 1 there), so log has to be discarded
	snapIndex := segs[1] + 1 // lives in second segment. later segments start beyond it
	if result, err := rvInstallSnapReq(r, 2, 2, snapIndex, 2, config, []string{"a", "b"}); result != success {
		t.Fatalf("installSnap: %v %v", result, err)
	}
	close(r.fsm.ch)
	<-fsmDone
	if !copied {
		t.Fatal("handler did not take log discard path")
	}
	if r.log.PrevIndex() != snapIndex || r.log.LastIndex() != snapIndex {
		t.Fatalf("log is not reset")
	}
	if got := rvSegments(t, crashBase); fmt.Sprint(got) != fmt.Sprint(segs) {
		t.Fatalf("segments before reset: got %v, want %v", got, segs)
	}
	t.Logf("segments %v lastIndex %d; snapshot stored at index %d term 2; now log.Reset(%d) removes segments oldest first", segs, last, snapIndex, snapIndex)

	// log.Reset(snapIndex) removes the segment files oldest first.
	// die after k removals, for each k
	var failed []string
	for k := 0; k <= len(segs); k++ {
		crashDir := rvTempDir(t)
		rvCopyTree(t, crashBase, crashDir)
		for _, seg := range segs[:k] {
			if err := os.Remove(filepath.Join(crashDir, "log", fmt.Sprintf("%d.log", seg))); err != nil {
				t.Fatal(err)
			}
		}
		func() {
			defer os.RemoveAll(crashDir)
			s2, err := openStorage(crashDir, opt)
			if err != nil {
				failed = append(failed, fmt.Sprintf("die in log.Reset after removing %d segments %v: restart fails: %v", k, segs[:k], err))
				return
			}
			defer s2.log.Close()
			if s2.log.PrevIndex() > s2.snaps.index || s2.lastLogIndex < s2.snaps.index {
				failed = append(failed, fmt.Sprintf("die in log.Reset after removing %d segments %v: restarted with snapshot index %d but log (%d, %d]",
					k, segs[:k], s2.snaps.index, s2.log.PrevIndex(), s2.log.LastIndex()))
			}
		}()
	}
	for _, f := range failed {
		t.Error(f)
	}
}

// ---- TestReview2 ----------------------------------------------------------
//
// C10: a node that is killed can not be restarted on the same storage dir.
//
// Serve takes a lock by creating file "lock" in storage dir and removes it in a
// defer. If the process dies (kill -9, panic in fsm goroutine, power loss..) the
// lock file stays, and nothing ever checks whether the pid written in it is alive.
// Restart on the same storage dir fails with ErrLockExists for ever.
func TestReview2(t *testing.T) {
	if dir := os.Getenv("RV_REVIEW2_DIR"); dir != "" {
		// child process: serve until we are killed
		r, err := New(rvOptions(), &fsmMock{id: identity{1, 1}}, dir)
		if err != nil {
			fmt.Println("child: New failed:", err)
			os.Exit(3)
		}
		l, err := net.Listen("tcp", "127.0.0.1:0")
		if err != nil {
			fmt.Println("child: listen failed:", err)
			os.Exit(3)
		}
		fmt.Println("child: Serve returned:", r.Serve(l))
		os.Exit(3)
	}

	dir := rvTempDir(t)
	defer os.RemoveAll(dir)
	if err := SetIdentity(dir, 1, 1); err != nil {
		t.Fatal(err)
	}
	cmd := exec.Command(os.Args[0], "-test.run=^TestReview2$")
	cmd.Env = append(os.Environ(), "RV_REVIEW2_DIR="+dir)
	out := new(bytes.Buffer)
	cmd.Stdout, cmd.Stderr = out, out
	if err := cmd.Start(); err != nil {
		t.Fatal(err)
	}
	// wait until child is serving (it has taken the lock by then)
	deadline := time.Now().Add(10 * time.Second)
	for {
		if _, err := os.Stat(filepath.Join(dir, "lock")); err == nil {
			break
		}
		if time.Now().After(deadline) {
			_ = cmd.Process.Kill()
			_ = cmd.Wait()
			t.Fatalf("child did not start serving: %s", out.String())
		}
		time.Sleep(10 * time.Millisecond)
	}
	time.Sleep(200 * time.Millisecond)
	if err := cmd.Process.Kill(); err != nil { // kill -9
		t.Fatal(err)
	}
	_ = cmd.Wait()

	// restart on same storage dir
	r, err := New(rvOptions(), &fsmMock{id: identity{1, 1}}, dir)
	if err != nil {
		t.Fatalf("restart: New failed: %v", err)
	}
	l, err := net.Listen("tcp", "127.0.0.1:0")
	if err != nil {
		t.Fatal(err)
	}
	defer l.Close()
	serveErr := make(chan error, 1)
	go func() { serveErr <- r.Serve(l) }()
	select {
	case err := <-serveErr:
		t.Fatalf("node was killed while serving (no other process uses the storage dir). restart on same storage dir failed: Serve: %v", err)
	case <-time.After(time.Second):
		// serving fine
		_ = r.Shutdown(nil)
		<-serveErr
	}
}

// ---- TestReview3 ----------------------------------------------------------
//
// C13/C10: an entry bigger than the segment size is accepted when the last
// segment has some entry (a bigger segment is made for it), but rejected with
// ErrExceedsSegmentSize when the last segment happens to be empty. The leader's
// last segment is never empty (nop entry), so leader stores and commits such an
// entry. A follower whose log was just reset by installSnapshot (or cleared by
// a truncation, or that restarted after dying just after a segment roll) has an
// empty last segment: it panics on the same entry, every time it is sent, also
// after restart. it can never catch up.
func TestReview3(t *testing.T) {
	opt := rvOptions()
	config := rvConfig()
	big := &entry{index: 7, term: 1, typ: entryUpdate, data: bytes.Repeat([]byte{'b'}, 2*opt.LogSegmentSize)}

	// leader: entries 1..6 small, 7 is bigger than LogSegmentSize: accepted
	ldrDir := rvTempDir(t)
	defer os.RemoveAll(ldrDir)
	if err := SetIdentity(ldrDir, 1, 1); err != nil {
		t.Fatal(err)
	}
	ls, err := openStorage(ldrDir, opt)
	if err != nil {
		t.Fatal(err)
	}
	if err := ls.bootstrap(config); err != nil {
		t.Fatal(err)
	}
	for i := uint64(2); i <= 6; i++ {
		ls.appendEntry(&entry{index: i, term: 1, typ: entryUpdate, data: []byte("a")})
	}
	func() {
		defer func() {
			if v := recover(); v != nil {
				t.Fatalf("leader could not store big entry: %v", v)
			}
		}()
		ls.appendEntry(big)
		ls.commitLog(7)
	}()
	_ = ls.log.Close()
	t.Logf("leader stored entry 7 of %d bytes with LogSegmentSize %d", len(big.data), opt.LogSegmentSize)

	// follower: receives snapshot at index 6, then entry 7
	flrDir := rvTempDir(t)
	defer os.RemoveAll(flrDir)
	if err := SetIdentity(flrDir, 1, 2); err != nil {
		t.Fatal(err)
	}
	r, err := New(opt, &fsmMock{id: identity{1, 2}}, flrDir)
	if err != nil {
		t.Fatal(err)
	}
	fsmDone := make(chan struct{})
	go func() {
		defer close(fsmDone)
		r.fsm.runLoop()
	}()
	result, err := rvInstallSnapReq(r, 1, 1, 6, 1, config, []string{"a", "a", "a", "a", "a"})
	if result != success {
		t.Fatalf("installSnap: %v %v", result, err)
	}
	if err := <-r.fsmRestoredCh; err != nil {
		t.Fatal(err)
	}
	result, err = rvAppendReq(r, 1, 1, 6, 1, 6, big)
	close(r.fsm.ch)
	<-fsmDone
	_ = r.storage.log.Close()
	if result == success {
		return
	}
	t.Errorf("follower that installed snapshot at 6, could not store entry 7 that leader has stored: %v: %v", result, err)

	// restart does not help
	r, err = New(opt, &fsmMock{id: identity{1, 2}}, flrDir)
	if err != nil {
		t.Fatal(err)
	}
	result, err = rvAppendReq(r, 1, 1, 6, 1, 6, big)
	_ = r.storage.log.Close()
	if result != success {
		t.Errorf("after restart, follower still can not store entry 7: %v: %v", result, err)
	}
}

// ---- TestReview4 ----------------------------------------------------------
//
// (focus area: onInstallSnapRequest ordering)
// follower has entries 1..40 in log, but committed/applied only up to 10.
// leader sends snapshot at index 30 (its matchIndex for us was stale, for
// ex. replies were lost). our log contains 30 with same term: handler takes the
// "terms matched" path: it compacts the log up to 30, but neither restores fsm
// from the snapshot nor waits for fsm to apply up to 30: entries 11.. are gone,
// while fsm still needs them. on next commit fsm goroutine panics (it is not
// recovered: process dies).
func TestReview4(t *testing.T) {
	opt := rvOptions()
	config := rvConfig()
	dir := rvTempDir(t)
	defer os.RemoveAll(dir)
	if err := SetIdentity(dir, 1, 2); err != nil {
		t.Fatal(err)
	}
	r, err := New(opt, &fsmMock{id: identity{1, 2}}, dir)
	if err != nil {
		t.Fatal(err)
	}
	fsmPanic := make(chan interface{}, 1)
	go func() {
		defer func() {
			fsmPanic <- recover()
		}()
		r.fsm.runLoop()
	}()

	var entries []*entry
	entries = append(entries, config.encode())
	for i := uint64(2); i <= 40; i++ {
		entries = append(entries, &entry{index: i, term: 1, typ: entryUpdate, data: bytes.Repeat([]byte{'x'}, 100)})
	}
	// entries 1..10, leader commit 10
	if result, err := rvAppendReq(r, 1, 1, 0, 0, 10, entries[:10]...); result != success {
		t.Fatalf("append 1..10: %v %v", result, err)
	}
	// entries 11..40, leader commit still 10
	if result, err := rvAppendReq(r, 1, 1, 10, 1, 10, entries[10:]...); result != success {
		t.Fatalf("append 11..40: %v %v", result, err)
	}
	if got := r.lastApplied(); got != 10 {
		t.Fatalf("lastApplied %d, want 10", got)
	}
	cmds := make([]string, 29)
	for i := range cmds {
		cmds[i] = strings.Repeat("x", 100)
	}
	if result, err := rvInstallSnapReq(r, 1, 1, 30, 1, config, cmds); result != success {
		t.Fatalf("installSnap: %v %v", result, err)
	}
	t.Logf("after installSnap(30): snapIndex %d commitIndex %d lastApplied %d log (%d, %d]",
		r.snaps.index, r.commitIndex, r.lastApplied(), r.log.PrevIndex(), r.log.LastIndex())
	if r.log.PrevIndex() <= 10 {
		t.Skip("log not compacted beyond lastApplied")
	}
	// heartbeat: leader commit 40
	result, err := rvAppendReq(r, 1, 1, 40, 1, 40)
	if result != success {
		t.Fatalf("heartbeat: %v %v", result, err)
	}
	applied := make(chan uint64, 1)
	go func() { applied <- r.lastApplied() }()
	select {
	case v := <-fsmPanic:
		_ = r.storage.log.Close()
		t.Fatalf("fsm goroutine died: %v", v)
	case got := <-applied:
		close(r.fsm.ch)
		_ = r.storage.log.Close()
		if got != 40 {
			t.Fatalf("lastApplied %d, want 40", got)
		}
	}
}
