package raft

// Native demonstration of finding (af): SetIdentity's deferred `err = unlockDir(storageDir)` overwrites whatever the
// function was about to return, so a refused attempt to change a set identity (documented to return
// ErrIdentityAlreadySet), and any storage error while setting it, is reported to the caller as success.

import (
	"io/ioutil"
	"os"
	"testing"
)

func TestVerifFindingAF(t *testing.T) {
	dir, _ := ioutil.TempDir("", "verif")
	defer os.RemoveAll(dir)
	if err := SetIdentity(dir, 1, 1); err != nil {
		t.Fatal(err)
	}
	err := SetIdentity(dir, 2, 2)
	st, oerr := openStorage(dir, DefaultOptions())
	if oerr != nil {
		t.Fatal(oerr)
	}
	defer st.log.Close()
	t.Logf("SetIdentity(dir, 2, 2) on a directory whose identity is (1, 1) returned %v; stored identity is (%d, %d)", err, st.cid, st.nid)
	if st.cid != 1 || st.nid != 1 {
		t.Fatalf("identity changed to (%d, %d)", st.cid, st.nid)
	}
	if err != ErrIdentityAlreadySet {
		t.Fatalf("the refusal is reported as %v, want ErrIdentityAlreadySet", err)
	}
}
