package raft

import (
	"bufio"
	"bytes"
	"io/ioutil"
	"net"
	"testing"
	"time"
)

// zzConn is a net.Conn for requests that are handed directly to Raft.replyRPC
type zzConn struct {
	net.Conn
}

func (zzConn) SetReadDeadline(time.Time) error  { return nil }
func (zzConn) SetWriteDeadline(time.Time) error { return nil }
func (zzConn) Close() error                     { return nil }

// zzNewRaft makes a bootstrapped three node member (not served), in given term
func zzNewRaft(t *testing.T, term uint64) *Raft {
	t.Helper()
	dir, err := ioutil.TempDir(tempDir, "review")
	if err != nil {
		t.Fatal(err)
	}
	if err = SetIdentity(dir, 9999, 1); err != nil {
		t.Fatal(err)
	}
	opt := Options{
		HeartbeatTimeout: time.Second,
		PromoteThreshold: time.Second,
		Bandwidth:        256 * 1024,
		LogSegmentSize:   4 * 1024,
		SnapshotsRetain:  1,
		ShutdownOnRemove: true,
	}
	nodes := map[uint64]Node{
		1: {ID: 1, Addr: "M1:8888", Voter: true},
		2: {ID: 2, Addr: "M2:8888", Voter: true},
		3: {ID: 3, Addr: "M3:8888", Voter: true},
	}
	if err = bootstrapStorage(dir, opt, nodes); err != nil {
		t.Fatal(err)
	}
	r, err := New(opt, &fsmMock{}, dir)
	if err != nil {
		t.Fatal(err)
	}
	t.Cleanup(func() { _ = r.storage.log.Close() })
	r.storage.setTerm(term)
	return r
}

// TestReview1: sibling of "refused identity request does not reset election timer" (47552cf)
// and consequence of "timeoutNow request of an older term is rejected" (96e393a).
//
// a request of an older term is refused with staleTerm. it does not come from the current
// leader. still replyRPC tells the follower to reset its election timer.
func TestReview1(t *testing.T) {
	r := zzNewRaft(t, 5)
	r.leader = 0 // the leader of term 5 is dead

	requests := map[string]request{
		"appendEntries": &appendReq{req: req{term: 3, src: 2}, prevLogIndex: 1, prevLogTerm: 1},
		"installSnap":   &installSnapReq{req: req{term: 3, src: 2}, lastIndex: 1, lastTerm: 1, lastConfig: r.configs.Latest, size: 0},
		"timeoutNow":    &timeoutNowReq{req: req{term: 3, src: 2}},
	}
	for name, request := range requests {
		buf := new(bytes.Buffer)
		if err := request.encode(buf); err != nil {
			t.Fatal(err)
		}
		rpc := &rpc{
			req:  request.rpcType().createReq(),
			conn: &conn{rwc: zzConn{}, bufr: bufio.NewReader(buf)},
			done: make(chan struct{}),
		}
		resetTimer := r.replyRPC(rpc)
		if rpc.readErr != nil {
			t.Fatalf("%s: readErr: %v", name, rpc.readErr)
		}
		if got := rpc.resp.getResult(); got != staleTerm {
			t.Fatalf("%s: result=%v, want staleTerm", name, got)
		}
		if r.leader != 0 || r.term != 5 {
			t.Fatalf("%s: leader=%d term=%d", name, r.leader, r.term)
		}
		if resetTimer {
			t.Errorf("%s request of term 3 is refused with staleTerm by follower in term 5, but resets its election timer", name)
		}
	}
}

// TestReview2: sibling of "a node that is being added does not take an older config
// for its removal" (3ad10ed).
//
// M4 is added, removed, and then added again. leader stops replicating to a node as soon as
// the config without it is stored, so M4 sees the config of its removal only when it is
// catching up after it is added again. if the entry that adds it again is not in the same
// request (more than 64 entries in between), it takes that older config for its removal
// and shuts down with ErrNodeRemoved, though it is member of the cluster.
func TestReview2(t *testing.T) {
	c, ldr, _ := launchCluster(t, 3)
	defer c.shutdown()
	c.waitCommitReady(ldr)

	// add M4 as nonvoter, and let it catch up
	m4 := c.launch(1, false)[4]
	c.ensure(c.waitAddNonvoter(ldr, 4, c.id2Addr(4), false))
	<-c.sendUpdates(ldr, 1, 5).Done()
	c.waitFSMLen(5)
	c.waitCatchup()

	// remove M4
	config := c.info(ldr).Configs.Latest
	if err := config.SetAction(4, Remove); err != nil {
		t.Fatal(err)
	}
	c.ensure(waitTask(ldr, ChangeConfig(config), c.longTimeout))
	c.ensure(waitTask(ldr, WaitForStableConfig(), c.longTimeout))
	if _, ok := c.info(ldr).Configs.Committed.Nodes[4]; ok {
		t.Fatal("M4 is not removed")
	}
	if m4.isClosed() {
		t.Fatal("precondition: M4 is not expected to learn about its removal")
	}

	// more entries than what leader sends in one request
	<-c.sendUpdates(ldr, 6, 5+maxAppendEntries+10).Done()
	c.waitFSMLen(5+maxAppendEntries+10, c.exclude(m4)...)

	shuttingDown := c.registerFor(eventShuttingDown, m4)
	defer c.unregister(shuttingDown)

	// add M4 again
	c.ensure(c.waitAddNonvoter(ldr, 4, c.id2Addr(4), false))
	if ldr != c.leader() {
		t.Fatal("precondition: leader changed")
	}
	if _, ok := c.info(ldr).Configs.Committed.Nodes[4]; !ok {
		t.Fatal("M4 is not added again")
	}

	// M4 is member now. it must catch up and keep running
	select {
	case e := <-shuttingDown.ch:
		err := c.serveError(m4) // note: puts ErrServerClosed in its place, for c.shutdown
		t.Fatalf("M4 is member of the cluster as per committed config %v, but it shut down: %v (serve: %v)", c.info(ldr).Configs.Committed, e.err, err)
	case <-time.After(3 * c.heartbeatTimeout):
	}
	c.waitFSMLen(5+maxAppendEntries+10, m4)
}

// zzPartialConn fails the write of snapshot body, after writing all but cut bytes of it,
// the way a write that runs into its deadline does. the connection itself stays usable
type zzPartialConn struct {
	net.Conn
	cut        int
	headerSeen bool
	failed     bool
}

type zzTimeoutError struct{}

func (zzTimeoutError) Error() string   { return "zz: i/o timeout" }
func (zzTimeoutError) Timeout() bool   { return true }
func (zzTimeoutError) Temporary() bool { return true }

func (c *zzPartialConn) Write(b []byte) (int, error) {
	if !c.failed {
		if c.headerSeen {
			c.failed = true
			if len(b) <= c.cut {
				panic("zz: snapshot is too small for this test")
			}
			n, err := c.Conn.Write(b[:len(b)-c.cut])
			if err != nil {
				return n, err
			}
			return n, zzTimeoutError{}
		}
		// note: only identity request and heartbeats are
		// written on this conn, before the installSnap request
		if len(b) > 0 && rpcType(b[0]) == rpcInstallSnap {
			c.headerSeen = true
		}
	}
	return c.Conn.Write(b)
}

// TestReview3: sibling of "conn with partially written request is not reused" (a166193).
//
// replication.replicate ignores the error of sendInstallSnapReq, when it is called
// after matchIndex is found (the case of a new node), and goes on with the same conn.
// if the write of snapshot had failed in the middle (for ex. write deadline), the bytes of
// the next request written on that conn are taken by the follower as the remaining bytes
// of the snapshot. follower stores the corrupted snapshot and restores its fsm from it
func TestReview3(t *testing.T) {
	c := newCluster(t)
	c.opt.LogSegmentSize = 1024
	ldr, _ := c.ensureLaunch(3)
	defer c.shutdown()

	// size of appendEntries request without entries
	buf := new(bytes.Buffer)
	_ = (&appendReq{}).encode(buf)
	hbSize := 1 + buf.Len()

	// the first conn that leader makes to M4, fails in the middle of snapshot
	var failing *zzPartialConn
	m4Addr := c.id2Addr(4)
	c.ensure(ldr.inspect(func(r *Raft) {
		dial := r.dialFn
		r.dialFn = func(network, address string, timeout time.Duration) (net.Conn, error) {
			conn, err := dial(network, address, timeout)
			if err == nil && address == m4Addr && failing == nil {
				failing = &zzPartialConn{Conn: conn, cut: hbSize}
				conn = failing
			}
			return conn, err
		}
	}))

	// send updates, the last one is long
	<-c.sendUpdates(ldr, 1, 30).Done()
	last := bytes.Repeat([]byte("0123456789"), 20)
	if _, err := waitUpdate(ldr, string(last), c.longTimeout); err != nil {
		t.Fatal(err)
	}
	updates := uint64(31)

	// add nonvoter M4 (not launched yet), take snapshot, and wait for log compaction
	c.ensure(c.waitAddNonvoter(ldr, 4, m4Addr, false))
	c.waitCatchup()
	logCompacted := c.registerFor(eventLogCompacted, ldr)
	defer c.unregister(logCompacted)
	c.takeSnapshot(ldr, 1, nil)
	c.ensure(logCompacted.waitForEvent(c.longTimeout))

	// now launch M4. leader has to send it the snapshot
	m4 := c.launch(1, false)[4]
	shuttingDown := c.registerFor(eventShuttingDown, m4)
	defer c.unregister(shuttingDown)

	limit := time.After(2 * c.longTimeout)
	for fsm(m4).len() != updates {
		select {
		case e := <-shuttingDown.ch:
			_ = c.serveError(m4)
			t.Fatalf("M4 shut down: %v", e.err)
		case <-limit:
			t.Fatalf("M4 did not catch up: fsmLen=%d", fsm(m4).len())
		case <-time.After(10 * time.Millisecond):
		}
	}
	var failed bool
	c.ensure(ldr.inspect(func(r *Raft) {
		failed = failing != nil && failing.failed
	}))
	if !failed {
		t.Fatal("precondition: write of snapshot did not fail")
	}
	want, got := fsm(ldr).commands(), fsm(m4).commands()
	for i := range want {
		if got[i] != want[i] {
			t.Fatalf("fsm of M4 differs from that of leader at %d:\n got %q\nwant %q", i, got[i], want[i])
		}
	}
}

// TestReview4: left over in "snapshots.open holds usedMu ..." (2ce4842). needs -race to fail.
//
// open is called by replications and fsm, while a snapshot is completed by stateLoop (installSnap)
// or by takeSnapshot goroutine. open now holds usedMu, but snapshots.index, which it reads
// through meta(), is guarded by snapshots.mu: data race between open and snapshotSink.done.
// (functionally the commit does what it says: no open fails here, with retain=1)
func TestReview4(t *testing.T) {
	dir, err := ioutil.TempDir(tempDir, "snaps")
	if err != nil {
		t.Fatal(err)
	}
	s, err := openSnapshots(dir, Options{SnapshotsRetain: 1})
	if err != nil {
		t.Fatal(err)
	}
	store := func(index uint64) {
		sink, err := s.new(index, 1, Config{})
		if err != nil {
			t.Error(err)
			return
		}
		if _, err = sink.file.Write([]byte("hello")); err != nil {
			t.Error(err)
		}
		if _, err = sink.done(nil); err != nil {
			t.Error(err)
		}
	}
	store(1)
	stored := make(chan struct{})
	go func() {
		defer close(stored)
		for index := uint64(2); index <= 200; index++ {
			store(index)
		}
	}()
	for !isClosed(stored) {
		snap, err := s.open()
		if err != nil {
			t.Fatal(err)
		}
		snap.release()
	}
	if index, _ := s.latest(); index != 200 {
		t.Fatalf("latest=%d, want 200", index)
	}
}
