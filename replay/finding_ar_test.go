package raft

import (
	"bufio"
	"io/ioutil"
	"net"
	"testing"
	"time"
)

// finding (ar): pipeline writer, stopped after a FAILED (partial) write of a request, reports nothing:
// the connection, with half a request on it, goes back to the pool. the next request sent on it
// (vote request of our next candidacy) is read by the peer as the rest of the entries.
//
// the peer stops reading in the middle of the entries; the write of the leader runs into its deadline
// while the leader stops the replication. the writer's select between stop signal and reporting
// the failed write is random: the test repeats until the stop branch is taken
func TestVerifFindingAR(t *testing.T) {
	for try := 1; try <= 12; try++ {
		dir, err := ioutil.TempDir(tempDir, "verif-ar")
		if err != nil {
			t.Fatal(err)
		}
		if err := SetIdentity(dir, 1234, 1); err != nil {
			t.Fatal(err)
		}
		opt := Options{HeartbeatTimeout: 200 * time.Millisecond, PromoteThreshold: time.Second, Bandwidth: 1 << 30, LogSegmentSize: 4 * 1024, SnapshotsRetain: 1}
		r, err := New(opt, &fsmMock{}, dir)
		if err != nil {
			t.Fatal(err)
		}
		config := Config{Nodes: map[uint64]Node{1: {ID: 1, Addr: "M1:8888", Voter: true}, 2: {ID: 2, Addr: "M2:8888", Voter: true}}, Index: 1, Term: 1}
		r.storage.appendEntry(config.encode())
		r.setTerm(1)
		r.changeConfig(config)
		for i := uint64(2); i <= 3; i++ {
			r.storage.appendEntry(&entry{index: i, term: 1, typ: entryUpdate, data: make([]byte, 600)})
		}
		r.storage.commitLog(3)

		client, server := net.Pipe()
		r.dialFn = func(network, address string, timeout time.Duration) (net.Conn, error) { return client, nil }
		midEntries := make(chan struct{})
		go func() { // the peer: holds only entry 1
			br, bw := bufio.NewReader(server), bufio.NewWriter(server)
			appends := 0
			for {
				b, err := br.ReadByte()
				if err != nil {
					return
				}
				switch rpcType(b) {
				case rpcIdentity:
					q := &identityReq{}
					if q.decode(br) != nil {
						return
					}
					_ = (&identityResp{resp{term: q.term, result: success}}).encode(bw)
				case rpcAppendEntries:
					q := &appendReq{}
					if q.decode(br) != nil {
						return
					}
					appends++
					if q.numEntries > 0 {
						// reads 100 bytes of the entries, and then it is stuck
						// (directly from the conn: bufio would take everything that is being written)
						_, _ = server.Read(make([]byte, 100))
						close(midEntries)
						select {}
					}
					if appends == 1 {
						_ = (&appendResp{resp{term: q.term, result: prevEntryNotFound}, 1}).encode(bw)
					} else {
						_ = (&appendResp{resp{term: q.term, result: success}, q.prevLogIndex}).encode(bw)
					}
				}
				_ = bw.Flush()
			}
		}()

		repl := &replication{
			node: config.Nodes[2], rtime: newRandTime(),
			status:        replicationStatus{id: 2, node: config.Nodes[2]},
			ldrStartIndex: 1, ldrLastIndex: r.lastLogIndex, nextIndex: r.lastLogIndex + 1,
			connPool: r.getConnPool(2), hbTimeout: r.hbTimeout, timer: newSafeTimer(), bandwidth: r.bandwidth,
			log: r.log.ViewAt(0, r.lastLogIndex), snaps: r.snaps,
			stopCh: make(chan struct{}), replUpdateCh: make(chan replUpdate, 64), leaderUpdateCh: make(chan leaderUpdate, 1),
		}
		req := &appendReq{req: req{r.term, r.nid}, ldrCommitIndex: 1, prevLogIndex: r.lastLogIndex, prevLogTerm: r.lastLogTerm}
		ended := make(chan struct{})
		go func() { repl.runLoop(req); close(ended) }()
		select {
		case <-midEntries:
		case <-time.After(5 * time.Second):
			t.Fatal("peer did not get the entries")
		}
		// leader steps down, while the write of entries is stuck. the write runs into its deadline (2*hbTimeout
		// after it began) shortly afterwards: before the reader's wait for the writer (hbTimeout/2) is over
		time.Sleep(r.hbTimeout * 2 * 7 / 8)
		close(repl.stopCh)
		select {
		case <-ended:
		case <-time.After(5 * time.Second):
			t.Fatal("replication did not end")
		}
		pool := r.getConnPool(2)
		if len(pool.conns) > 0 {
			t.Fatalf("try %d: the connection, on which the request with entries is only partially written, is put back into the pool", try)
		}
		_ = client.Close()
		_ = r.storage.log.Close()
	}
}
