package raft

// Native demonstrations on a hand-driven leader with small log segments:
// (f) after onSnapshotTaken compacts the log at once, leader.removeLTE stays below the log's first index, so the view
//     the next notifyFlr builds (log.ViewAt(removeLTE, last)) is nil;
// (i) the same immediate compaction can remove the segment that holds the entry at a follower's match index, which its
//     replication (still holding the view it was given before) reads next to fill prevLogTerm.

import (
	"io/ioutil"
	"os"
	"testing"
	"time"
)

func vNativeCompactLeader(t *testing.T, dir string) (*Raft, *leader) {
	if err := SetIdentity(dir, 1, 1); err != nil {
		t.Fatal(err)
	}
	opt := DefaultOptions()
	opt.LogSegmentSize = 1024
	r, err := New(opt, &vNativeFSM{}, dir)
	if err != nil {
		t.Fatal(err)
	}
	cfg := Config{Nodes: map[uint64]Node{
		1: {ID: 1, Addr: "localhost:7001", Voter: true},
		2: {ID: 2, Addr: "localhost:7002", Voter: true},
	}, Index: 1, Term: 1}
	if err := r.storage.bootstrap(cfg); err != nil {
		t.Fatal(err)
	}
	r.changeConfig(cfg)
	r.commitConfig()
	r.commitIndex, r.fsm.index = 1, 1
	r.state, r.leader = Leader, 1
	r.quorumWait = time.Hour // node 2 is not running: keep leading while it is unreachable
	l := &leader{Raft: r, repls: make(map[uint64]*replication),
		transfer: transfer{timer: newSafeTimer(), newTermTimer: newSafeTimer()}}
	r.ldr, r.cnd = l, &candidate{Raft: r}
	go r.fsm.runLoop()
	l.init()
	// client updates with payloads that fill a 1 KiB segment every other entry
	for i := 0; i < 6; i++ {
		l.storeEntry(&newEntry{entry: &entry{typ: entryUpdate, data: make([]byte, 400)}, task: newTask()})
	}
	return r, l
}

func TestVerifFindingF(t *testing.T) {
	dir, _ := ioutil.TempDir("", "verif")
	defer os.RemoveAll(dir)
	r, l := vNativeCompactLeader(t, dir)
	defer close(r.fsm.ch)
	defer l.release()
	// follower 2 has everything: all of it commits and is applied
	st := &l.repls[2].status
	l.checkReplUpdates(replUpdate{status: st, update: matchIndex{r.lastLogIndex}})
	if r.commitIndex != r.lastLogIndex || r.lastApplied() != r.lastLogIndex {
		t.Fatalf("commit=%d last=%d", r.commitIndex, r.lastLogIndex)
	}
	meta, err := doTakeSnapshot(r.fsm, 0)
	if err != nil {
		t.Fatal(err)
	}
	prev0 := r.log.PrevIndex()
	r.snapTakenCh = make(chan snapTaken, 1)
	r.onSnapshotTaken(snapTaken{req: takeSnapshot{task: newTask()}, meta: meta})
	t.Logf("snapshot at %d; first index-1 went %d -> %d; leader.removeLTE=%d state=%v sameldr=%v", meta.index, prev0, r.log.PrevIndex(), l.removeLTE, r.state, r.ldr == l)
	if r.log.PrevIndex() == prev0 || r.state != Leader {
		t.Fatalf("scenario not reached: compacted=%v state=%v", r.log.PrevIndex() != prev0, r.state)
	}
	// what the next notifyFlr (any new client entry) does:
	if v := l.log.ViewAt(l.removeLTE, l.lastLogIndex); v == nil {
		t.Fatalf("leader.removeLTE=%d is below the log's first index-1=%d: the view notifyFlr hands to replications is nil", l.removeLTE, r.log.PrevIndex())
	}
}

func TestVerifFindingI(t *testing.T) {
	dir, _ := ioutil.TempDir("", "verif")
	defer os.RemoveAll(dir)
	r, l := vNativeCompactLeader(t, dir)
	defer close(r.fsm.ch)
	defer l.release()
	repl := l.repls[2]
	// everything is committed on the leader alone? no: 2 voters. Let follower 2 acknowledge up to the end of the first
	// segment, then the rest, but remember only the first acknowledgement as its match index for compaction purposes:
	firstSegEnd := r.log.CanLTE(r.lastLogIndex) // end of the last whole segment... find the first boundary instead
	for i := r.log.PrevIndex() + 1; i <= r.lastLogIndex; i++ {
		if b := r.log.CanLTE(i); b > r.log.PrevIndex() {
			firstSegEnd = b
			break
		}
	}
	// a third node is not needed: commit needs node 2's acknowledgement of everything; it then falls behind again is
	// impossible (match index never decreases). Instead: node 2 acknowledged exactly the first segment; the leader's
	// commit index is therefore firstSegEnd; the snapshot is taken there... so use a later snapshot: let node 2
	// acknowledge one more entry first.
	l.checkReplUpdates(replUpdate{status: &repl.status, update: matchIndex{firstSegEnd + 1}})
	if r.commitIndex != firstSegEnd+1 {
		t.Fatalf("commit=%d want %d", r.commitIndex, firstSegEnd+1)
	}
	_ = r.lastApplied()
	meta, err := doTakeSnapshot(r.fsm, 0) // snapshot at firstSegEnd+1
	if err != nil {
		t.Fatal(err)
	}
	// the replication task's own progress, as after the success reply for firstSegEnd (+1 is still in flight to it):
	repl.status.matchIndex = firstSegEnd // what the leader goroutine knows when the snapshot completes
	viewPrev := repl.log.PrevIndex()
	r.snapTakenCh = make(chan snapTaken, 1)
	r.onSnapshotTaken(snapTaken{req: takeSnapshot{task: newTask()}, meta: meta})
	next := firstSegEnd + 1 // replication's nextIndex: it reads prevLogIndex = firstSegEnd to fill prevLogTerm
	t.Logf("snapshot=%d match(2)=%d log first index-1: %d; replication still holds the view from %d; it reads index %d next",
		meta.index, repl.status.matchIndex, r.log.PrevIndex(), viewPrev, next-1)
	// the view it will read through: the one it holds, or the one in a leaderUpdate still waiting in its channel
	view := repl.log
	select {
	case u := <-repl.leaderUpdateCh:
		view = u.log
	default:
	}
	if next-1 <= r.log.PrevIndex() && next-1 != meta.index && view.PrevIndex() < next-1 {
		t.Fatalf("entry %d, which replication 2 reads next through its old view, was in a segment that has been unmapped and removed", next-1)
	}
}
