package raft

// Native demonstrations, on a hand-driven leader (the handlers are called directly, as the raft goroutine would):
// (b) leader.changeConfig computes numVoters from the configuration being replaced, so a single-voter leader that
//     promotes a second voter commits that very configuration alone;
// (c) leader.init starts pending configuration actions before any entry of the new term is committed.

import (
	"io/ioutil"
	"os"
	"testing"
)

func vNativeLeader(t *testing.T, dir string, cfg Config) (*Raft, *leader) {
	if err := SetIdentity(dir, 1, 1); err != nil {
		t.Fatal(err)
	}
	opt := DefaultOptions()
	opt.PromoteThreshold = 1 << 40
	r, err := New(opt, nil, dir)
	if err != nil {
		t.Fatal(err)
	}
	if err := r.storage.bootstrap(cfg); err != nil {
		t.Fatal(err)
	}
	r.changeConfig(cfg)
	r.commitConfig()
	r.commitIndex = 1
	r.fsm.index = 1
	r.state, r.leader = Leader, 1
	l := &leader{Raft: r, repls: make(map[uint64]*replication),
		transfer: transfer{timer: newSafeTimer(), newTermTimer: newSafeTimer()}}
	r.ldr, r.cnd = l, &candidate{Raft: r}
	return r, l
}

func TestVerifFindingB(t *testing.T) {
	dir, _ := ioutil.TempDir("", "verif")
	defer os.RemoveAll(dir)
	cfg := Config{Nodes: map[uint64]Node{1: {ID: 1, Addr: "localhost:7001", Voter: true}}, Index: 1, Term: 1}
	r, l := vNativeLeader(t, dir, cfg)
	l.init() // no-op at index 2, committed at once (single voter)
	defer l.release()
	if r.commitIndex != 2 {
		t.Fatalf("commitIndex=%d", r.commitIndex)
	}
	// add node 2 as non-voter to be promoted
	nc := r.configs.Latest.clone()
	if err := nc.AddNonvoter(2, "localhost:7002", true); err != nil {
		t.Fatal(err)
	}
	l.onChangeConfig(changeConfig{task: newTask(), newConf: nc}) // index 3, committed at once (still one voter)
	if r.commitIndex != 3 || !r.configs.IsCommitted() {
		t.Fatalf("commitIndex=%d committed=%v", r.commitIndex, r.configs.IsCommitted())
	}
	// node 2 catches up to index 3: its round finishes and it is promoted (configuration entry at index 4)
	st := &l.repls[2].status
	l.checkReplUpdates(replUpdate{status: st, update: matchIndex{3}})
	if !r.configs.Latest.isVoter(2) || r.configs.Latest.Index != 4 {
		t.Fatalf("node 2 not promoted: %v", r.configs.Latest)
	}
	t.Logf("voters=%d latest.index=%d commitIndex=%d match(2)=%d", r.configs.Latest.numVoters(), r.configs.Latest.Index, r.commitIndex, st.matchIndex)
	if r.commitIndex >= 4 && st.matchIndex < 4 {
		t.Fatalf("entry 4 (the 2-voter configuration) committed with 1 of 2 voters: node 2 has only %d", st.matchIndex)
	}
}

func TestVerifFindingC(t *testing.T) {
	dir, _ := ioutil.TempDir("", "verif")
	defer os.RemoveAll(dir)
	// node 3 (a voter) is marked to be demoted; the configuration is committed; then leadership changes to node 1
	cfg := Config{Nodes: map[uint64]Node{
		1: {ID: 1, Addr: "localhost:7001", Voter: true},
		2: {ID: 2, Addr: "localhost:7002", Voter: true},
		3: {ID: 3, Addr: "localhost:7003", Voter: true, Action: Demote},
	}, Index: 1, Term: 1}
	r, l := vNativeLeader(t, dir, cfg)
	r.storage.setTerm(2)
	l.init()
	defer l.release()
	e := &entry{}
	r.storage.mustGetEntry(l.startIndex, e)
	t.Logf("startIndex=%d commitIndex=%d first entry of the term: type=%v latest.index=%d", l.startIndex, r.commitIndex, e.typ, r.configs.Latest.Index)
	if r.configs.Latest.Index >= l.startIndex && r.commitIndex < l.startIndex {
		t.Fatalf("configuration change appended at index %d before the leader committed any entry of its term (commitIndex=%d, startIndex=%d)",
			r.configs.Latest.Index, r.commitIndex, l.startIndex)
	}
}
