package raft

// Native demonstration of finding (t): onInstallSnapRequest publishes the received snapshot and only then resets the
// log. If the node's log reaches the snapshot's last index but holds a DIFFERENT term there (uncommitted entries of a
// deposed leader), the handler is about to discard the log; a process that dies in between restarts with those stale
// entries below and at its snapshot index (openStorage only finished the reset when the log ended BELOW the snapshot).
// A later leadership of this node replicates them to a lagging follower, which applies them.

import (
	"bytes"
	"io/ioutil"
	"os"
	"testing"
)

func TestVerifFindingT(t *testing.T) {
	dir, _ := ioutil.TempDir("", "verif")
	defer os.RemoveAll(dir)
	if err := SetIdentity(dir, 1, 2); err != nil {
		t.Fatal(err)
	}
	opt := DefaultOptions()
	st, err := openStorage(dir, opt)
	if err != nil {
		t.Fatal(err)
	}
	cfg := Config{Nodes: map[uint64]Node{1: {ID: 1, Addr: "localhost:7001", Voter: true}, 2: {ID: 2, Addr: "localhost:7002", Voter: true}}, Index: 1, Term: 1}
	if err := st.bootstrap(cfg); err != nil {
		t.Fatal(err)
	}
	// entries 2..4 from a leader of term 2 that was deposed before committing them
	st.setTerm(2)
	for i := uint64(2); i <= 4; i++ {
		st.appendEntry(&entry{index: i, term: 2, typ: entryUpdate, data: []byte("stale")})
	}
	st.commitLog(3)
	// the leader of term 3 committed other entries at 2..3 and sends its snapshot {index 3, term 3}:
	// onInstallSnapRequest stores it first ...
	st.setTerm(3)
	sink, err := st.snaps.new(3, 3, cfg)
	if err != nil {
		t.Fatal(err)
	}
	if _, err := sink.file.Write([]byte("state")); err != nil {
		t.Fatal(err)
	}
	if _, err := sink.done(nil); err != nil {
		t.Fatal(err)
	}
	// ... finds term 2 at index 3, decides to discard the log, and the process dies before clearLog runs.
	_ = st.log.Close()

	st2, err := openStorage(dir, opt)
	if err != nil {
		t.Fatalf("restart failed: %v", err)
	}
	defer st2.log.Close()
	t.Logf("after restart: snapshot (index %d, term %d), log (%d,%d], lastLogTerm %d", st2.snaps.index, st2.snaps.term, st2.log.PrevIndex(), st2.log.LastIndex(), st2.lastLogTerm)
	for i := st2.log.PrevIndex() + 1; i <= st2.log.LastIndex() && i <= st2.snaps.index; i++ {
		b, err := st2.log.Get(i)
		if err != nil {
			t.Fatal(err)
		}
		e := &entry{}
		if err := e.decode(bytes.NewReader(b)); err != nil {
			t.Fatal(err)
		}
		if i == st2.snaps.index && e.term != st2.snaps.term {
			t.Errorf("restarted log holds term %d at the snapshot's last index %d, the snapshot says term %d: entries up to there contradict committed history and would be replicated by this node as leader", e.term, i, st2.snaps.term)
		}
	}
}
