package raft

import (
	"bufio"
	"bytes"
	"encoding/gob"
	"errors"
	"fmt"
	"io"
	"io/ioutil"
	"net"
	"runtime/debug"
	"sync"
	"testing"
	"time"
)

// ---------------------------------------------------------------------------
// harness: a single real node (real storage in a temp dir), whose handlers
// are driven directly by the test, the way stateLoop would drive them
// ---------------------------------------------------------------------------

type reviewConn struct {
	net.Conn
	r *bytes.Reader
}

func (c *reviewConn) Read(b []byte) (int, error)        { return c.r.Read(b) }
func (c *reviewConn) SetReadDeadline(t time.Time) error { return nil }

func reviewNewConn(payload []byte) *conn {
	rwc := &reviewConn{r: bytes.NewReader(payload)}
	return &conn{rwc: rwc, bufr: bufio.NewReader(rwc)}
}

type reviewNode struct {
	*Raft
	dir      string
	mock     *fsmMock
	fsmPanic chan interface{}
}

func reviewOptions() Options {
	opt := DefaultOptions()
	opt.Logger = nil
	opt.LogSegmentSize = 1024
	opt.SnapshotInterval = 0
	opt.SnapshotThreshold = 0
	return opt
}

// creates storage for node nid, bootstrapped with given nodes
func reviewStorage(t *testing.T, nid uint64, nodes map[uint64]Node) string {
	t.Helper()
	dir, err := ioutil.TempDir(tempDir, "review")
	if err != nil {
		t.Fatal(err)
	}
	if err := SetIdentity(dir, 4321, nid); err != nil {
		t.Fatal(err)
	}
	if err := bootstrapStorage(dir, reviewOptions(), nodes); err != nil {
		t.Fatal(err)
	}
	return dir
}

// opens the node on given storage, and runs its fsm loop.
// a panic in fsm loop is captured in fsmPanic
func reviewOpen(t *testing.T, dir string) *reviewNode {
	t.Helper()
	mock := &fsmMock{}
	r, err := New(reviewOptions(), mock, dir)
	if err != nil {
		t.Fatal(err)
	}
	mock.id = identity{r.cid, r.nid}
	n := &reviewNode{Raft: r, dir: dir, mock: mock, fsmPanic: make(chan interface{}, 1)}
	r.ldr = &leader{Raft: r, repls: make(map[uint64]*replication)}
	r.cnd = &candidate{Raft: r}
	go func() {
		defer func() {
			if v := recover(); v != nil {
				n.fsmPanic <- v
			}
		}()
		r.fsm.runLoop()
	}()
	// what Serve does on start
	if r.snaps.index > 0 {
		r.fsm.ch <- fsmRestoreReq{r.fsmRestoredCh}
		if err := <-r.fsmRestoredCh; err != nil {
			t.Fatal(err)
		}
		r.commitIndex = r.snaps.index
	}
	return n
}

func (n *reviewNode) close() {
	defer func() { _ = recover() }()
	close(n.fsm.ch)
	_ = n.log.Close()
}

func reviewNodes(ids ...uint64) map[uint64]Node {
	nodes := make(map[uint64]Node)
	for _, id := range ids {
		nodes[id] = Node{ID: id, Addr: fmt.Sprintf("localhost:%d", 7000+id), Voter: true}
	}
	return nodes
}

func reviewUpdate(index, term uint64) *entry {
	return &entry{index: index, term: term, typ: entryUpdate, data: []byte(fmt.Sprintf("cmd-%04d", index))}
}

// sends appendEntries request from leader ldr, the way server would
func (n *reviewNode) appendEntries(t *testing.T, term, ldr, prevIndex, prevTerm, ldrCommit uint64, entries ...*entry) rpcResult {
	t.Helper()
	buf := new(bytes.Buffer)
	for _, e := range entries {
		if err := e.encode(buf); err != nil {
			t.Fatal(err)
		}
	}
	req := &appendReq{
		req:            req{term, ldr},
		prevLogIndex:   prevIndex,
		prevLogTerm:    prevTerm,
		ldrCommitIndex: ldrCommit,
		numEntries:     uint64(len(entries)),
	}
	result, err := n.onRequest(req, reviewNewConn(buf.Bytes()))
	if err != nil {
		t.Fatalf("appendEntries: result %v err %v", result, err)
	}
	return result
}

// snapshot contents that fsmMock produces after applying updates 2..index
func reviewSnapshotData(t *testing.T, index uint64) []byte {
	t.Helper()
	var cmds []string
	for i := uint64(2); i <= index; i++ {
		cmds = append(cmds, string(reviewUpdate(i, 0).data))
	}
	buf := new(bytes.Buffer)
	if err := gob.NewEncoder(buf).Encode(cmds); err != nil {
		t.Fatal(err)
	}
	return buf.Bytes()
}

func (n *reviewNode) installSnap(t *testing.T, term, ldr, lastIndex, lastTerm uint64, config Config, data []byte) rpcResult {
	t.Helper()
	req := &installSnapReq{
		req:        req{term, ldr},
		lastIndex:  lastIndex,
		lastTerm:   lastTerm,
		lastConfig: config,
		size:       int64(len(data)),
	}
	result, err := n.onRequest(req, reviewNewConn(data))
	if err != nil {
		t.Fatalf("installSnap: result %v err %v", result, err)
	}
	return result
}

// waits until fsm has applied upto index, or fsm loop panics
func (n *reviewNode) waitApplied(index uint64, timeout time.Duration) (applied uint64, panicked interface{}) {
	deadline := time.Now().Add(timeout)
	for {
		select {
		case v := <-n.fsmPanic:
			return 0, v
		default:
		}
		done := make(chan uint64, 1)
		go func() {
			defer func() { _ = recover() }()
			done <- n.lastApplied()
		}()
		select {
		case v := <-n.fsmPanic:
			return 0, v
		case applied = <-done:
			if applied >= index || time.Now().After(deadline) {
				return applied, nil
			}
		case <-time.After(timeout):
			return 0, fmt.Errorf("fsm loop does not respond")
		}
		time.Sleep(5 * time.Millisecond)
	}
}

// ---------------------------------------------------------------------------

// C09: a follower that holds entries beyond its commit index gets a snapshot whose
// index is inside follower's log with matching term. follower compacts its log upto
// snapshot index, though its fsm has not applied those entries and fsm is not
// restored from the snapshot. those entries can never be applied afterwards.
//
// how it can happen with this library's own leader: leader pipelines entries 11..100 on
// conn1, follower is slow and they stay in its socket buffer. leader times out, closes conn1,
// dials conn2 and probes: follower (last index 10) makes it go back to nextIndex 11. then
// follower's server goroutine of conn1 delivers the buffered requests ("stale req from old
// connection"): follower now has 1..100 with commit index 10, leader thinks matchIndex is 10.
// conn2 breaks too, leader takes follower as unreachable, takes snapshot at 90 and compacts
// beyond 10. on reconnect entry 10 is not found in leader's log, so it sends the snapshot
func TestReview1(t *testing.T) {
	dir := reviewStorage(t, 1, reviewNodes(1, 2, 3))
	n := reviewOpen(t, dir)
	defer n.close()

	const term, ldr = 2, 2

	// entries 2..10 are stored and committed
	var entries []*entry
	for i := uint64(2); i <= 10; i++ {
		entries = append(entries, reviewUpdate(i, term))
	}
	if got := n.appendEntries(t, term, ldr, 1, 1, 10, entries...); got != success {
		t.Fatalf("append 2..10: %v", got)
	}
	if applied, p := n.waitApplied(10, 5*time.Second); p != nil || applied != 10 {
		t.Fatalf("applied %d panic %v", applied, p)
	}

	// entries 11..100 are stored, leader has not committed them yet.
	// (leader does not know that we have them)
	entries = nil
	for i := uint64(11); i <= 100; i++ {
		entries = append(entries, reviewUpdate(i, term))
	}
	if got := n.appendEntries(t, term, ldr, 10, term, 10, entries...); got != success {
		t.Fatalf("append 11..100: %v", got)
	}
	if n.commitIndex != 10 || n.lastLogIndex != 100 {
		t.Fatalf("commitIndex %d lastLogIndex %d", n.commitIndex, n.lastLogIndex)
	}

	// meanwhile leader committed them with others, took snapshot at 90 and compacted
	// its log. as it knows matchIndex of this node as 10, it sends the snapshot
	if got := n.installSnap(t, term, ldr, 90, term, n.configs.Latest, reviewSnapshotData(t, 90)); got != success {
		t.Fatalf("installSnap: %v", got)
	}
	applied, p := n.waitApplied(0, 5*time.Second)
	if p != nil {
		t.Fatalf("fsm panic %v", p)
	}
	t.Logf("after installSnap: snapIndex %d firstLogIndex %d lastLogIndex %d commitIndex %d lastApplied %d fsmLen %d",
		n.snaps.index, n.log.PrevIndex()+1, n.lastLogIndex, n.commitIndex, applied, n.mock.len())
	lost := n.log.PrevIndex() > applied && n.mock.len() == applied-1
	if lost {
		t.Errorf("entries %d..%d are removed from log, but fsm has applied only upto %d and is not restored from snapshot",
			applied+1, n.log.PrevIndex(), applied)
	}

	// leader goes on: heartbeat with commit index 100
	if got := n.appendEntries(t, term, ldr, 100, term, 100); got != success {
		t.Fatalf("heartbeat: %v", got)
	}
	applied, p = n.waitApplied(100, 5*time.Second)
	if p != nil {
		t.Fatalf("fsm loop panicked while applying committed entries after installSnap: %v", p)
	}
	if applied != 100 || n.mock.len() != 99 {
		t.Fatalf("applied %d fsmLen %d, want 100, 99", applied, n.mock.len())
	}
}

// ---------------------------------------------------------------------------

// C08: in a cluster with single voter, a config entry is committed as soon as it is
// stored. onChangeConfig takes "latest config is committed" after checkConfigActions
// as "no action was started" and stores the config that user submitted once again.
// that config is older than the one just adopted: it brings back the node just removed.
func TestReview3(t *testing.T) {
	c, ldr, _ := launchCluster(t, 1)
	defer c.shutdown()
	c.waitCommitReady(ldr)

	// add M2 as nonvoter and let it catchup
	c.launch(1, false)
	c.ensure(c.waitAddNonvoter(ldr, 2, c.id2Addr(2), false))
	c.waitForStableConfig(ldr)
	c.waitCatchup()

	configChanged := c.registerFor(eventConfigChanged, ldr)
	defer c.unregister(configChanged)

	// now force remove M2
	before := c.info(ldr)
	newConf := before.Configs.Latest
	if err := newConf.SetAction(2, ForceRemove); err != nil {
		t.Fatal(err)
	}
	if _, err := waitTask(ldr, ChangeConfig(newConf), c.longTimeout); err != nil {
		t.Fatal(err)
	}
	c.waitForStableConfig(ldr)
	time.Sleep(100 * time.Millisecond)

	var adopted []Config
	for {
		select {
		case e := <-configChanged.ch:
			adopted = append(adopted, e.configs.Latest)
			continue
		default:
		}
		break
	}
	for i, conf := range adopted {
		t.Logf("adopted[%d]: %v", i, conf)
	}
	if len(adopted) == 0 {
		t.Fatal("no config adopted")
	}
	if _, ok := adopted[0].Nodes[2]; ok {
		t.Fatalf("first config adopted still has M2: %v", adopted[0])
	}
	for _, conf := range adopted[1:] {
		if _, ok := conf.Nodes[2]; ok {
			t.Fatalf("M2 is removed by config %d, but later config %d has brought it back: %v", adopted[0].Index, conf.Index, conf)
		}
	}
	if len(adopted) != 1 {
		t.Fatalf("one remove request made leader adopt %d configs", len(adopted))
	}
}

// ---------------------------------------------------------------------------

// connection to a scripted follower. responses are fed by test.
// the write of log entries (large write, straight from mmapped log)
// can be made slow: it signals blocked and waits for gate
type reviewFlrConn struct {
	net.Conn
	resps     chan []byte
	pending   []byte
	closed    chan struct{}
	closeOnce sync.Once

	slowWrite int           // which large write is slow: 1 means first
	blocked   chan struct{} // closed when the slow write is reached
	gate      chan struct{} // slow write goes on, when this is closed
	nLarge    int
	verdict   chan string // what the slow write has seen in its buffer, after the gate is opened
}

func (c *reviewFlrConn) SetDeadline(time.Time) error      { return nil }
func (c *reviewFlrConn) SetReadDeadline(time.Time) error  { return nil }
func (c *reviewFlrConn) SetWriteDeadline(time.Time) error { return nil }
func (c *reviewFlrConn) Close() error {
	c.closeOnce.Do(func() { close(c.closed) })
	return nil
}

func (c *reviewFlrConn) Read(b []byte) (int, error) {
	if len(c.pending) == 0 {
		select {
		case <-c.closed:
			return 0, io.EOF
		case c.pending = <-c.resps:
		}
	}
	n := copy(b, c.pending)
	c.pending = c.pending[n:]
	return n, nil
}

func (c *reviewFlrConn) Write(b []byte) (n int, err error) {
	if len(b) <= 100 { // request header
		return len(b), nil
	}
	c.nLarge++
	if c.nLarge != c.slowWrite {
		return len(b), nil
	}
	// b is the data of log entries, straight from mmapped segment file.
	// network is slow: the write takes a while
	before := append([]byte(nil), b...)
	close(c.blocked)
	<-c.gate

	// now the bytes are really taken from b
	old := debug.SetPanicOnFault(true)
	defer func() {
		debug.SetPanicOnFault(old)
		if v := recover(); v != nil {
			c.verdict <- fmt.Sprintf("memory fault on reading the buffer: %v", v)
			n, err = 0, errors.New("write failed")
		}
	}()
	after := append([]byte(nil), b...)
	if !bytes.Equal(before, after) {
		// the address range is mapped again to something else
		c.verdict <- fmt.Sprintf("buffer contents changed during the write: %q... -> %q...", before[:40], after[:40])
		return 0, errors.New("write failed")
	}
	c.verdict <- ""
	return len(b), nil
}

func reviewAppendResp(t *testing.T, term uint64, result rpcResult, lastLogIndex uint64) []byte {
	t.Helper()
	buf := new(bytes.Buffer)
	if err := (&appendResp{resp{term, result, nil}, lastLogIndex}).encode(buf); err != nil {
		t.Fatal(err)
	}
	return buf.Bytes()
}

// makes node the leader of term 2, with 200 more entries in its log. M2 is reachable through
// given conn and its log has only first entry, M3 is not reachable. returns when replication
// of M2 is in the middle of a slow write of log entries to M2
func reviewLeaderInSlowWrite(t *testing.T, n *reviewNode, fc *reviewFlrConn) {
	t.Helper()
	n.dialFn = func(network, address string, timeout time.Duration) (net.Conn, error) {
		return nil, errors.New("unreachable")
	}
	n.getConnPool(2).conns = []*conn{{rwc: fc, bufr: bufio.NewReader(fc), bufw: bufio.NewWriter(fc)}}
	n.ldr = &leader{
		Raft:     n.Raft,
		repls:    make(map[uint64]*replication),
		transfer: transfer{timer: newSafeTimer(), newTermTimer: newSafeTimer()},
	}

	// win election of term 2
	n.setVotedFor(2, n.nid)
	n.setState(Leader)
	n.setLeader(n.nid)
	n.ldr.init()

	// clients submit 200 updates
	var head, tail *newEntry
	for i := 0; i < 200; i++ {
		ne := UpdateFSM([]byte(fmt.Sprintf("cmd-%04d", i))).newEntry()
		if head == nil {
			head, tail = ne, ne
		} else {
			tail.next, tail = ne, ne
		}
	}
	n.ldr.storeEntry(head)
	if n.lastLogIndex != 202 {
		t.Fatalf("lastLogIndex %d", n.lastLogIndex)
	}

	// M2 has only first entry
	fc.resps <- reviewAppendResp(t, 2, prevEntryNotFound, 1)
	fc.resps <- reviewAppendResp(t, 2, success, 1)

	select {
	case <-fc.blocked:
	case <-time.After(10 * time.Second):
		t.Fatal("replication did not start sending entries")
	}
}

func reviewNewFlrConn(slowWrite int) *reviewFlrConn {
	return &reviewFlrConn{
		resps:     make(chan []byte, 16),
		closed:    make(chan struct{}),
		slowWrite: slowWrite,
		blocked:   make(chan struct{}),
		gate:      make(chan struct{}),
		verdict:   make(chan string, 1),
	}
}

func reviewGateOpener(gate chan struct{}) func() {
	var once sync.Once
	return func() { once.Do(func() { close(gate) }) }
}

// C09: leader replies requests of a newer leader, while its replications are still running:
// they are stopped by leader.release only after the request is handled. if the request is
// installSnap that discards the log, the log is reset (segments unmapped and deleted)
// under a replication that is in the middle of writing entries from it to its follower
func TestReview2(t *testing.T) {
	dir := reviewStorage(t, 1, reviewNodes(1, 2, 3))
	n := reviewOpen(t, dir)
	defer n.close()

	fc := reviewNewFlrConn(1)
	reviewLeaderInSlowWrite(t, n, fc)
	defer n.ldr.release() // stops replications
	openGate := reviewGateOpener(fc.gate)
	time.AfterFunc(300*time.Millisecond, openGate) // the slow write completes eventually (a real conn has a write deadline)

	// M3 became leader of term 3 with others, went far ahead, and sends its snapshot to us
	if got := n.installSnap(t, 3, 3, 500, 3, n.configs.Latest, reviewSnapshotData(t, 500)); got != success {
		t.Fatalf("installSnap: %v", got)
	}
	if n.state != Follower || n.lastLogIndex != 500 || n.log.PrevIndex() != 500 {
		t.Fatalf("state %v lastLogIndex %d prevIndex %d", n.state, n.lastLogIndex, n.log.PrevIndex())
	}
	if repl, ok := n.ldr.repls[2]; !ok || isClosed(repl.stopCh) {
		t.Log("replication of M2 was stopped by the handler, before it touched the log (finding aj repaired)")
		return
	}

	// the slow write goes on
	openGate()
	select {
	case v := <-fc.verdict:
		if v != "" {
			t.Fatalf("log is reset by installSnap, while replication of M2 is writing entries from it: %s", v)
		}
	case <-time.After(10 * time.Second):
		t.Fatal("no verdict")
	}
}

// same as TestReview2, but the request is appendEntries that truncates the conflicting suffix
func TestReview4(t *testing.T) {
	dir := reviewStorage(t, 1, reviewNodes(1, 2, 3))
	n := reviewOpen(t, dir)
	defer n.close()

	fc := reviewNewFlrConn(2) // entries from second segment
	reviewLeaderInSlowWrite(t, n, fc)
	defer n.ldr.release() // stops replications
	openGate := reviewGateOpener(fc.gate)
	time.AfterFunc(300*time.Millisecond, openGate) // the slow write completes eventually (a real conn has a write deadline)

	// M3 became leader of term 3 with others. its entry 2 conflicts with ours
	if got := n.appendEntries(t, 3, 3, 1, 1, 1, &entry{index: 2, term: 3, typ: entryNop}); got != success {
		t.Fatalf("appendEntries: %v", got)
	}
	if n.state != Follower || n.lastLogIndex != 2 {
		t.Fatalf("state %v lastLogIndex %d", n.state, n.lastLogIndex)
	}
	if repl, ok := n.ldr.repls[2]; !ok || isClosed(repl.stopCh) {
		t.Log("replication of M2 was stopped by the handler, before it touched the log (finding aj repaired)")
		return
	}

	// the slow write goes on
	openGate()
	select {
	case v := <-fc.verdict:
		if v != "" {
			t.Fatalf("log is truncated by appendEntries, while replication of M2 is writing entries from it: %s", v)
		}
	case <-time.After(10 * time.Second):
		t.Fatal("no verdict")
	}
}

// ---------------------------------------------------------------------------

// (not one of C19/C12/C09/C08, liveness) leader.notifyFlr keeps only the newest leaderUpdate
// for a replication: a pending update is taken out and replaced. but only the update made
// for a config entry carries the config. if replication is busy (slow write) when config
// is changed, and one more entry is stored before it looks at its updates, the update with
// config is dropped. replication never learns that its node has become voter, and it does
// not send heartbeats to nonvoter: the new voter times out and disrupts the cluster
func TestReview5(t *testing.T) {
	nodes := reviewNodes(1, 2, 3)
	nodes[2] = Node{ID: 2, Addr: nodes[2].Addr, Voter: false, Action: Promote}
	dir := reviewStorage(t, 1, nodes)
	n := reviewOpen(t, dir)
	defer n.close()

	fc := reviewNewFlrConn(1)
	reviewLeaderInSlowWrite(t, n, fc)
	defer n.ldr.release() // stops replications
	repl := n.ldr.repls[2]

	// M2 is promoted: what checkConfigAction does for Promote
	config := n.configs.Latest.clone()
	config.Nodes[2] = Node{ID: 2, Addr: nodes[2].Addr, Voter: true}
	n.ldr.doChangeConfig(nil, config)
	if !n.configs.Latest.isVoter(2) || !repl.status.node.Voter {
		t.Fatal("M2 must be voter in latest config")
	}

	// client submits one more update
	n.ldr.storeEntry(UpdateFSM([]byte("one more")).newEntry())

	// the slow write finishes, M2 replies success to all requests
	close(fc.gate)
	if v := <-fc.verdict; v != "" {
		t.Fatal(v)
	}
	for i := 0; i < 10; i++ {
		fc.resps <- reviewAppendResp(t, 2, success, 0)
	}

	// wait until everything is sent to M2
	caughtUp := func() bool {
		for {
			select {
			case u := <-n.ldr.replUpdateCh:
				if m, ok := u.update.(matchIndex); ok && u.status.id == 2 {
					u.status.matchIndex = m.val
				}
				continue
			default:
			}
			break
		}
		return repl.status.matchIndex == n.lastLogIndex
	}
	if !waitForCondition(caughtUp, 10*time.Millisecond, 10*time.Second) {
		t.Fatalf("M2 matchIndex %d, lastLogIndex %d", repl.status.matchIndex, n.lastLogIndex)
	}
	time.Sleep(100 * time.Millisecond)
	if len(repl.leaderUpdateCh) != 0 {
		t.Fatal("replication still has pending update")
	}
	if !repl.node.Voter {
		t.Fatalf("M2 is voter in latest config %v, all entries are replicated to it, "+
			"but its replication still takes it as nonvoter: no heartbeats will be sent", n.configs.Latest)
	}
}
