package raft

import (
	"fmt"
	"runtime/debug"
	"testing"
	"time"
)

// TestReview1: a leader whose own demotion (or removal) commits inside
// leader.checkReplUpdates steps down there (Raft.setCommitIndex -> setState(Follower)),
// and setState stops the replications and empties leader.repls. checkReplUpdates
// however carries on as if it still were a leader: with a leadership transfer pending
// (no target chosen yet) it calls tryTransfer, which dereferences leader.repls[id]
// (checkQuorum does the same, when a noContact update is in the same batch).
// The nil dereference takes down the whole process (stateLoop recovers it, but
// recoverErr panics again for runtime errors).
//
// expected: the demoted leader steps down and keeps running as nonvoter.
func TestReview1(t *testing.T) {
	c, ldr, flrs := launchCluster(t, 3)
	defer c.shutdown()
	c.waitCommitReady(ldr)
	c.waitCatchup()

	// the client demotes the leader and right away asks for a leadership transfer.
	// both tasks are taken up by the state loop back to back. then the state loop
	// is not scheduled for a moment (inspect keeps it busy), so that the
	// acknowledgements of both followers are waiting in replUpdateCh
	var cfgTask, trTask Task
	var queued int
	var panicked string
	err := ldr.inspect(func(r *Raft) {
		conf := r.configs.Latest.clone()
		if err := conf.SetAction(r.nid, Demote); err != nil {
			panic(err)
		}
		cfgTask = ChangeConfig(conf)
		r.executeTask(cfgTask)
		trTask = TransferLeadership(0, 10*time.Second)
		r.executeTask(trTask)
		if !r.ldr.transfer.inProgress() || r.ldr.transfer.targetChosen() {
			panic("test setup: transfer must be waiting for a target")
		}
		deadline := time.Now().Add(5 * time.Second)
		for len(r.ldr.replUpdateCh) < 2 && time.Now().Before(deadline) {
			time.Sleep(time.Millisecond)
		}
		queued = len(r.ldr.replUpdateCh)
		if queued < 2 {
			return
		}

		// do what stateLoop does now: case u := <-l.replUpdateCh: l.checkReplUpdates(u)
		// note: stateLoop turns a runtime error into a panic of the process (see recoverErr),
		// so it is done here, to be able to report it
		defer func() {
			if v := recover(); v != nil {
				panicked = fmt.Sprintf("%v\n%s", v, debug.Stack())
			}
		}()
		r.ldr.checkReplUpdates(<-r.ldr.replUpdateCh)
	})
	if err != nil {
		t.Fatal(err)
	}
	if queued < 2 {
		t.Fatalf("test setup: got %d replUpdates queued, want 2", queued)
	}
	if panicked != "" {
		t.Fatalf("leader.checkReplUpdates panicked, after the demotion of leader is committed: %s", panicked)
	}

	// both tasks must be answered
	for _, task := range []Task{cfgTask, trTask} {
		select {
		case <-task.Done():
		case <-time.After(c.longTimeout):
			t.Fatal("task not answered")
		}
	}
	t.Logf("changeConfig: %v, transferLeadership: %v", cfgTask.Err(), trTask.Err())

	// one of the remaining voters takes over
	newLdr := c.waitForLeader(flrs...)
	t.Logf("new leader M%d", newLdr.nid)

	// the old leader is only demoted. it must be still running
	select {
	case <-ldr.Closed():
		t.Fatalf("demoted leader M%d has shut down: %v", ldr.nid, ldr.closeReason)
	default:
	}
	if s := c.getState(ldr); s != Follower {
		t.Fatalf("demoted leader state=%v, want %v", s, Follower)
	}
}

// TestReview2: the election timer of a node that is not voter in its own
// configuration is one shot: follower.resetTimer does nothing for it, so after the
// first timeout nothing clears Raft.leader any more (except a closed connection).
// Such node reports a leader it has not heard from for ever, and refuses every
// vote request with leaderKnown. Its vote is needed, when it is voter in the
// candidate's configuration already (promotion entry is in candidate's log, but
// has not reached it yet, when the leader got partitioned).
//
// expected: after more than the maximum election timeout (2*heartbeatTimeout)
// without hearing from leader, the leader is forgotten and vote request is processed
func TestReview2(t *testing.T) {
	c, ldr, flrs := launchCluster(t, 2)
	defer c.shutdown()
	c.waitCommitReady(ldr)

	// add M3 as nonvoter, and wait until its one shot election timer is consumed
	electionAborted := c.registerFor(eventElectionAborted)
	defer c.unregister(electionAborted)
	m3 := c.launch(1, false)[3]
	c.ensure(c.waitAddNonvoter(ldr, 3, c.id2Addr(3), false))
	if !electionAborted.waitFor(func(e *event) bool { return e != nil && e.src == 3 }, c.longTimeout) {
		t.Fatal("test setup: M3 did not abort election")
	}

	// now M3 hears from leader
	c.ensure(waitUpdate(ldr, "hello", c.longTimeout))
	c.waitFSMLen(1)
	c.waitCatchup()
	if got := c.info(m3).Leader; got != ldr.nid {
		t.Fatalf("test setup: M3.leader=%d, want %d", got, ldr.nid)
	}

	// leader has nothing to say to M3 (nonvoters do not get heartbeats). for M3
	// this is same as leader died without the connection being closed
	time.Sleep(3 * c.heartbeatTimeout)

	info := c.info(m3)
	t.Logf("M3: term=%d leader=%d after %v of silence", info.Term, info.Leader, 3*c.heartbeatTimeout)

	// M2 has same term and same log as M3, and M3 has not voted in this term
	granted, err := requestVote(flrs[0], m3, false)
	if err != nil {
		t.Fatal(err)
	}
	if !granted {
		t.Fatalf("M3 refused vote: it still believes in leader M%d, %v after it last heard from it (heartbeatTimeout=%v)",
			c.info(m3).Leader, 3*c.heartbeatTimeout, c.heartbeatTimeout)
	}
}
