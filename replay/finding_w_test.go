package raft

// Native demonstration of finding (w): the pipeline writer of replication.replicate reports each request it has
// written through `select { case <-stopCh: return; case resultCh <- result{...} }`. When the leader stops the
// replication while a write is in flight and the write then completes, both cases are ready and the runtime picks one
// at random: if it picks the stop case the request is on the wire but nobody will read its reply. drainResps finishes
// cleanly and runLoop puts the connection back into the per-peer pool with that reply still queued. The next request on
// the pooled connection - the vote request of the same node's next candidacy - is "answered" by the left-over
// AppendEntries success reply, i.e. counted as a granted vote the peer never gave.
// (uses vNativeLeader from finding_bc_test.go)

import (
	"bufio"
	"io/ioutil"
	"net"
	"os"
	"sync"
	"testing"
	"time"
)

type gatedConn struct {
	net.Conn
	mu      sync.Mutex
	writes  int
	reached chan struct{}
	gate    chan struct{}
}

func (c *gatedConn) Write(b []byte) (int, error) {
	c.mu.Lock()
	c.writes++
	n := c.writes
	c.mu.Unlock()
	if n == 3 {
		close(c.reached)
		<-c.gate // the network is slow for this one
	}
	return c.Conn.Write(b)
}

// a peer that answers like a follower: identity -> success, append -> success, vote -> alreadyVoted
func scriptedPeer(conn net.Conn) {
	br, bw := bufio.NewReader(conn), bufio.NewWriter(conn)
	for {
		b, err := br.ReadByte()
		if err != nil {
			return
		}
		switch rpcType(b) {
		case rpcIdentity:
			q := &identityReq{}
			if q.decode(br) != nil {
				return
			}
			_ = (&identityResp{resp{term: q.term, result: success}}).encode(bw)
		case rpcAppendEntries:
			q := &appendReq{}
			if q.decode(br) != nil {
				return
			}
			_ = (&appendResp{resp{term: q.term, result: success}, q.prevLogIndex + q.numEntries}).encode(bw)
		case rpcVote:
			q := &voteReq{}
			if q.decode(br) != nil {
				return
			}
			_ = (&voteResp{resp{term: q.term, result: alreadyVoted}}).encode(bw)
		default:
			return
		}
		if bw.Flush() != nil {
			return
		}
	}
}

func TestVerifFindingW(t *testing.T) {
	for attempt := 1; attempt <= 40; attempt++ {
		if phantomVote(t) {
			t.Fatalf("attempt %d: a vote request sent on the connection the stopped replication had put back into the pool was answered with result=success although the peer answers every vote request with alreadyVoted: the reply is the pipeline's unread AppendEntries reply", attempt)
		}
	}
	t.Log("40 attempts: the pooled connection never carried a left-over reply")
}

func phantomVote(t *testing.T) bool {
	dir, _ := ioutil.TempDir("", "verif")
	defer os.RemoveAll(dir)
	cfg := Config{Nodes: map[uint64]Node{
		1: {ID: 1, Addr: "localhost:7001", Voter: true},
		2: {ID: 2, Addr: "localhost:7002", Voter: true},
	}, Index: 1, Term: 1}
	r, l := vNativeLeader(t, dir, cfg)
	defer r.storage.log.Close()
	r.hbTimeout = 2 * time.Second
	var gc *gatedConn
	r.dialFn = func(network, address string, timeout time.Duration) (net.Conn, error) {
		// a real (buffered) TCP connection on the loopback interface
		lr, err := net.Listen("tcp", "127.0.0.1:0")
		if err != nil {
			return nil, err
		}
		go func() {
			b, err := lr.Accept()
			_ = lr.Close()
			if err == nil {
				scriptedPeer(b)
			}
		}()
		a, err := net.Dial("tcp", lr.Addr().String())
		if err != nil {
			return nil, err
		}
		gc = &gatedConn{Conn: a, reached: make(chan struct{}), gate: make(chan struct{})}
		return gc, nil
	}
	r.resolver.update(cfg)
	l.replUpdateCh = make(chan replUpdate, 64)
	repl := &replication{
		node: cfg.Nodes[2], rtime: newRandTime(),
		status:        replicationStatus{id: 2, node: cfg.Nodes[2]},
		ldrStartIndex: 1, ldrLastIndex: r.lastLogIndex, nextIndex: r.lastLogIndex + 1,
		connPool: r.getConnPool(2), hbTimeout: r.hbTimeout, timer: newSafeTimer(),
		log: r.log.ViewAt(0, r.lastLogIndex), snaps: r.snaps,
		stopCh: make(chan struct{}), replUpdateCh: l.replUpdateCh, leaderUpdateCh: make(chan leaderUpdate, 1),
	}
	areq := &appendReq{req: req{r.term, r.nid}, ldrCommitIndex: r.commitIndex, prevLogIndex: r.lastLogIndex, prevLogTerm: r.lastLogTerm}
	ended := make(chan struct{})
	go func() { repl.runLoop(areq); close(ended) }()
	// writes: identity handshake, probe, then the pipeline's first request - held by the gate
	for gc == nil {
		time.Sleep(time.Millisecond)
	}
	select {
	case <-gc.reached:
	case <-time.After(5 * time.Second):
		t.Fatal("pipeline write not reached")
	}
	close(repl.stopCh)                // the leader steps down and stops its replications
	time.Sleep(50 * time.Millisecond) // the reader closes the pipeline's stop channel and starts draining
	close(gc.gate)                    // the write completes after all
	select {
	case <-ended:
	case <-time.After(10 * time.Second):
		t.Fatal("replication did not end")
	}
	pool := r.getConnPool(2)
	pool.mu.Lock()
	pooled := len(pool.conns)
	pool.mu.Unlock()
	if pooled == 0 {
		return false // the connection was closed: nothing can be misread
	}
	// the same node campaigns later and reuses the pooled connection
	resp := &voteResp{}
	err := pool.doRPC(&voteReq{req: req{r.term + 1, r.nid}, lastLogIndex: r.lastLogIndex, lastLogTerm: r.lastLogTerm}, resp, time.Now().Add(2*time.Second))
	if err != nil {
		return false
	}
	return resp.result == success
}
