package raft

// Native demonstration of findings (h)/(k): onInstallSnapRequest publishes the received snapshot (snapshotSink.done)
// and only then resets the log; Log.Reset itself unlinks every segment before creating the new one. A process that dies
// in between restarts with a log that ends below its snapshot index (or with an empty log at index 0), and the next
// entry a leader sends (snapshot index + 1) trips storage.appendEntry's assertion.

import (
	"io/ioutil"
	"os"
	"path/filepath"
	"testing"
)

func TestVerifFindingH(t *testing.T) {
	for _, variant := range []string{"crash-before-reset", "crash-inside-reset"} {
		dir, _ := ioutil.TempDir("", "verif")
		defer os.RemoveAll(dir)
		if err := SetIdentity(dir, 1, 2); err != nil {
			t.Fatal(err)
		}
		opt := DefaultOptions()
		st, err := openStorage(dir, opt)
		if err != nil {
			t.Fatal(err)
		}
		cfg := Config{Nodes: map[uint64]Node{1: {ID: 1, Addr: "localhost:7001", Voter: true}, 2: {ID: 2, Addr: "localhost:7002", Voter: true}}, Index: 1, Term: 1}
		if err := st.bootstrap(cfg); err != nil {
			t.Fatal(err)
		}
		// what onInstallSnapRequest does first: store the snapshot {index 5, term 1}
		sink, err := st.snaps.new(5, 1, cfg)
		if err != nil {
			t.Fatal(err)
		}
		if _, err := sink.file.Write([]byte("state")); err != nil {
			t.Fatal(err)
		}
		if _, err := sink.done(nil); err != nil {
			t.Fatal(err)
		}
		if variant == "crash-inside-reset" {
			// Log.Reset has unlinked the segments, the process dies before the new one exists
			files, _ := filepath.Glob(filepath.Join(dir, "log", "*.log"))
			_ = st.log.Close()
			for _, f := range files {
				os.Remove(f)
			}
		} else {
			_ = st.log.Close()
		}
		// the process died here: clearLog never ran (or not to its end). restart:
		st2, err := openStorage(dir, opt)
		if err != nil {
			t.Fatalf("%s: restart failed: %v", variant, err)
		}
		t.Logf("%s: after restart snapshot index=%d, lastLogIndex=%d, log=(%d,%d]", variant, st2.snaps.index, st2.lastLogIndex, st2.log.PrevIndex(), st2.log.LastIndex())
		func() {
			defer func() {
				if v := recover(); v != nil {
					t.Errorf("%s: cannot take the entry after the snapshot (index %d): %v", variant, st2.snaps.index+1, v)
				}
			}()
			st2.appendEntry(&entry{index: st2.snaps.index + 1, term: 1, typ: entryNop})
			e := &entry{}
			if err := st2.getEntry(st2.snaps.index+1, e); err != nil {
				t.Errorf("%s: entry %d appended after restart cannot be read back: %v", variant, st2.snaps.index+1, err)
			}
		}()
		_ = st2.log.Close()
	}
}
