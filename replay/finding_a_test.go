package raft

// Native demonstration of finding (a): a vote request from the node currently believed to be leader is answered
// `success` without the (term, candidate) being recorded, so the same voter can grant a second candidate the same term.
// Run: go test -vet=off -count=1 -overlay <json mapping /repo/zz_finding_a_test.go to this file> -run TestVerifFindingA

import (
	"io/ioutil"
	"os"
	"testing"
)

func TestVerifFindingA(t *testing.T) {
	dir, err := ioutil.TempDir("", "verif")
	if err != nil {
		t.Fatal(err)
	}
	defer os.RemoveAll(dir)
	if err := SetIdentity(dir, 1, 2); err != nil {
		t.Fatal(err)
	}
	r, err := New(DefaultOptions(), nil, dir)
	if err != nil {
		t.Fatal(err)
	}
	r.storage.setTerm(5)
	r.leader = 3 // node 2 follows leader 3 in term 5

	// the (ex-)leader 3 campaigns for term 6 without transfer permission
	res1, _ := r.onVoteRequest(&voteReq{req: req{term: 6, src: 3}})
	resp1 := rpcVote.createResp(r, res1, nil)
	// leader contact is lost; node 4 campaigns for the same term 6
	r.leader = 0
	res2, _ := r.onVoteRequest(&voteReq{req: req{term: 6, src: 4}})

	st, err := openStorage(dir, DefaultOptions())
	if err != nil {
		t.Fatal(err)
	}
	t.Logf("reply to 3: result=%v term=%d; reply to 4: result=%v; durable (term,votedFor)=(%d,%d)", res1, resp1.getTerm(), res2, st.term, st.votedFor)
	if res1 == success && res2 == success {
		t.Fatalf("one voter granted its vote for term 6 to two candidates (3 and 4)")
	}
	if res1 == success && !(st.term == 6 && st.votedFor == 3) && res2 != success {
		t.Fatalf("vote granted to 3 for term 6 but not durable")
	}
}
