package raft

// Native demonstration of finding (y): a node that has not been bootstrapped yet still answers vote requests, so it can
// already be in a term > 1 when the operator bootstraps it. storage.bootstrap appends and flushes the configuration
// entry and then calls setTerm(1), whose assertion (a term only grows) fails: the process dies by an internal
// assertion, with the configuration entry already on disk.

import (
	"io/ioutil"
	"os"
	"testing"
)

func TestVerifFindingY(t *testing.T) {
	dir, _ := ioutil.TempDir("", "verif")
	defer os.RemoveAll(dir)
	if err := SetIdentity(dir, 1, 1); err != nil {
		t.Fatal(err)
	}
	r, err := New(DefaultOptions(), nil, dir)
	if err != nil {
		t.Fatal(err)
	}
	defer r.storage.log.Close()
	// another node of the (future) cluster campaigns: this node, with its empty log, grants the vote in term 5
	res, err := r.onVoteRequest(&voteReq{req: req{5, 2}, lastLogIndex: 0, lastLogTerm: 0})
	if res != success || err != nil || r.term != 5 {
		t.Fatalf("vote: %v %v term=%d", res, err, r.term)
	}
	cfg := Config{Nodes: map[uint64]Node{1: {ID: 1, Addr: "localhost:7001", Voter: true}, 2: {ID: 2, Addr: "localhost:7002", Voter: true}}}
	task := changeConfig{task: newTask(), newConf: cfg}
	func() {
		defer func() {
			if v := recover(); v != nil {
				t.Errorf("bootstrapping a node that is already in term %d kills it: panic(%v); log now holds %d entry(ies)", r.term, v, r.log.Count())
			}
		}()
		r.bootstrap(task)
	}()
	if t.Failed() {
		return
	}
	if task.Err() != nil {
		t.Fatalf("bootstrap failed: %v", task.Err())
	}
	if r.term < 5 {
		t.Fatalf("term lowered to %d", r.term)
	}
}
