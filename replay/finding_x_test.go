package raft

// Native demonstration of finding (x): a node that is writing its own snapshot (the snapshot goroutine, inside
// FSMState.Persist) can be sent a newer snapshot by the leader meanwhile. onInstallSnapRequest publishes the newer
// one; when the older own snapshot finally completes, snapshotSink.done sets snaps.index/term to ITS index
// unconditionally: the node's snapshot index moves backwards (below its first log index), and with SnapshotsRetain=1
// applyRetain then deletes the files of the very snapshot snaps.index now names (it keeps the newest).

import (
	"bufio"
	"bytes"
	"io"
	"io/ioutil"
	"os"
	"testing"
	"time"
)

type slowFSM struct {
	n    int
	gate chan struct{}
}

func (f *slowFSM) Update(cmd []byte) interface{}    { f.n++; return f.n }
func (f *slowFSM) Read(cmd interface{}) interface{} { return f.n }
func (f *slowFSM) Snapshot() (FSMState, error)      { return slowState{f.gate}, nil }
func (f *slowFSM) Restore(io.Reader) error          { return nil }

type slowState struct{ gate chan struct{} }

func (s slowState) Persist(w io.Writer) error { <-s.gate; _, err := w.Write([]byte("own")); return err }
func (slowState) Release()                    {}

type byteConn struct{ *bytes.Reader }

func (byteConn) Write(b []byte) (int, error)        { return len(b), nil }
func (byteConn) Close() error                       { return nil }
func (byteConn) SetDeadline(t time.Time) error      { return nil }
func (byteConn) SetReadDeadline(t time.Time) error  { return nil }
func (byteConn) SetWriteDeadline(t time.Time) error { return nil }

func TestVerifFindingX(t *testing.T) {
	dir, _ := ioutil.TempDir("", "verif")
	defer os.RemoveAll(dir)
	if err := SetIdentity(dir, 1, 1); err != nil {
		t.Fatal(err)
	}
	fsm := &slowFSM{gate: make(chan struct{})}
	r, err := New(DefaultOptions(), fsm, dir)
	if err != nil {
		t.Fatal(err)
	}
	cfg := Config{Nodes: map[uint64]Node{1: {ID: 1, Addr: "localhost:7001", Voter: true}, 2: {ID: 2, Addr: "localhost:7002", Voter: true}}, Index: 1, Term: 1}
	if err := r.storage.bootstrap(cfg); err != nil {
		t.Fatal(err)
	}
	r.changeConfig(cfg)
	r.commitConfig()
	for i := uint64(2); i <= 3; i++ {
		r.storage.appendEntry(&entry{index: i, term: 1, typ: entryUpdate, data: []byte("u")})
	}
	go r.fsm.runLoop()
	defer close(r.fsm.ch)
	r.setCommitIndex(3)
	r.applyCommitted(nil)
	if got := r.lastApplied(); got != 3 {
		t.Fatalf("lastApplied=%d", got)
	}
	// the node starts writing its own snapshot at index 3 (what onTakeSnapshot's goroutine does); Persist is slow
	own := make(chan error, 1)
	go func() { _, err := doTakeSnapshot(r.fsm, 0); own <- err }()
	time.Sleep(50 * time.Millisecond)
	// meanwhile the leader installs its snapshot at index 5 on this node
	req := &installSnapReq{req: req{1, 2}, lastIndex: 5, lastTerm: 1, lastConfig: cfg, size: 4}
	c := &conn{bufr: bufio.NewReader(bytes.NewReader([]byte("snap")))}
	if res, err := r.onInstallSnapRequest(req, c); res != success || err != nil {
		t.Fatalf("install: %v %v", res, err)
	}
	idx, _ := r.snaps.latest()
	t.Logf("after the install: snapshot index %d, log (%d,%d]", idx, r.log.PrevIndex(), r.log.LastIndex())
	if idx != 5 {
		t.Fatalf("snapshot index %d after install", idx)
	}
	// the own snapshot finally completes
	close(fsm.gate)
	if err := <-own; err != nil {
		t.Fatal(err)
	}
	idx, _ = r.snaps.latest()
	t.Logf("after the own (older) snapshot completed: snapshot index %d, log (%d,%d]", idx, r.log.PrevIndex(), r.log.LastIndex())
	if idx < 5 {
		_, statErr := os.Stat(metaFile(r.snaps.dir, idx))
		t.Fatalf("snapshot index moved backwards 5 -> %d (first log index-1 is %d); meta file of snapshot %d on disk: %v", idx, r.log.PrevIndex(), idx, statErr == nil)
	}
}
