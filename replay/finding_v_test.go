package raft

// Native demonstration of finding (v): round.begin does not clear End, so a promotion round that is begun again after
// it finished once (leader.beginFinishedRounds on every new entry, or the slow-round arm of checkConfigAction) counts
// as finished from the start and has a negative duration. A non-voter whose first round completed while the promotion
// could not be carried out yet is then promoted later however far it has fallen behind since.
// (uses vNativeLeader from finding_bc_test.go)

import (
	"io/ioutil"
	"os"
	"testing"
	"time"
)

func TestVerifFindingV(t *testing.T) {
	dir, _ := ioutil.TempDir("", "verif")
	defer os.RemoveAll(dir)
	cfg := Config{Nodes: map[uint64]Node{
		1: {ID: 1, Addr: "localhost:7001", Voter: true},
		2: {ID: 2, Addr: "localhost:7002", Voter: true},
	}, Index: 1, Term: 1}
	r, l := vNativeLeader(t, dir, cfg)
	r.promoteThreshold = 50 * time.Millisecond
	l.init() // no-op at index 2
	defer l.release()
	l.checkReplUpdates(replUpdate{status: &l.repls[2].status, update: matchIndex{2}}) // voter 2 acknowledges: commit 2
	if r.commitIndex != 2 {
		t.Fatalf("commitIndex=%d", r.commitIndex)
	}
	// node 3 joins as a non-voter to be promoted (configuration entry at index 3, not committed yet)
	nc := r.configs.Latest.clone()
	if err := nc.AddNonvoter(3, "localhost:7003", true); err != nil {
		t.Fatal(err)
	}
	l.onChangeConfig(changeConfig{task: newTask(), newConf: nc})
	st := &l.repls[3].status
	// node 3 catches up at once: its first round finishes, but it cannot be promoted while entry 3 is uncommitted
	l.checkReplUpdates(replUpdate{status: st, update: matchIndex{3}})
	if st.round == nil || !st.round.finished() || r.configs.Latest.isVoter(3) {
		t.Fatalf("setup: round=%v voter=%v", st.round, r.configs.Latest.isVoter(3))
	}
	// node 3 goes away; clients keep writing: every new entry begins its round again with a new target
	for i := 0; i < 5; i++ {
		l.storeEntry(&newEntry{task: newTask(), entry: &entry{typ: entryUpdate, data: []byte("u")}})
	}
	t.Logf("node 3: matchIndex=%d, leader lastLogIndex=%d, round target=%d, round.finished()=%v, round.Duration()=%v",
		st.matchIndex, r.lastLogIndex, st.round.LastIndex, st.round.finished(), st.round.Duration())
	if st.round.finished() && st.matchIndex < st.round.LastIndex {
		t.Errorf("a round begun again with target %d counts as finished although node 3 is at %d", st.round.LastIndex, st.matchIndex)
	}
	// voter 2 acknowledges everything: the configuration commits and pending actions are re-evaluated
	l.checkReplUpdates(replUpdate{status: &l.repls[2].status, update: matchIndex{r.lastLogIndex}})
	if r.configs.Latest.isVoter(3) && st.matchIndex < st.round.LastIndex {
		t.Fatalf("node 3 was promoted to voter while %d entries behind (matchIndex %d, leader had %d when its round was begun again): it never completed that round",
			st.round.LastIndex-st.matchIndex, st.matchIndex, st.round.LastIndex)
	}
}
