package log

// Native demonstration of finding (u): createSegment creates the segment file under its final name with length 0 and
// only then sizes it. A process killed between the two system calls leaves a zero-length "<n>.log"; on restart
// openSegment sees that the file exists and maps it, which fails for an empty file: the log (and with it the node)
// cannot be opened again although nothing that was stored is damaged.

import (
	"io/ioutil"
	"os"
	"path/filepath"
	"testing"
)

func TestVerifFindingU(t *testing.T) {
	dir, _ := ioutil.TempDir("", "verif")
	defer os.RemoveAll(dir)
	opt := Options{FileMode: 0600, SegmentSize: 1024}
	l, err := Open(dir, 0700, opt)
	if err != nil {
		t.Fatal(err)
	}
	for i := 0; i < 5; i++ {
		if err := l.Append([]byte("entry")); err != nil {
			t.Fatal(err)
		}
	}
	if err := l.Commit(); err != nil {
		t.Fatal(err)
	}
	last := l.LastIndex()
	_ = l.Close()
	// the next Append needs a new segment: createSegment has done os.OpenFile(O_CREATE) for "<last>.log" and the
	// process is killed before f.Truncate
	// which name does createSegment create first? (a version that builds the segment under a temporary name cannot
	// create it when a directory of that name is in the way)
	scratch, _ := ioutil.TempDir("", "verif")
	defer os.RemoveAll(scratch)
	_ = os.Mkdir(filepath.Join(scratch, "9.log.tmp"), 0700)
	first := "5.log"
	if createSegment(filepath.Join(scratch, "9.log"), opt) != nil {
		first = "5.log.tmp"
	}
	t.Logf("createSegment creates %q first; the process is killed right after that", first)
	f, err := os.OpenFile(filepath.Join(dir, first), os.O_RDWR|os.O_CREATE, 0600)
	if err != nil {
		t.Fatal(err)
	}
	_ = f.Close()
	l2, err := Open(dir, 0700, opt)
	if err != nil {
		t.Fatalf("restart after a kill inside createSegment: log.Open failed: %v (5 committed entries are intact on disk)", err)
	}
	defer l2.Close()
	if l2.LastIndex() != last {
		t.Fatalf("lastIndex=%d, want %d", l2.LastIndex(), last)
	}
}
