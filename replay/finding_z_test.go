package raft

// Native demonstration of finding (z): Raft.applyCommitted hands the FSM loop a view of the log up to the commit index;
// the loop applies it whenever it gets to it. If the node meanwhile receives a snapshot that makes it discard its log
// (a lagging follower), onInstallSnapRequest resets the log - every segment is unmapped and unlinked - while that view
// is still queued. When the FSM loop then processes the queued apply it reads unmapped memory: the process dies with a
// fault (made a recoverable panic here with debug.SetPanicOnFault so that the test can report it).

import (
	"bufio"
	"bytes"
	"io/ioutil"
	"os"
	"runtime/debug"
	"testing"
	"time"
)

type gatedFSM struct {
	vNativeFSM
	gate chan struct{}
}

func (f *gatedFSM) Update(cmd []byte) interface{} { <-f.gate; return f.vNativeFSM.Update(cmd) }

func TestVerifFindingZ(t *testing.T) {
	dir, _ := ioutil.TempDir("", "verif")
	defer os.RemoveAll(dir)
	if err := SetIdentity(dir, 1, 2); err != nil {
		t.Fatal(err)
	}
	fsm := &gatedFSM{gate: make(chan struct{})}
	r, err := New(DefaultOptions(), fsm, dir)
	if err != nil {
		t.Fatal(err)
	}
	cfg := Config{Nodes: map[uint64]Node{1: {ID: 1, Addr: "localhost:7001", Voter: true}, 2: {ID: 2, Addr: "localhost:7002", Voter: true}}, Index: 1, Term: 1}
	if err := r.storage.bootstrap(cfg); err != nil {
		t.Fatal(err)
	}
	r.changeConfig(cfg)
	r.commitConfig()
	for i := uint64(2); i <= 5; i++ {
		r.storage.appendEntry(&entry{index: i, term: 1, typ: entryUpdate, data: []byte("u")})
	}
	// the FSM loop (the same dispatch as stateMachine.runLoop, with a recover so that the test can report the failure)
	fault := make(chan interface{}, 1)
	go func() {
		defer debug.SetPanicOnFault(debug.SetPanicOnFault(true))
		defer func() { fault <- recover() }()
		for task := range r.fsm.ch {
			switch task := task.(type) {
			case fsmApply:
				r.fsm.onApply(task)
			case fsmRestoreReq:
				task.err <- r.fsm.onRestoreReq()
			case lastApplied:
				task.reply(r.fsm.index)
			}
		}
	}()
	// the leader's commit index arrives: the apply request (a view of entries 1..5) goes to the FSM loop, which is
	// slow (the user's Update takes its time)
	r.setCommitIndex(5)
	r.applyCommitted(nil)
	// the leader has compacted its log meanwhile and sends its snapshot at index 50: this node discards its log
	req := &installSnapReq{req: req{1, 1}, lastIndex: 50, lastTerm: 1, lastConfig: cfg, size: 4}
	c := &conn{bufr: bufio.NewReader(bytes.NewReader([]byte("snap")))}
	installed := make(chan rpcResult, 1)
	go func() { res, _ := r.onInstallSnapRequest(req, c); installed <- res }()
	time.Sleep(100 * time.Millisecond)
	close(fsm.gate) // the state machine gets on with it
	if res := <-installed; res != success {
		t.Fatalf("install: %v", res)
	}
	close(r.fsm.ch)
	if v := <-fault; v != nil {
		t.Fatalf("the FSM loop, applying the view it was handed before the log was reset, dies: %v", v)
	}
	t.Logf("log after the install: (%d,%d]; state machine at index %d", r.log.PrevIndex(), r.log.LastIndex(), r.fsm.index)
}
