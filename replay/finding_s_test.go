package raft

// Native demonstration of the stale install-snapshot finding: an InstallSnapshot request of the current term that
// is delivered late (e.g. it was written to an old connection of the same leader before that connection was replaced)
// and describes a snapshot at or below the one this node already has. The handler publishes it unconditionally:
// the node's snapshot index goes backwards, and with SnapshotsRetain=1 the files of the "new latest" snapshot are
// removed at once (they are the older ones), so the node's latest snapshot can no longer be opened. When the log has
// been compacted past the stale index the handler also wipes the log back to it (shown by the symbolic check).

import (
	"bufio"
	"bytes"
	"io/ioutil"
	"os"
	"testing"
)

func TestVerifFindingS(t *testing.T) {
	dir, _ := ioutil.TempDir("", "verif")
	defer os.RemoveAll(dir)
	if err := SetIdentity(dir, 1, 2); err != nil {
		t.Fatal(err)
	}
	r, err := New(DefaultOptions(), &vNativeFSM{}, dir)
	if err != nil {
		t.Fatal(err)
	}
	cfg := Config{Nodes: map[uint64]Node{1: {ID: 1, Addr: "localhost:7001", Voter: true}, 2: {ID: 2, Addr: "localhost:7002", Voter: true}}, Index: 1, Term: 1}
	if err := r.storage.bootstrap(cfg); err != nil {
		t.Fatal(err)
	}
	r.changeConfig(cfg)
	r.commitConfig()
	go r.fsm.runLoop()
	defer close(r.fsm.ch)
	for i := uint64(2); i <= 5; i++ {
		r.storage.appendEntry(&entry{index: i, term: 1, typ: entryUpdate, data: []byte("u")})
	}
	r.storage.commitLog(5)
	r.leader = 1
	r.setCommitIndex(5)
	r.applyCommitted(nil)
	_ = r.lastApplied()
	// the node's own snapshot at index 5
	meta, err := doTakeSnapshot(r.fsm, 0)
	if err != nil || meta.index != 5 {
		t.Fatalf("meta=%v err=%v", meta, err)
	}
	before := r.info()
	// a late InstallSnapshot{lastIndex 3, lastTerm 1} from the same leader and term
	body := []byte("old")
	req := &installSnapReq{req: req{term: 1, src: 1}, lastIndex: 3, lastTerm: 1, lastConfig: cfg, size: int64(len(body))}
	c := &conn{bufr: bufio.NewReader(bytes.NewReader(body))}
	res, herr := r.onInstallSnapRequest(req, c)
	after := r.info()
	t.Logf("result=%v err=%v snapshot index %d -> %d, committed %d -> %d", res, herr, before.SnapshotIndex, after.SnapshotIndex, before.Committed, after.Committed)
	if after.SnapshotIndex < before.SnapshotIndex {
		t.Errorf("snapshot index went backwards: %d -> %d", before.SnapshotIndex, after.SnapshotIndex)
	}
	if _, err := r.snaps.open(); err != nil {
		t.Errorf("the node's latest snapshot (index %d) cannot be opened any more: %v", r.snaps.index, err)
	}
}
