package raft

import "testing"

// finding (an): an identity request reset the election timer when its sender's node id equals
// the id of our leader, even if the request is refused with identityMismatch (the dialer belongs to
// another cluster that shares the address): its retries keep a follower of a dead leader from ever
// starting an election
func TestVerifFindingAN(t *testing.T) {
	r := &Raft{storage: &storage{cid: 1234, nid: 2}, leader: 1}
	x := &rpc{req: &identityReq{req: req{term: 7, src: 1}, cid: 9999, nid: 2}, done: make(chan struct{})}
	reset := r.replyRPC(x)
	if x.resp.getResult() != identityMismatch {
		t.Fatalf("result: %v", x.resp.getResult())
	}
	if reset {
		t.Fatal("a handshake of another cluster's node 1, refused with identityMismatch, reset the election timer of a follower of node 1")
	}
	// the leader's own reconnect still counts
	x = &rpc{req: &identityReq{req: req{term: 7, src: 1}, cid: 1234, nid: 2}, done: make(chan struct{})}
	if !r.replyRPC(x) || x.resp.getResult() != success {
		t.Fatal("handshake of the leader itself must reset the election timer")
	}
}
