package raft

// Native demonstration of finding (d): a follower whose log has an unflushed tail (an ex-leader) acknowledges
// prevLogIndex without flushing; a process kill right after the acknowledgement loses the acknowledged entries.

import (
	"bufio"
	"bytes"
	"io/ioutil"
	"os"
	"path/filepath"
	"testing"

	"github.com/santhosh-tekuri/raft/log"
)

func TestVerifFindingD(t *testing.T) {
	dir, err := ioutil.TempDir("", "verif")
	if err != nil {
		t.Fatal(err)
	}
	defer os.RemoveAll(dir)
	if err := SetIdentity(dir, 1, 2); err != nil {
		t.Fatal(err)
	}
	opt := DefaultOptions()
	r, err := New(opt, nil, dir)
	if err != nil {
		t.Fatal(err)
	}
	r.storage.setTerm(1)
	// what a leader does with client entries: append without flushing (it flushes only up to its commit index)
	for i := uint64(1); i <= 3; i++ {
		r.storage.appendEntry(&entry{index: i, term: 1, typ: entryNop})
	}
	// it lost leadership; the new leader (node 3, term 2) probes with prevLogIndex=3, no entries
	req := &appendReq{req: req{term: 2, src: 3}, prevLogIndex: 3, prevLogTerm: 1}
	c := &conn{bufr: bufio.NewReader(bytes.NewReader(nil))}
	res, err := r.onAppendEntriesRequest(req, c)
	if err != nil || res != success {
		t.Fatalf("result=%v err=%v", res, err)
	}
	resp := rpcAppendEntries.createResp(r, res, err).(*appendResp)
	// process kill: every write reached the file (shared mapping); reopen a copy of the directory
	dir2, _ := ioutil.TempDir("", "verif")
	defer os.RemoveAll(dir2)
	files, _ := filepath.Glob(filepath.Join(dir, "log", "*.log"))
	for _, f := range files {
		b, _ := ioutil.ReadFile(f)
		ioutil.WriteFile(filepath.Join(dir2, filepath.Base(f)), b, 0600)
	}
	l, err := log.Open(dir2, 0700, log.Options{FileMode: 0600, SegmentSize: opt.LogSegmentSize})
	if err != nil {
		t.Fatal(err)
	}
	t.Logf("acknowledged prevLogIndex=3 (reply lastLogIndex=%d); after kill+reopen lastIndex=%d", resp.lastLogIndex, l.LastIndex())
	if l.LastIndex() < 3 {
		t.Fatalf("acknowledged entries 1..3 are not durable: reopened log ends at %d", l.LastIndex())
	}
}
