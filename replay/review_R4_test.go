package raft

import (
	"strings"
	"sync"
	"sync/atomic"
	"testing"
	"time"

	"github.com/santhosh-tekuri/fnet"
)

// TestReview1: a timeoutNow request that carries an older term than the
// receiver's current term (sent by a leader that is deposed since, or delayed
// in network, or sent again by old leader because it has not yet heard about
// the new term) must be rejected. onTimeoutNowRequest never looks at the
// request: the receiver, even when it is the leader of the newer term, gives
// up and starts an election with the "leader told me to disrupt" flag.
func TestReview1(t *testing.T) {
	c, ldr, flrs := launchCluster(t, 3)
	defer c.shutdown()
	c.waitForCommitted(c.info(ldr).LastLogIndex)

	term := c.info(ldr).Term
	if term < 2 {
		t.Fatalf("precondition: leader term %d", term)
	}

	electionStarted := c.registerFor(eventElectionStarted, ldr)
	defer c.unregister(electionStarted)

	// flrs[0] plays the deposed leader of an older term: its timeoutNow
	// request of term-1 reaches the leader of the current term
	var result rpcResult
	var respTerm uint64
	var rpcErr error
	old := flrs[0]
	ierr := old.inspect(func(r *Raft) {
		req := &timeoutNowReq{req{term - 1, r.nid}}
		resp := &timeoutNowResp{}
		rpcErr = r.getConnPool(ldr.nid).doRPC(req, resp, time.Now().Add(time.Second))
		result, respTerm = resp.getResult(), resp.getTerm()
	})
	if ierr != nil || rpcErr != nil {
		t.Fatalf("timeoutNow rpc failed: %v %v", ierr, rpcErr)
	}
	t.Logf("timeoutNow{term:%d} to leader M%d of term %d: result=%v respTerm=%d", term-1, ldr.nid, term, result, respTerm)

	started := false
	if _, err := electionStarted.waitForEvent(3 * c.heartbeatTimeout); err == nil {
		started = true
	}
	info := c.info(ldr)
	if result == success || started || info.Term != term || info.State != Leader {
		t.Fatalf("stale timeoutNow request (term %d < %d) was obeyed: result=%v(success=%v) electionStarted=%v; "+
			"leader M%d now state=%v term=%d, want it to remain leader of term %d",
			term-1, term, result, result == success, started, ldr.nid, info.State, info.Term, term)
	}
}

// TestReview2: leader.notifyFlr replaces an update that is still waiting in
// replication.leaderUpdateCh with the next one. only the update made for a
// config entry carries the config. if it is replaced by a later update
// (the one sent when that entry commits, or for the next client entry) before
// the replication goroutine took it, replication.node is never refreshed. for
// a node that got promoted, replication.node.Voter stays false, so the leader
// never sends heartbeats to that voter. the promoted voter then times out and
// campaigns against a live, reachable leader.
//
// scenario: nonvoter M3 is reached over a slow link and is asked to be promoted
// while client updates are flowing. M3's replication goroutine is busy writing
// a batch of entries, when the leader appends (and, with M2's ack, commits) the
// config entry that makes M3 voter.
func TestReview2(t *testing.T) {
	c := newCluster(t)
	c.opt.PromoteThreshold = 20 * time.Second
	ldr, _ := c.ensureLaunch(2)
	defer c.shutdown()

	// add M3 as nonvoter, let it catchup
	m3 := c.launch(1, false)[3]
	c.waitCommitReady(ldr)
	c.ensure(c.waitAddNonvoter(ldr, 3, c.id2Addr(3), false))
	c.waitCatchup()

	// link between leader and M3 is slow: a batch of 64 entries takes ~0.7s
	network.SetBandwidth(host(ldr), host(m3), 20*1024)
	defer network.SetBandwidth(host(ldr), host(m3), fnet.NoLimit)
	payload := strings.Repeat("x", 200)
	send := func(n int) {
		for i := 0; i < n; i++ {
			ldr.FSMTasks() <- UpdateFSM([]byte(payload))
		}
	}

	send(150)
	conf := c.info(ldr).Configs.Latest
	if err := conf.SetAction(3, Promote); err != nil {
		t.Fatal(err)
	}
	c.ensure(waitTask(ldr, ChangeConfig(conf), c.longTimeout))
	send(400)

	// M3 gets promoted at end of first round, and gets all entries
	caughtUp := func() bool {
		info := c.info(ldr)
		return info.Configs.IsStable() && info.Configs.Latest.isVoter(3) &&
			info.Committed == info.LastLogIndex && info.Followers[3].MatchIndex == info.LastLogIndex &&
			c.info(m3).Configs.Latest.isVoter(3)
	}
	if !waitForCondition(caughtUp, 50*time.Millisecond, 30*time.Second) {
		t.Fatalf("precondition: M3 is not promoted and caughtup: %+v", c.info(ldr))
	}
	network.SetBandwidth(host(ldr), host(m3), fnet.NoLimit)
	if info := c.info(ldr); info.State != Leader {
		t.Fatalf("precondition: M%d is no longer leader", ldr.nid)
	}
	term := c.info(ldr).Term

	var replVoter bool
	_ = ldr.inspect(func(r *Raft) {
		replVoter = r.ldr.repls[3].node.Voter
	})
	t.Logf("leader's replication of M3 thinks M3.Voter=%v", replVoter)

	// all nodes are up and connected and leader is alive.
	// no voter should feel the need to start an election
	electionStarted := c.registerFor(eventElectionStarted, m3)
	defer c.unregister(electionStarted)
	if _, err := electionStarted.waitForEvent(4 * c.heartbeatTimeout); err == nil {
		t.Fatalf("promoted voter M3 started election for term %d (leader M%d of term %d is alive and connected): "+
			"it gets no heartbeats, because the config update to its replication was lost (replication.node.Voter=%v)",
			c.info(m3).Term, ldr.nid, term, replVoter)
	}
}

// TestReview3: a follower that needs a snapshot can never be brought up to date,
// if sending the snapshot takes longer than (1..2)*HeartbeatTimeout. leader computes
// the write deadline of installSnapReq from Options.Bandwidth and the snapshot size
// (replication.deadlineSize), but the receiver reads the complete snapshot under the
// single read deadline of rtime.deadline(hbTimeout) that replyRPC has set for
// decoding the request header. the read times out, conn is closed, leader retries
// from the beginning, forever.
func TestReview3(t *testing.T) {
	const bandwidth = 40 * 1024
	c := newCluster(t)
	c.opt.LogSegmentSize = 4096
	c.opt.Bandwidth = bandwidth / 2 // raft is told a conservative value: its deadlines are twice of what is needed
	ldr, _ := c.ensureLaunch(3)
	defer c.shutdown()

	// 200 updates of 1000 bytes each: snapshot is ~200KB
	updates := uint64(200)
	payload := strings.Repeat("y", 1000)
	var last FSMTask
	for i := uint64(0); i < updates; i++ {
		last = UpdateFSM([]byte(payload))
		ldr.FSMTasks() <- last
	}
	<-last.Done()

	c.ensure(c.waitAddNonvoter(ldr, 4, c.id2Addr(4), false))
	c.waitCatchup()

	logCompacted := c.registerFor(eventLogCompacted, ldr)
	defer c.unregister(logCompacted)
	c.takeSnapshot(ldr, 1, nil)
	c.ensure(logCompacted.waitForEvent(c.longTimeout))
	var snapSize int64
	_ = ldr.inspect(func(r *Raft) {
		if meta, err := r.snaps.meta(); err == nil {
			snapSize = meta.size
		}
	})

	// link between leader and M4 gives 40KB/s: snapshot needs ~5s.
	network.Host(id2Host(4))
	for _, r := range c.exclude() {
		network.SetBandwidth(host(r), id2Host(4), bandwidth)
		defer network.SetBandwidth(host(r), id2Host(4), fnet.NoLimit)
	}
	need := durationFor(bandwidth, snapSize)
	t.Logf("snapshot size %d bytes, bandwidth %d bytes/sec: needs %v, heartbeatTimeout %v", snapSize, bandwidth, need, c.heartbeatTimeout)

	// now launch nonVoter M4. all nodes are up and connected
	m4 := c.launch(1, false)[4]
	limit := 3*need + 5*c.heartbeatTimeout
	errs := map[string]int{}
	uptodate := func() bool {
		if e := c.info(ldr).Followers[4].ErrMessage; e != "" {
			errs[e]++
		}
		return fsm(m4).len() == updates
	}
	if !waitForCondition(uptodate, 100*time.Millisecond, limit) {
		t.Logf("errors seen by leader's replication of M4: %v", errs)
		info := c.info(m4)
		t.Fatalf("M4 is not brought up to date in %v (snapshot transfer needs %v): fsmLen=%d want %d, snapshotIndex=%d lastLogIndex=%d. leader's view of M4: %+v",
			limit, need, fsm(m4).len(), updates, info.SnapshotIndex, info.LastLogIndex, c.info(ldr).Followers[4])
	}
}

// TestReview4: a follower advances its commitIndex (and so applies entries to its
// state machine) only to exactly req.prevLogIndex or to exactly the index of the last
// entry of an appendEntries request, and only if the leader's commitIndex has already
// reached that index (Raft.canCommit). it never takes min(ldrCommitIndex, index of
// last new entry). while clients keep the leader busy, each request the pipeline
// sends is ahead of the leader's commitIndex (an entry can not be committed before
// it is sent), so canCommit is false for every request: follower state machines are
// not brought up to date for as long as the load lasts, however long that is.
func TestReview4(t *testing.T) {
	c, ldr, flrs := launchCluster(t, 3)
	defer c.shutdown()
	c.waitForCommitted(c.info(ldr).LastLogIndex)

	// 200 clients. each sends next update after its previous update is applied
	var stop int32
	var wg sync.WaitGroup
	for g := 0; g < 200; g++ {
		wg.Add(1)
		go func() {
			defer wg.Done()
			for atomic.LoadInt32(&stop) == 0 {
				task := UpdateFSM([]byte("0123456789012345678901234567890123456789"))
				select {
				case ldr.FSMTasks() <- task:
					<-task.Done()
				case <-ldr.Closed():
					return
				}
			}
		}()
	}
	defer func() {
		atomic.StoreInt32(&stop, 1)
		wg.Wait()
	}()

	// all nodes are up and connected. what leader has applied now,
	// must be applied by followers 3 election timeouts later
	time.Sleep(c.heartbeatTimeout)
	ldrApplied := fsm(ldr).len()
	time.Sleep(3 * c.heartbeatTimeout)
	info := c.info(ldr)
	if info.State != Leader {
		t.Fatalf("precondition: M%d is no longer leader", ldr.nid)
	}
	for _, flr := range flrs {
		finfo := c.info(flr)
		t.Logf("M%d: lastLogIndex=%d committed=%d fsmLen=%d; leader M%d: lastLogIndex=%d committed=%d fsmLen=%d",
			flr.nid, finfo.LastLogIndex, finfo.Committed, fsm(flr).len(), ldr.nid, info.LastLogIndex, info.Committed, fsm(ldr).len())
	}
	for _, flr := range flrs {
		if got := fsm(flr).len(); got < ldrApplied {
			t.Errorf("follower M%d applied only %d updates. leader had applied %d updates already %v ago (and %d by now); "+
				"follower has the entries in its log (lastLogIndex=%d) but its commitIndex is %d",
				flr.nid, got, ldrApplied, 3*c.heartbeatTimeout, fsm(ldr).len(), c.info(flr).LastLogIndex, c.info(flr).Committed)
		}
	}
}

// TestReview5: a node that is being added to the cluster shuts itself down with
// ErrNodeRemoved. leader sends its log from the beginning, at most 64 entries per
// request. if the config entry that adds the node is not within the first request,
// the new node's latest config, after the first request, is an older config of which it
// is not a member. that request also advances its commitIndex beyond that config,
// so Raft.setCommitIndex takes the (long ago committed) old config as a committed
// removal of itself: doClose(ErrNodeRemoved).
func TestReview5(t *testing.T) {
	c, ldr, _ := launchCluster(t, 3)
	defer c.shutdown()

	// cluster has 100 updates, before M4 is added
	<-c.sendUpdates(ldr, 1, 100).Done()
	c.waitFSMLen(100)

	m4 := c.launch(1, false)[4]
	shuttingDown := c.registerFor(eventShuttingDown, m4)
	defer c.unregister(shuttingDown)
	c.ensure(c.waitAddNonvoter(ldr, 4, c.id2Addr(4), false))
	if _, ok := c.info(ldr).Configs.Latest.Nodes[4]; !ok {
		t.Fatal("precondition: M4 must be in config")
	}

	if e, err := shuttingDown.waitForEvent(c.longTimeout); err == nil {
		serveErr := c.serveError(m4)
		configs := c.info(ldr).Configs
		_, member := configs.Latest.Nodes[4]
		t.Fatalf("M4 was never removed from cluster (member of leader's latest config: %v, that config is committed: %v), "+
			"but it has shutdown itself: reason=%q, Serve returned %q", member, configs.IsCommitted(), e.err, serveErr)
	}
	c.waitFSMLen(100, m4)
}

// TestReview6: leader.onChangeConfig first lets checkConfigActions perform the actions
// that can be done at once, and then, if "l.configs.IsCommitted()", concludes that
// no action was performed and appends the user's config as it is. in a cluster of two
// voters, demoting (or force removing) the follower leaves a single voter, so the
// config entry made by checkConfigActions is committed before it returns. IsCommitted()
// is true again and the user's config, in which the follower is still a voter, is
// appended on top of it: the node that is nonvoter in the committed config is made
// voter again, without any promotion round.
func TestReview6(t *testing.T) {
	c, ldr, flrs := launchCluster(t, 2)
	defer c.shutdown()
	c.waitCommitReady(ldr)
	flr := flrs[0]

	configChanged := c.registerFor(eventConfigChanged, ldr)
	defer c.unregister(configChanged)

	conf := c.info(ldr).Configs.Latest
	if err := conf.SetAction(flr.nid, Demote); err != nil {
		t.Fatal(err)
	}
	c.ensure(waitTask(ldr, ChangeConfig(conf), c.longTimeout))
	c.waitForStableConfig(ldr)

	// configs the leader went through
	var history []Config
	for {
		e, err := configChanged.waitForEvent(100 * time.Millisecond)
		if err != nil {
			break
		}
		history = append(history, e.configs.Latest)
	}
	demoted := false
	for i, conf := range history {
		t.Logf("leader's config #%d: %v", i+1, conf)
		n := conf.Nodes[flr.nid]
		if !n.Voter {
			demoted = true
		} else if demoted {
			t.Errorf("config #%d (index %d) makes M%d voter again, after config #%d had made it nonvoter. "+
				"leader has appended %d config entries for one demote request", i+1, conf.Index, flr.nid, i, len(history))
		}
	}
	if !demoted {
		t.Fatal("precondition: follower must get demoted")
	}
}
