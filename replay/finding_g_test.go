package raft

// Native demonstration of finding (g): identity/term values >= 2^63 are written with %d of a uint64 but parsed back
// with strconv.ParseInt, so the storage directory cannot be opened again.

import (
	"io/ioutil"
	"os"
	"testing"
)

func TestVerifFindingG(t *testing.T) {
	dir, _ := ioutil.TempDir("", "verif")
	defer os.RemoveAll(dir)
	v, err := openValue(dir, ".term")
	if err != nil {
		t.Fatal(err)
	}
	const big = uint64(9223372036854775808) // 2^63
	if err := v.set(big, 7); err != nil {
		t.Fatal(err)
	}
	v2, err := openValue(dir, ".term")
	if err != nil {
		t.Fatalf("value (%d, 7) was written but cannot be read back: %v", big, err)
	}
	if a, b := v2.get(); a != big || b != 7 {
		t.Fatalf("read back (%d,%d)", a, b)
	}
}
