package raft

import (
	"io/ioutil"
	"os"
	"sync"
	"testing"
)

// finding (am): every snapshotSink.done writes its label through the same temporary file "meta.tmp".
// the node's own snapshot (snapshot goroutine) and a snapshot installed by leader (raft goroutine) can
// complete at the same time: one of them fails, or gets the label of the other.
// (a stress test: the window is a few system calls wide; the check in /verif finds it deterministically)
func TestVerifFindingAM(t *testing.T) {
	dir, err := ioutil.TempDir("", "verif-am")
	if err != nil {
		t.Fatal(err)
	}
	defer os.RemoveAll(dir)
	snaps, err := openSnapshots(dir, Options{SnapshotsRetain: 4})
	if err != nil {
		t.Fatal(err)
	}
	config := Config{Nodes: map[uint64]Node{1: {ID: 1, Addr: "M1:8888", Voter: true}}, Index: 1, Term: 1}
	bad := 0
	for i := uint64(1); i <= 3000 && bad == 0; i++ {
		var wg sync.WaitGroup
		errs := make([]error, 2)
		for k := uint64(0); k < 2; k++ {
			wg.Add(1)
			go func(k uint64) {
				defer wg.Done()
				sink, err := snaps.new(2*i+k, 100+k, config)
				if err != nil {
					errs[k] = err
					return
				}
				_, errs[k] = sink.done(nil)
			}(k)
		}
		wg.Wait()
		for k := uint64(0); k < 2; k++ {
			if errs[k] != nil {
				t.Errorf("round %d: snapshot %d failed: %v", i, 2*i+k, errs[k])
				bad++
				continue
			}
			s := &snapshots{dir: dir, index: 2*i + k}
			m, err := s.meta()
			if err != nil || m.index != 2*i+k || m.term != 100+k {
				t.Errorf("round %d: label of snapshot %d: index=%d term=%d err=%v", i, 2*i+k, m.index, m.term, err)
				bad++
			}
		}
	}
}
