package raft

// Native demonstration of finding (e): the snapshot goroutine is handed configs.Committed when the request is
// accepted, but labels the snapshot with the index the FSM has reached when it is finally served. If a configuration
// entry commits and is applied in between, the stored snapshot covers that entry and is labelled with the older
// configuration. The body of the goroutine is called by hand at the late point (its arguments are evaluated at the
// `go` statement, exactly as here).

import (
	"io"
	"io/ioutil"
	"os"
	"testing"
)

type vNativeFSM struct{ n int }

func (f *vNativeFSM) Update(cmd []byte) interface{}   { f.n++; return f.n }
func (f *vNativeFSM) Read(cmd interface{}) interface{} { return f.n }
func (f *vNativeFSM) Snapshot() (FSMState, error)      { return vNativeState{}, nil }
func (f *vNativeFSM) Restore(io.Reader) error          { return nil }

type vNativeState struct{}

func (vNativeState) Persist(w io.Writer) error { _, err := w.Write([]byte("x")); return err }
func (vNativeState) Release()                  {}

func TestVerifFindingE(t *testing.T) {
	dir, _ := ioutil.TempDir("", "verif")
	defer os.RemoveAll(dir)
	if err := SetIdentity(dir, 1, 1); err != nil {
		t.Fatal(err)
	}
	r, err := New(DefaultOptions(), &vNativeFSM{}, dir)
	if err != nil {
		t.Fatal(err)
	}
	cfg1 := Config{Nodes: map[uint64]Node{1: {ID: 1, Addr: "localhost:7001", Voter: true}}, Index: 1, Term: 1}
	if err := r.storage.bootstrap(cfg1); err != nil {
		t.Fatal(err)
	}
	r.changeConfig(cfg1)
	r.commitConfig()
	r.commitIndex = 1
	go r.fsm.runLoop()
	defer close(r.fsm.ch)

	// entries 2 (update) and 3 (configuration adding node 2) are in the log, not yet committed
	r.storage.appendEntry(&entry{index: 2, term: 1, typ: entryUpdate, data: []byte("u")})
	cfg2 := cfg1.clone()
	cfg2.Nodes[2] = Node{ID: 2, Addr: "localhost:7002"}
	cfg2.Index, cfg2.Term = 3, 1
	r.storage.appendEntry(cfg2.encode())
	r.changeConfig(cfg2)

	// a snapshot request is accepted: `go func(index, config){...}(r.snaps.index+threshold, r.configs.Committed)`
	index := r.snaps.index + 0
	// before that goroutine gets to run, the leader's commit index arrives and the FSM applies up to 3
	r.setCommitIndex(3)
	r.applyCommitted(nil)
	if got := r.lastApplied(); got != 3 {
		t.Fatalf("lastApplied=%d", got)
	}
	meta, err := doTakeSnapshot(r.fsm, index)
	if err != nil {
		t.Fatal(err)
	}
	t.Logf("snapshot label: index=%d term=%d config.Index=%d (nodes=%d); configuration in force at index %d is the entry at index 3 (2 nodes)",
		meta.index, meta.term, meta.config.Index, len(meta.config.Nodes), meta.index)
	if meta.index >= 3 && meta.config.Index != 3 {
		t.Fatalf("snapshot covering the configuration entry at index 3 is labelled with the older configuration of index %d", meta.config.Index)
	}
}
