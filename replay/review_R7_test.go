package raft

import (
	"bytes"
	"context"
	"io/ioutil"
	"os"
	"path/filepath"
	"syscall"
	"testing"
	"time"

	"github.com/santhosh-tekuri/fnet"
)

// helpers -------------------------------------------------------------------

func zzReviewOptions(hbTimeout time.Duration) Options {
	return Options{
		HeartbeatTimeout: hbTimeout,
		PromoteThreshold: hbTimeout,
		Bandwidth:        256 * 1024,
		LogSegmentSize:   4 * 1024,
		SnapshotsRetain:  1,
		ShutdownOnRemove: true,
	}
}

func zzReviewDir(t *testing.T, cid, nid uint64) string {
	t.Helper()
	dir, err := ioutil.TempDir(tempDir, "review")
	if err != nil {
		t.Fatal(err)
	}
	if err := SetIdentity(dir, cid, nid); err != nil {
		t.Fatal(err)
	}
	return dir
}

func zzReviewInfo(t *testing.T, r *Raft) Info {
	t.Helper()
	res, err := waitTask(r, GetInfo(), 5*time.Second)
	if err != nil {
		t.Fatal(err)
	}
	return res.(Info)
}

// ---------------------------------------------------------------------------
// Defect 1 (C20), handler level.
//
// A peer that believes we are (cid=200, nid=2) dials us, we are (cid=100, nid=2).
// The handshake is answered with identityMismatch, but replyRPC still tells the
// state loop to reset the election timer, when the foreign peer happens to have
// the node id of our current leader.
func TestReview1(t *testing.T) {
	dir := zzReviewDir(t, 100, 2)
	r, err := New(zzReviewOptions(time.Second), &fsmMock{}, dir)
	if err != nil {
		t.Fatal(err)
	}
	defer r.storage.log.Close()

	r.leader = 1 // we follow node 1 of our cluster

	// node 1 of cluster 200 was told that its node 2 lives at our address
	foreign := &rpc{
		req:  &identityReq{req: req{src: 1}, cid: 200, nid: 2},
		done: make(chan struct{}),
	}
	resetTimer := r.replyRPC(foreign)
	if got := foreign.resp.getResult(); got != identityMismatch {
		t.Fatalf("result=%v, want identityMismatch", got)
	}
	if resetTimer {
		t.Fatal("handshake of a peer of another cluster, that is rejected with " +
			"identityMismatch, resets our election timer")
	}
}

// Defect 1 (C20), end to end.
//
// node 2 of cluster 100 {1,2,3} hears once from its leader node 1, which then goes
// silent (partitioned, connection stays open). Node 1 of cluster 200 has node 2
// configured with our address, so it keeps dialling us: each attempt fails in the
// handshake and is retried with backoff capped at hbTimeout/2. Node 2 must still
// give up on its leader after the election timeout.
func TestReview2(t *testing.T) {
	hb := 300 * time.Millisecond
	nw := fnet.New()
	opt := zzReviewOptions(hb)
	nodes := map[uint64]Node{
		1: {ID: 1, Addr: "M1:7001", Voter: true},
		2: {ID: 2, Addr: "M2:7001", Voter: true},
		3: {ID: 3, Addr: "M3:7001", Voter: true},
	}
	dir := zzReviewDir(t, 100, 2)
	if err := bootstrapStorage(dir, opt, nodes); err != nil {
		t.Fatal(err)
	}
	r, err := New(opt, &fsmMock{}, dir)
	if err != nil {
		t.Fatal(err)
	}
	r.dialFn = nw.Host("M2").DialTimeout
	l, err := nw.Host("M2").Listen("tcp", "M2:7001")
	if err != nil {
		t.Fatal(err)
	}
	served := make(chan error, 1)
	go func() { served <- r.Serve(l) }()
	defer func() {
		_ = r.Shutdown(context.Background())
		<-served
	}()

	// the real leader: handshake and one heartbeat, then silence
	ldrConn, err := dial(nw.Host("M1").DialTimeout, "M2:7001", time.Second)
	if err != nil {
		t.Fatal(err)
	}
	defer ldrConn.rwc.Close()
	idResp := &identityResp{}
	if err = ldrConn.doRPC(&identityReq{req: req{src: 1}, cid: 100, nid: 2}, idResp, time.Now().Add(time.Second)); err != nil {
		t.Fatal(err)
	}
	if idResp.result != success {
		t.Fatalf("leader handshake: %v", idResp.result)
	}
	hbResp := &appendResp{}
	hbReq := &appendReq{req: req{term: 1, src: 1}, prevLogIndex: 1, prevLogTerm: 1}
	if err = ldrConn.doRPC(hbReq, hbResp, time.Now().Add(time.Second)); err != nil {
		t.Fatal(err)
	}
	if hbResp.result != success {
		t.Fatalf("heartbeat: %v", hbResp.result)
	}
	if info := zzReviewInfo(t, r); info.State != Follower || info.Leader != 1 {
		t.Fatalf("state=%v leader=%d, want follower of 1", info.State, info.Leader)
	}

	// node 1 of the other cluster
	stop := make(chan struct{})
	stopped := make(chan struct{})
	go func() {
		defer close(stopped)
		for {
			c, err := dial(nw.Host("X1").DialTimeout, "M2:7001", time.Second)
			if err == nil {
				resp := &identityResp{}
				err = c.doRPC(&identityReq{req: req{src: 1}, cid: 200, nid: 2}, resp, time.Now().Add(time.Second))
				if err == nil && resp.result != identityMismatch {
					t.Errorf("foreign handshake: %v", resp.result)
				}
				_ = c.rwc.Close()
			}
			select {
			case <-stop:
				return
			case <-time.After(hb / 2):
			}
		}
	}()
	defer func() {
		close(stop)
		<-stopped
	}()

	// election timeout is in [hb, 2hb). give it 6hb
	deadline := time.Now().Add(6 * hb)
	for time.Now().Before(deadline) {
		info := zzReviewInfo(t, r)
		if info.State != Follower || info.Leader != 1 {
			return // gave up on the silent leader
		}
		time.Sleep(hb / 10)
	}
	t.Fatalf("node still follows its silent leader %v after last heartbeat (election timeout is < %v): "+
		"handshakes of another cluster's node keep resetting its election timer", 6*hb, 2*hb)
}

// ---------------------------------------------------------------------------
// Defect 2 (C18): errors of admin tasks do not survive encodeTaskResp/decodeTaskResp.
//
// InProgressError is sent as its message and decoded as its value, so the value is
// wrapped twice. TimeoutError, documented for Client.TransferLeadership, loses its kind.
func TestReview3(t *testing.T) {
	tests := []struct {
		name string
		typ  taskType
		err  error
	}{
		{"InProgressError(takeSnapshot)", taskTakeSnapshot, InProgressError("takeSnapshot")},
		{"InProgressError(transferLeadership)", taskTransferLdr, InProgressError("transferLeadership")},
		{"TimeoutError(transferLeadership)", taskTransferLdr, TimeoutError("transferLeadership")},
	}
	for _, test := range tests {
		t.Run(test.name, func(t *testing.T) {
			tsk := newTask()
			tsk.reply(test.err)
			buf := new(bytes.Buffer)
			if err := encodeTaskResp(tsk, buf); err != nil {
				t.Fatal(err)
			}
			_, got := decodeTaskResp(test.typ, buf)
			if buf.Len() != 0 {
				t.Fatalf("%d bytes left", buf.Len())
			}
			if got != test.err {
				t.Fatalf("got %T(%q), want %T(%q)", got, got, test.err, test.err)
			}
		})
	}
}

// ---------------------------------------------------------------------------
// Defect 3 (C15): Shutdown returns nil while the server is still running, if an
// earlier Serve call on the same Raft had failed (for ex. with ErrLockExists).

type zzBlockingFSM struct {
	*fsmMock
	entered chan struct{}
	release chan struct{}
}

func (fsm *zzBlockingFSM) Update(cmd []byte) interface{} {
	fsm.entered <- struct{}{}
	<-fsm.release
	return fsm.fsmMock.Update(cmd)
}

func TestReview4(t *testing.T) {
	hb := 100 * time.Millisecond
	nw := fnet.New()
	opt := zzReviewOptions(hb)
	dir := zzReviewDir(t, 300, 1)
	nodes := map[uint64]Node{1: {ID: 1, Addr: "M1:7002", Voter: true}}
	if err := bootstrapStorage(dir, opt, nodes); err != nil {
		t.Fatal(err)
	}

	// lock file left behind by a process that was killed
	lock := filepath.Join(dir, "lock")
	if err := ioutil.WriteFile(lock, []byte("12345\n"), 0600); err != nil {
		t.Fatal(err)
	}

	fsm := &zzBlockingFSM{fsmMock: &fsmMock{}, entered: make(chan struct{}, 1), release: make(chan struct{})}
	r, err := New(opt, fsm, dir)
	if err != nil {
		t.Fatal(err)
	}
	r.dialFn = nw.Host("M1").DialTimeout
	l, err := nw.Host("M1").Listen("tcp", "M1:7002")
	if err != nil {
		t.Fatal(err)
	}
	if err := r.Serve(l); err != ErrLockExists {
		t.Fatalf("Serve: got %v, want ErrLockExists", err)
	}

	// operator removes the stale lock, and serve is tried again
	if err := os.Remove(lock); err != nil {
		t.Fatal(err)
	}
	served := make(chan error, 1)
	go func() { served <- r.Serve(l) }()

	deadline := time.Now().Add(10 * time.Second)
	for zzReviewInfo(t, r).State != Leader {
		if time.Now().After(deadline) {
			t.Fatal("no leader")
		}
		time.Sleep(hb / 10)
	}

	// an update that is being applied, keeps the fsm goroutine, thus Serve busy
	update := UpdateFSM([]byte("hello"))
	select {
	case r.FSMTasks() <- update:
	case <-time.After(5 * time.Second):
		t.Fatal("submit timeout")
	}
	select {
	case <-fsm.entered:
	case <-time.After(5 * time.Second):
		t.Fatal("update not applied")
	}

	ctx, cancel := context.WithTimeout(context.Background(), 500*time.Millisecond)
	shutdownErr := r.Shutdown(ctx)
	cancel()
	running := true
	select {
	case err := <-served:
		served <- err
		running = false
	default:
	}
	updateDone := isClosed(update.Done())
	_, lockErr := os.Stat(lock)

	close(fsm.release)
	if err := <-served; err != ErrServerClosed {
		t.Errorf("Serve: got %v, want ErrServerClosed", err)
	}

	if shutdownErr == nil && running {
		t.Fatalf("Shutdown returned nil, but shutdown is not complete: Serve still running, "+
			"pending update completed=%v, storage still locked=%v", updateDone, lockErr == nil)
	}
}

// ---------------------------------------------------------------------------
// Defect 4 (C15): snapshots.open is not atomic with respect to snapshots.applyRetain.
//
// A replication goroutine (sendInstallSnapReq) opens the latest snapshot for a
// lagging follower: it reads the meta file of snapshot 5, and only later marks 5
// as used. In between, the snapshot goroutine completes snapshot 9 and, with
// SnapshotsRetain=1, removes snapshot 5 as nobody is using it. open fails, the
// replication reports OpError{"snapshots.open"} and leader shuts itself down.
//
// the meta file is replaced by a fifo with same content, just to hold the opener
// at the point where it is reading the meta file.
func TestReview5(t *testing.T) {
	root, err := ioutil.TempDir(tempDir, "review")
	if err != nil {
		t.Fatal(err)
	}
	dir := filepath.Join(root, "snapshots")
	snaps, err := openSnapshots(dir, Options{SnapshotsRetain: 1})
	if err != nil {
		t.Fatal(err)
	}
	store := func(index uint64) error {
		sink, err := snaps.new(index, 1, Config{})
		if err != nil {
			return err
		}
		if _, err = sink.file.WriteString("state"); err != nil {
			return err
		}
		_, err = sink.done(nil)
		return err
	}
	if err = store(5); err != nil {
		t.Fatal(err)
	}

	meta5 := metaFile(dir, 5)
	content, err := ioutil.ReadFile(meta5)
	if err != nil {
		t.Fatal(err)
	}
	if err = os.Remove(meta5); err != nil {
		t.Fatal(err)
	}
	if err = syscall.Mkfifo(meta5, 0600); err != nil {
		t.Skip("mkfifo:", err)
	}

	// replication goroutine: opens latest snapshot to send it to follower
	type result struct {
		snap *snapshot
		err  error
	}
	opened := make(chan result, 1)
	go func() {
		snap, err := snaps.open()
		opened <- result{snap, err}
	}()
	// returns once the opener has opened the meta file of snapshot 5
	w, err := os.OpenFile(meta5, os.O_WRONLY, 0)
	if err != nil {
		t.Fatal(err)
	}

	// snapshot goroutine: completes snapshot 9 meanwhile
	stored := make(chan error, 1)
	go func() { stored <- store(9) }()
	storedErr, storedDone := error(nil), false
	select {
	case storedErr = <-stored:
		storedDone = true
	case <-time.After(500 * time.Millisecond):
		// an implementation may make this wait for the opener. that is fine
	}

	// let the opener continue
	if _, err = w.Write(content); err != nil {
		t.Fatal(err)
	}
	if err = w.Close(); err != nil {
		t.Fatal(err)
	}
	res := <-opened
	if !storedDone {
		storedErr = <-stored
	}
	if storedErr != nil {
		t.Fatal(storedErr)
	}
	if res.err != nil {
		t.Fatalf("snapshots.open failed, because the snapshot it was opening is removed by retention "+
			"of a snapshot completed meanwhile; replication turns this into OpError and leader shuts down: %v", res.err)
	}
	res.snap.release()
}
