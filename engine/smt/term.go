// Package smt is a small hash-consed term library over SMT-LIB2 bit-vectors and booleans,
// with constant folding and a "bit-pieces" normal form that collapses the byte-wise
// encode/decode idioms (binary.LittleEndian.PutUint64 / Uint64) back to the original word.
package smt

import (
	"fmt"
	"math/bits"
	"strings"
)

type Op uint8

const (
	OpVar Op = iota
	OpConst
	// bool
	OpNot
	OpAnd
	OpOr
	OpEq // args same sort; result bool
	OpIte
	// bv -> bv
	OpBVAdd
	OpBVSub
	OpBVMul
	OpBVUDiv
	OpBVSDiv
	OpBVURem
	OpBVSRem
	OpBVAnd
	OpBVOr
	OpBVXor
	OpBVNot
	OpBVNeg
	OpBVShl
	OpBVLShr
	OpBVAShr
	OpConcat
	OpExtract // P0=hi P1=lo
	OpZExt    // to width W
	OpSExt
	// bv -> bool
	OpULt
	OpULe
	OpSLt
	OpSLe
)

var opNames = map[Op]string{
	OpNot: "not", OpAnd: "and", OpOr: "or", OpEq: "=", OpIte: "ite",
	OpBVAdd: "bvadd", OpBVSub: "bvsub", OpBVMul: "bvmul", OpBVUDiv: "bvudiv", OpBVSDiv: "bvsdiv",
	OpBVURem: "bvurem", OpBVSRem: "bvsrem", OpBVAnd: "bvand", OpBVOr: "bvor", OpBVXor: "bvxor",
	OpBVNot: "bvnot", OpBVNeg: "bvneg", OpBVShl: "bvshl", OpBVLShr: "bvlshr", OpBVAShr: "bvashr",
	OpConcat: "concat", OpULt: "bvult", OpULe: "bvule", OpSLt: "bvslt", OpSLe: "bvsle",
}

// Term is an immutable DAG node. W==0 means Bool; otherwise a bit-vector of W bits (1..64).
type Term struct {
	Op   Op
	W    int
	Args []*Term
	Val  uint64 // OpConst: value (bool: 0/1)
	Name string // OpVar
	P0   int    // extract hi
	P1   int    // extract lo
	ID   int
	C    *Ctx
}

func (t *Term) IsBool() bool  { return t.W == 0 }
func (t *Term) IsConst() bool { return t.Op == OpConst }

// Ctx owns the hash-cons table. Not safe for concurrent use; one per worker.
type Ctx struct {
	tab   map[string]*Term
	next  int
	Vars  []*Term
	True  *Term
	False *Term
}

func NewCtx() *Ctx {
	c := &Ctx{tab: make(map[string]*Term)}
	c.True = c.mk(&Term{Op: OpConst, W: 0, Val: 1})
	c.False = c.mk(&Term{Op: OpConst, W: 0, Val: 0})
	return c
}

func (c *Ctx) mk(t *Term) *Term {
	var sb strings.Builder
	fmt.Fprintf(&sb, "%d/%d/%d/%s/%d/%d", t.Op, t.W, t.Val, t.Name, t.P0, t.P1)
	for _, a := range t.Args {
		fmt.Fprintf(&sb, ",%d", a.ID)
	}
	k := sb.String()
	if e, ok := c.tab[k]; ok {
		return e
	}
	c.next++
	t.ID = c.next
	t.C = c
	c.tab[k] = t
	if t.Op == OpVar {
		c.Vars = append(c.Vars, t)
	}
	return t
}

func mask(w int) uint64 {
	if w >= 64 {
		return ^uint64(0)
	}
	return (uint64(1) << uint(w)) - 1
}

func (c *Ctx) Var(name string, w int) *Term { return c.mk(&Term{Op: OpVar, W: w, Name: name}) }
func (c *Ctx) BoolVar(name string) *Term    { return c.mk(&Term{Op: OpVar, W: 0, Name: name}) }
func (c *Ctx) BV(v uint64, w int) *Term     { return c.mk(&Term{Op: OpConst, W: w, Val: v & mask(w)}) }
func (c *Ctx) Bool(b bool) *Term {
	if b {
		return c.True
	}
	return c.False
}

func sext64(v uint64, w int) int64 {
	if w >= 64 {
		return int64(v)
	}
	s := uint(64 - w)
	return int64(v<<s) >> s
}

// ---- boolean ----

func (c *Ctx) Not(a *Term) *Term {
	if a.IsConst() {
		return c.Bool(a.Val == 0)
	}
	if a.Op == OpNot {
		return a.Args[0]
	}
	return c.mk(&Term{Op: OpNot, Args: []*Term{a}})
}

func (c *Ctx) And(a, b *Term) *Term {
	if a.IsConst() {
		if a.Val == 0 {
			return c.False
		}
		return b
	}
	if b.IsConst() {
		if b.Val == 0 {
			return c.False
		}
		return a
	}
	if a == b {
		return a
	}
	if c.Not(a) == b {
		return c.False
	}
	return c.mk(&Term{Op: OpAnd, Args: []*Term{a, b}})
}

func (c *Ctx) Or(a, b *Term) *Term {
	if a.IsConst() {
		if a.Val == 1 {
			return c.True
		}
		return b
	}
	if b.IsConst() {
		if b.Val == 1 {
			return c.True
		}
		return a
	}
	if a == b {
		return a
	}
	if c.Not(a) == b {
		return c.True
	}
	return c.mk(&Term{Op: OpOr, Args: []*Term{a, b}})
}

func (c *Ctx) Implies(a, b *Term) *Term { return c.Or(c.Not(a), b) }

func (c *Ctx) Eq(a, b *Term) *Term {
	if a.W != b.W {
		panic(fmt.Sprintf("smt.Eq: width mismatch %d vs %d", a.W, b.W))
	}
	if a == b {
		return c.True
	}
	if a.IsConst() && b.IsConst() {
		return c.Bool(a.Val == b.Val)
	}
	if a.W == 0 {
		if a.IsConst() {
			a, b = b, a
		}
		if b.IsConst() {
			if b.Val == 1 {
				return a
			}
			return c.Not(a)
		}
	} else {
		// piecewise equality when both sides are concatenations with identical cut points
		// and one side has constant pieces that contradict.
		if a.IsConst() {
			a, b = b, a
		}
		// (zext x) == const  where const has high bits set -> false
		if b.IsConst() {
			ps := c.pieces(a)
			if len(ps) > 1 {
				var res *Term = c.True
				off := 0
				// pieces are low-to-high
				allSimple := true
				for _, p := range ps {
					cv := (b.Val >> uint(off)) & mask(p.w)
					if p.t == nil {
						if cv != 0 {
							return c.False
						}
					} else if p.t.IsConst() {
						if p.t.Val != cv {
							return c.False
						}
					} else {
						pt := c.pieceTerm(p)
						res = c.And(res, c.mk(&Term{Op: OpEq, Args: order(pt, c.BV(cv, p.w))}))
						if res.Op == OpAnd {
							allSimple = false
						}
					}
					off += p.w
				}
				_ = allSimple
				return res
			}
		}
	}
	return c.mk(&Term{Op: OpEq, Args: order(a, b)})
}

func order(a, b *Term) []*Term {
	if a.ID > b.ID {
		return []*Term{b, a}
	}
	return []*Term{a, b}
}

func (c *Ctx) Ite(cond, a, b *Term) *Term {
	if cond.IsConst() {
		if cond.Val == 1 {
			return a
		}
		return b
	}
	if a == b {
		return a
	}
	if a.W == 0 {
		if a.IsConst() && b.IsConst() {
			if a.Val == 1 {
				return cond
			}
			return c.Not(cond)
		}
		if a.IsConst() {
			if a.Val == 1 {
				return c.Or(cond, b)
			}
			return c.And(c.Not(cond), b)
		}
		if b.IsConst() {
			if b.Val == 1 {
				return c.Or(c.Not(cond), a)
			}
			return c.And(cond, a)
		}
	}
	return c.mk(&Term{Op: OpIte, W: a.W, Args: []*Term{cond, a, b}})
}

// ---- bit-vector ----

func (c *Ctx) binBV(op Op, a, b *Term) *Term {
	if a.W != b.W || a.W == 0 {
		panic(fmt.Sprintf("smt: %s width mismatch %d vs %d", opNames[op], a.W, b.W))
	}
	w := a.W
	m := mask(w)
	if a.IsConst() && b.IsConst() {
		return c.BV(foldBin(op, a.Val, b.Val, w), w)
	}
	switch op {
	case OpBVAdd:
		if a.IsConst() {
			a, b = b, a
		}
		if b.IsConst() && b.Val == 0 {
			return a
		}
		// (x + c1) + c2
		if b.IsConst() && a.Op == OpBVAdd && a.Args[1].IsConst() {
			return c.binBV(OpBVAdd, a.Args[0], c.BV(a.Args[1].Val+b.Val, w))
		}
		if b.IsConst() && a.Op == OpBVSub && a.Args[1].IsConst() {
			return c.binBV(OpBVAdd, a.Args[0], c.BV(b.Val-a.Args[1].Val, w))
		}
		if !b.IsConst() && a.ID > b.ID {
			a, b = b, a
		}
	case OpBVSub:
		if b.IsConst() {
			if b.Val == 0 {
				return a
			}
			return c.binBV(OpBVAdd, a, c.BV(-b.Val, w))
		}
		if a == b {
			return c.BV(0, w)
		}
		// (x + k) - x = k
		if a.Op == OpBVAdd && a.Args[0] == b && a.Args[1].IsConst() {
			return a.Args[1]
		}
	case OpBVMul:
		if a.IsConst() {
			a, b = b, a
		}
		if b.IsConst() {
			if b.Val == 0 {
				return b
			}
			if b.Val == 1 {
				return a
			}
			if bits.OnesCount64(b.Val) == 1 {
				return c.binBV(OpBVShl, a, c.BV(uint64(bits.TrailingZeros64(b.Val)), w))
			}
		}
	case OpBVUDiv:
		if b.IsConst() && b.Val == 1 {
			return a
		}
		if b.IsConst() && b.Val != 0 && bits.OnesCount64(b.Val) == 1 {
			return c.binBV(OpBVLShr, a, c.BV(uint64(bits.TrailingZeros64(b.Val)), w))
		}
	case OpBVAnd:
		if a.IsConst() {
			a, b = b, a
		}
		if a == b {
			return a
		}
		if b.IsConst() {
			if b.Val == 0 {
				return b
			}
			if b.Val == m {
				return a
			}
			// low mask: and with 2^k-1 = zext(extract)
			if b.Val&(b.Val+1) == 0 {
				k := bits.Len64(b.Val)
				return c.ZExt(c.Extract(a, k-1, 0), w)
			}
		}
	case OpBVOr:
		if a.IsConst() {
			a, b = b, a
		}
		if a == b {
			return a
		}
		if b.IsConst() {
			if b.Val == 0 {
				return a
			}
			if b.Val == m {
				return b
			}
		}
		if r := c.orPieces(a, b); r != nil {
			return r
		}
	case OpBVXor:
		if a.IsConst() {
			a, b = b, a
		}
		if a == b {
			return c.BV(0, w)
		}
		if b.IsConst() && b.Val == 0 {
			return a
		}
	case OpBVShl:
		if b.IsConst() {
			if b.Val == 0 {
				return a
			}
			if b.Val >= uint64(w) {
				return c.BV(0, w)
			}
			k := int(b.Val)
			// shl k = concat(extract(a, w-1-k, 0), 0_k)
			return c.Concat(c.Extract(a, w-1-k, 0), c.BV(0, k))
		}
		if a.IsConst() && a.Val == 0 {
			return a
		}
	case OpBVLShr:
		if b.IsConst() {
			if b.Val == 0 {
				return a
			}
			if b.Val >= uint64(w) {
				return c.BV(0, w)
			}
			k := int(b.Val)
			return c.ZExt(c.Extract(a, w-1, k), w)
		}
		if a.IsConst() && a.Val == 0 {
			return a
		}
	case OpBVAShr:
		if b.IsConst() && b.Val == 0 {
			return a
		}
	}
	return c.mk(&Term{Op: op, W: w, Args: []*Term{a, b}})
}

func (c *Ctx) Add(a, b *Term) *Term  { return c.binBV(OpBVAdd, a, b) }
func (c *Ctx) Sub(a, b *Term) *Term  { return c.binBV(OpBVSub, a, b) }
func (c *Ctx) Mul(a, b *Term) *Term  { return c.binBV(OpBVMul, a, b) }
func (c *Ctx) UDiv(a, b *Term) *Term { return c.binBV(OpBVUDiv, a, b) }
func (c *Ctx) SDiv(a, b *Term) *Term { return c.binBV(OpBVSDiv, a, b) }
func (c *Ctx) URem(a, b *Term) *Term { return c.binBV(OpBVURem, a, b) }
func (c *Ctx) SRem(a, b *Term) *Term { return c.binBV(OpBVSRem, a, b) }
func (c *Ctx) BAnd(a, b *Term) *Term { return c.binBV(OpBVAnd, a, b) }
func (c *Ctx) BOr(a, b *Term) *Term  { return c.binBV(OpBVOr, a, b) }
func (c *Ctx) BXor(a, b *Term) *Term { return c.binBV(OpBVXor, a, b) }
func (c *Ctx) Shl(a, b *Term) *Term  { return c.binBV(OpBVShl, a, b) }
func (c *Ctx) LShr(a, b *Term) *Term { return c.binBV(OpBVLShr, a, b) }
func (c *Ctx) AShr(a, b *Term) *Term { return c.binBV(OpBVAShr, a, b) }

func (c *Ctx) BNot(a *Term) *Term {
	if a.IsConst() {
		return c.BV(^a.Val, a.W)
	}
	if a.Op == OpBVNot {
		return a.Args[0]
	}
	return c.mk(&Term{Op: OpBVNot, W: a.W, Args: []*Term{a}})
}

func (c *Ctx) Neg(a *Term) *Term {
	if a.IsConst() {
		return c.BV(-a.Val, a.W)
	}
	return c.mk(&Term{Op: OpBVNeg, W: a.W, Args: []*Term{a}})
}

func (c *Ctx) cmp(op Op, a, b *Term) *Term {
	if a.W != b.W || a.W == 0 {
		panic(fmt.Sprintf("smt: %s width mismatch %d vs %d", opNames[op], a.W, b.W))
	}
	if a.IsConst() && b.IsConst() {
		switch op {
		case OpULt:
			return c.Bool(a.Val < b.Val)
		case OpULe:
			return c.Bool(a.Val <= b.Val)
		case OpSLt:
			return c.Bool(sext64(a.Val, a.W) < sext64(b.Val, a.W))
		case OpSLe:
			return c.Bool(sext64(a.Val, a.W) <= sext64(b.Val, a.W))
		}
	}
	if a == b {
		return c.Bool(op == OpULe || op == OpSLe)
	}
	switch op {
	case OpULt:
		if b.IsConst() && b.Val == 0 {
			return c.False
		}
		if a.IsConst() && a.Val == mask(a.W) {
			return c.False
		}
		if b.IsConst() && b.Val == 1 {
			return c.Eq(a, c.BV(0, a.W))
		}
		if a.IsConst() && a.Val == 0 {
			return c.Not(c.Eq(b, a))
		}
	case OpULe:
		if a.IsConst() && a.Val == 0 {
			return c.True
		}
		if b.IsConst() && b.Val == mask(a.W) {
			return c.True
		}
		if b.IsConst() && b.Val == 0 {
			return c.Eq(a, b)
		}
	}
	return c.mk(&Term{Op: op, Args: []*Term{a, b}})
}

func (c *Ctx) ULt(a, b *Term) *Term { return c.cmp(OpULt, a, b) }
func (c *Ctx) ULe(a, b *Term) *Term { return c.cmp(OpULe, a, b) }
func (c *Ctx) SLt(a, b *Term) *Term { return c.cmp(OpSLt, a, b) }
func (c *Ctx) SLe(a, b *Term) *Term { return c.cmp(OpSLe, a, b) }

// ---- pieces normal form ----

// piece describes w bits: bits [lo, lo+w) of t; t==nil means zero bits.
type piece struct {
	t  *Term
	lo int
	w  int
}

// pieces decomposes a bit-vector term into low-to-high pieces over "atomic" terms.
func (c *Ctx) pieces(t *Term) []piece {
	switch t.Op {
	case OpConst:
		if t.Val == 0 {
			return []piece{{nil, 0, t.W}}
		}
		return []piece{{t, 0, t.W}}
	case OpConcat:
		// Args[0] is high, Args[1] is low
		lo := c.pieces(t.Args[1])
		hi := c.pieces(t.Args[0])
		return append(append([]piece{}, lo...), hi...)
	case OpZExt:
		ps := c.pieces(t.Args[0])
		return append(append([]piece{}, ps...), piece{nil, 0, t.W - t.Args[0].W})
	case OpExtract:
		return slicePieces(c.pieces(t.Args[0]), t.P1, t.P0-t.P1+1)
	}
	return []piece{{t, 0, t.W}}
}

func slicePieces(ps []piece, lo, w int) []piece {
	var out []piece
	off := 0
	for _, p := range ps {
		pl, ph := off, off+p.w // [pl,ph)
		off = ph
		a, b := maxInt(pl, lo), minInt(ph, lo+w)
		if a >= b {
			continue
		}
		np := piece{p.t, p.lo + (a - pl), b - a}
		if p.t == nil {
			np.lo = 0
		}
		out = append(out, np)
	}
	return out
}

func minInt(a, b int) int {
	if a < b {
		return a
	}
	return b
}
func maxInt(a, b int) int {
	if a > b {
		return a
	}
	return b
}

func (c *Ctx) pieceTerm(p piece) *Term {
	if p.t == nil {
		return c.BV(0, p.w)
	}
	if p.lo == 0 && p.w == p.t.W {
		return p.t
	}
	if p.t.IsConst() {
		return c.BV(p.t.Val>>uint(p.lo), p.w)
	}
	return c.mk(&Term{Op: OpExtract, W: p.w, Args: []*Term{p.t}, P0: p.lo + p.w - 1, P1: p.lo})
}

// fromPieces rebuilds a term from low-to-high pieces, merging adjacent compatible ones.
func (c *Ctx) fromPieces(ps []piece) *Term {
	// merge
	var m []piece
	for _, p := range ps {
		if p.w == 0 {
			continue
		}
		if p.t != nil && p.t.IsConst() {
			// normalise const piece to its own const
			v := (p.t.Val >> uint(p.lo)) & mask(p.w)
			if v == 0 {
				p = piece{nil, 0, p.w}
			} else {
				p = piece{c.BV(v, p.w), 0, p.w}
			}
		}
		if n := len(m); n > 0 {
			q := &m[n-1]
			if q.t == nil && p.t == nil {
				q.w += p.w
				continue
			}
			if q.t != nil && p.t != nil && q.t == p.t && !p.t.IsConst() && q.lo+q.w == p.lo {
				q.w += p.w
				continue
			}
			qc := q.t == nil || q.t.IsConst()
			pc := p.t == nil || p.t.IsConst()
			if qc && pc && q.w+p.w <= 64 {
				var qv, pv uint64
				if q.t != nil {
					qv = q.t.Val
				}
				if p.t != nil {
					pv = p.t.Val
				}
				v := qv | pv<<uint(q.w)
				if v == 0 {
					*q = piece{nil, 0, q.w + p.w}
				} else {
					*q = piece{c.BV(v, q.w+p.w), 0, q.w + p.w}
				}
				continue
			}
		}
		m = append(m, p)
	}
	// build: top zero piece -> zext
	var res *Term
	for i, p := range m {
		if i == 0 {
			res = c.pieceTerm(p)
			continue
		}
		if p.t == nil && i == len(m)-1 {
			res = c.mk(&Term{Op: OpZExt, W: res.W + p.w, Args: []*Term{res}})
			continue
		}
		hi := c.pieceTerm(p)
		res = c.mk(&Term{Op: OpConcat, W: res.W + hi.W, Args: []*Term{hi, res}})
	}
	return res
}

// orPieces: if a and b have no overlapping non-zero pieces, a|b is their interleaving.
func (c *Ctx) orPieces(a, b *Term) *Term {
	pa, pb := c.pieces(a), c.pieces(b)
	if len(pa) == 1 && pa[0].t != nil && len(pb) == 1 && pb[0].t != nil {
		return nil
	}
	// cut both at common boundaries
	var out []piece
	ia, ib := 0, 0
	var ra, rb piece
	if len(pa) > 0 {
		ra = pa[0]
	}
	if len(pb) > 0 {
		rb = pb[0]
	}
	for ia < len(pa) && ib < len(pb) {
		w := minInt(ra.w, rb.w)
		xa := piece{ra.t, ra.lo, w}
		xb := piece{rb.t, rb.lo, w}
		switch {
		case xa.t == nil:
			out = append(out, xb)
		case xb.t == nil:
			out = append(out, xa)
		case xa.t.IsConst() && xb.t.IsConst():
			va := (xa.t.Val >> uint(xa.lo)) & mask(w)
			vb := (xb.t.Val >> uint(xb.lo)) & mask(w)
			out = append(out, piece{c.BV(va|vb, w), 0, w})
		default:
			return nil
		}
		ra.w -= w
		rb.w -= w
		if ra.t != nil {
			ra.lo += w
		}
		if rb.t != nil {
			rb.lo += w
		}
		if ra.w == 0 {
			ia++
			if ia < len(pa) {
				ra = pa[ia]
			}
		}
		if rb.w == 0 {
			ib++
			if ib < len(pb) {
				rb = pb[ib]
			}
		}
	}
	return c.fromPieces(out)
}

func (c *Ctx) Concat(hi, lo *Term) *Term {
	if hi.W+lo.W > 64 {
		panic("smt.Concat: width > 64")
	}
	ps := append(append([]piece{}, c.pieces(lo)...), c.pieces(hi)...)
	return c.fromPieces(ps)
}

func (c *Ctx) Extract(a *Term, hi, lo int) *Term {
	if hi >= a.W || lo < 0 || hi < lo {
		panic(fmt.Sprintf("smt.Extract: bad range [%d:%d] of %d", hi, lo, a.W))
	}
	if lo == 0 && hi == a.W-1 {
		return a
	}
	// push extract through ite of constants / bitwise ops? keep simple: pieces
	if a.Op == OpIte {
		x, y := c.Extract(a.Args[1], hi, lo), c.Extract(a.Args[2], hi, lo)
		return c.Ite(a.Args[0], x, y)
	}
	return c.fromPieces(slicePieces(c.pieces(a), lo, hi-lo+1))
}

func (c *Ctx) ZExt(a *Term, w int) *Term {
	if w == a.W {
		return a
	}
	if w < a.W {
		panic("smt.ZExt: narrowing")
	}
	ps := append(append([]piece{}, c.pieces(a)...), piece{nil, 0, w - a.W})
	return c.fromPieces(ps)
}

func (c *Ctx) SExt(a *Term, w int) *Term {
	if w == a.W {
		return a
	}
	if w < a.W {
		panic("smt.SExt: narrowing")
	}
	if a.IsConst() {
		return c.BV(uint64(sext64(a.Val, a.W)), w)
	}
	return c.mk(&Term{Op: OpSExt, W: w, Args: []*Term{a}})
}

// Resize converts a to width w: truncation, or zero/sign extension.
func (c *Ctx) Resize(a *Term, w int, signed bool) *Term {
	switch {
	case w == a.W:
		return a
	case w < a.W:
		return c.Extract(a, w-1, 0)
	case signed:
		return c.SExt(a, w)
	default:
		return c.ZExt(a, w)
	}
}

// ---- printing ----

func sortOf(t *Term) string {
	if t.W == 0 {
		return "Bool"
	}
	return fmt.Sprintf("(_ BitVec %d)", t.W)
}

func constStr(t *Term) string {
	if t.W == 0 {
		if t.Val == 1 {
			return "true"
		}
		return "false"
	}
	if t.W%4 == 0 {
		return fmt.Sprintf("#x%0*x", t.W/4, t.Val)
	}
	return fmt.Sprintf("#b%0*b", t.W, t.Val)
}

// Ref is how a term is referenced in SMT text once defined.
func Ref(t *Term) string {
	switch t.Op {
	case OpConst:
		return constStr(t)
	case OpVar:
		return "|" + t.Name + "|"
	}
	return fmt.Sprintf("t%d", t.ID)
}

// Body is the one-level SMT-LIB expression of t in terms of Ref(children).
func Body(t *Term) string {
	switch t.Op {
	case OpConst, OpVar:
		return Ref(t)
	case OpExtract:
		return fmt.Sprintf("((_ extract %d %d) %s)", t.P0, t.P1, Ref(t.Args[0]))
	case OpZExt:
		return fmt.Sprintf("((_ zero_extend %d) %s)", t.W-t.Args[0].W, Ref(t.Args[0]))
	case OpSExt:
		return fmt.Sprintf("((_ sign_extend %d) %s)", t.W-t.Args[0].W, Ref(t.Args[0]))
	}
	var sb strings.Builder
	sb.WriteString("(")
	sb.WriteString(opNames[t.Op])
	for _, a := range t.Args {
		sb.WriteString(" ")
		sb.WriteString(Ref(a))
	}
	sb.WriteString(")")
	return sb.String()
}

// String renders a fully inlined expression (for evidence samples / debugging); depth-limited.
func (t *Term) String() string { return t.str(6) }

func (t *Term) str(d int) string {
	switch t.Op {
	case OpConst:
		if t.W == 0 {
			return constStr(t)
		}
		return fmt.Sprintf("%d:%d", t.Val, t.W)
	case OpVar:
		return t.Name
	}
	if d == 0 {
		return "…"
	}
	var sb strings.Builder
	sb.WriteString("(")
	switch t.Op {
	case OpExtract:
		fmt.Fprintf(&sb, "extract[%d:%d]", t.P0, t.P1)
	case OpZExt:
		fmt.Fprintf(&sb, "zext%d", t.W)
	case OpSExt:
		fmt.Fprintf(&sb, "sext%d", t.W)
	default:
		sb.WriteString(opNames[t.Op])
	}
	for _, a := range t.Args {
		sb.WriteString(" ")
		sb.WriteString(a.str(d - 1))
	}
	sb.WriteString(")")
	return sb.String()
}

// Eval evaluates t under an assignment of variables (by name). Missing variables are 0.
func Eval(t *Term, env map[string]uint64, memo map[*Term]uint64) uint64 {
	if v, ok := memo[t]; ok {
		return v
	}
	var r uint64
	ev := func(i int) uint64 { return Eval(t.Args[i], env, memo) }
	b2u := func(b bool) uint64 {
		if b {
			return 1
		}
		return 0
	}
	switch t.Op {
	case OpConst:
		r = t.Val
	case OpVar:
		r = env[t.Name] & mask(maxInt(t.W, 1))
	case OpNot:
		r = 1 - ev(0)
	case OpAnd:
		r = ev(0) & ev(1)
	case OpOr:
		r = ev(0) | ev(1)
	case OpEq:
		r = b2u(ev(0) == ev(1))
	case OpIte:
		if ev(0) == 1 {
			r = ev(1)
		} else {
			r = ev(2)
		}
	case OpBVNot:
		r = ^ev(0) & mask(t.W)
	case OpBVNeg:
		r = -ev(0) & mask(t.W)
	case OpConcat:
		r = ev(0)<<uint(t.Args[1].W) | ev(1)
	case OpExtract:
		r = (ev(0) >> uint(t.P1)) & mask(t.W)
	case OpZExt:
		r = ev(0)
	case OpSExt:
		r = uint64(sext64(ev(0), t.Args[0].W)) & mask(t.W)
	case OpULt:
		r = b2u(ev(0) < ev(1))
	case OpULe:
		r = b2u(ev(0) <= ev(1))
	case OpSLt:
		r = b2u(sext64(ev(0), t.Args[0].W) < sext64(ev(1), t.Args[0].W))
	case OpSLe:
		r = b2u(sext64(ev(0), t.Args[0].W) <= sext64(ev(1), t.Args[0].W))
	default:
		// binary BV ops: reuse folding on constants
		r = foldBin(t.Op, ev(0), ev(1), t.W)
	}
	memo[t] = r
	return r
}

// foldBin computes a binary bit-vector operation on constants with SMT-LIB semantics.
func foldBin(op Op, x, y uint64, w int) uint64 {
	m := mask(w)
	var r uint64
	switch op {
	case OpBVAdd:
		r = x + y
	case OpBVSub:
		r = x - y
	case OpBVMul:
		r = x * y
	case OpBVUDiv:
		if y == 0 {
			r = m
		} else {
			r = x / y
		}
	case OpBVURem:
		if y == 0 {
			r = x
		} else {
			r = x % y
		}
	case OpBVSDiv:
		sx, sy := sext64(x, w), sext64(y, w)
		switch {
		case sy == 0 && sx < 0:
			r = 1
		case sy == 0:
			r = m
		case sy == -1:
			r = uint64(-sx)
		default:
			r = uint64(sx / sy)
		}
	case OpBVSRem:
		sx, sy := sext64(x, w), sext64(y, w)
		switch {
		case sy == 0:
			r = x
		case sy == -1:
			r = 0
		default:
			r = uint64(sx % sy)
		}
	case OpBVAnd:
		r = x & y
	case OpBVOr:
		r = x | y
	case OpBVXor:
		r = x ^ y
	case OpBVShl:
		if y >= uint64(w) {
			r = 0
		} else {
			r = x << y
		}
	case OpBVLShr:
		if y >= uint64(w) {
			r = 0
		} else {
			r = x >> y
		}
	case OpBVAShr:
		sx := sext64(x, w)
		if y >= uint64(w) {
			y = uint64(w - 1)
		}
		r = uint64(sx >> y)
	default:
		panic("foldBin: bad op")
	}
	return r & m
}
