package smt

import (
	"math/rand"
	"testing"
)

// differential test: simplifying constructors vs raw node construction, evaluated on random assignments.
func TestSimplifierAgainstRaw(t *testing.T) {
	rng := rand.New(rand.NewSource(1))
	for iter := 0; iter < 20000; iter++ {
		c := NewCtx()
		vars := []*Term{c.Var("a", 64), c.Var("b", 64), c.Var("x", 8), c.Var("y", 8), c.Var("w", 32)}
		bvars := []*Term{c.BoolVar("p"), c.BoolVar("q")}
		var genBV func(d, w int) (*Term, *Term)
		var genBool func(d int) (*Term, *Term)
		raw := func(op Op, w int, args ...*Term) *Term { return c.mk(&Term{Op: op, W: w, Args: args}) }
		konst := func(w int) uint64 {
			switch rng.Intn(5) {
			case 0:
				return 0
			case 1:
				return mask(w)
			case 2:
				return 1
			case 3:
				return uint64(1) << uint(rng.Intn(w))
			}
			return rng.Uint64() & mask(w)
		}
		genBV = func(d, w int) (*Term, *Term) {
			if d == 0 || rng.Intn(4) == 0 {
				if rng.Intn(3) == 0 {
					k := c.BV(konst(w), w)
					return k, k
				}
				// variable of width w, or resized
				v := vars[rng.Intn(len(vars))]
				if v.W == w {
					return v, v
				}
				if v.W > w {
					lo := rng.Intn(v.W - w + 1)
					return c.Extract(v, lo+w-1, lo), c.mk(&Term{Op: OpExtract, W: w, Args: []*Term{v}, P0: lo + w - 1, P1: lo})
				}
				if rng.Intn(2) == 0 {
					return c.ZExt(v, w), raw(OpZExt, w, v)
				}
				return c.SExt(v, w), raw(OpSExt, w, v)
			}
			switch rng.Intn(12) {
			case 0, 1, 2, 3, 4, 5, 6:
				ops := []Op{OpBVAdd, OpBVSub, OpBVMul, OpBVAnd, OpBVOr, OpBVXor, OpBVShl, OpBVLShr, OpBVAShr, OpBVUDiv, OpBVURem, OpBVSDiv, OpBVSRem}
				op := ops[rng.Intn(len(ops))]
				a, ra := genBV(d-1, w)
				b, rb := genBV(d-1, w)
				if (op == OpBVShl || op == OpBVLShr) && rng.Intn(2) == 0 {
					k := c.BV(uint64(rng.Intn(w+2)), w)
					b, rb = k, k
				}
				return c.binBV(op, a, b), raw(op, w, ra, rb)
			case 7:
				a, ra := genBV(d-1, w)
				return c.BNot(a), raw(OpBVNot, w, ra)
			case 8:
				a, ra := genBV(d-1, w)
				return c.Neg(a), raw(OpBVNeg, w, ra)
			case 9:
				p, rp := genBool(d - 1)
				a, ra := genBV(d-1, w)
				b, rb := genBV(d-1, w)
				return c.Ite(p, a, b), raw(OpIte, w, rp, ra, rb)
			case 10:
				if w >= 2 {
					hw := 1 + rng.Intn(w-1)
					h, rh := genBV(d-1, hw)
					l, rl := genBV(d-1, w-hw)
					return c.Concat(h, l), raw(OpConcat, w, rh, rl)
				}
			case 11:
				if w < 64 {
					big := w + 1 + rng.Intn(64-w)
					a, ra := genBV(d-1, big)
					lo := rng.Intn(big - w + 1)
					return c.Extract(a, lo+w-1, lo), c.mk(&Term{Op: OpExtract, W: w, Args: []*Term{ra}, P0: lo + w - 1, P1: lo})
				}
			}
			v := c.BV(konst(w), w)
			return v, v
		}
		genBool = func(d int) (*Term, *Term) {
			if d == 0 {
				v := bvars[rng.Intn(2)]
				return v, v
			}
			switch rng.Intn(8) {
			case 0:
				a, ra := genBool(d - 1)
				return c.Not(a), raw(OpNot, 0, ra)
			case 1:
				a, ra := genBool(d - 1)
				b, rb := genBool(d - 1)
				return c.And(a, b), raw(OpAnd, 0, ra, rb)
			case 2:
				a, ra := genBool(d - 1)
				b, rb := genBool(d - 1)
				return c.Or(a, b), raw(OpOr, 0, ra, rb)
			case 3:
				p, rp := genBool(d - 1)
				a, ra := genBool(d - 1)
				b, rb := genBool(d - 1)
				return c.Ite(p, a, b), raw(OpIte, 0, rp, ra, rb)
			default:
				ws := []int{8, 16, 32, 64, 5}
				w := ws[rng.Intn(len(ws))]
				a, ra := genBV(d-1, w)
				b, rb := genBV(d-1, w)
				ops := []Op{OpEq, OpULt, OpULe, OpSLt, OpSLe}
				op := ops[rng.Intn(len(ops))]
				var s *Term
				switch op {
				case OpEq:
					s = c.Eq(a, b)
				default:
					s = c.cmp(op, a, b)
				}
				return s, raw(op, 0, ra, rb)
			}
		}
		var s, r *Term
		if rng.Intn(2) == 0 {
			s, r = genBool(4)
		} else {
			ws := []int{8, 16, 32, 64, 13}
			s, r = genBV(4, ws[rng.Intn(len(ws))])
		}
		for k := 0; k < 8; k++ {
			env := map[string]uint64{"a": rng.Uint64(), "b": rng.Uint64(), "x": uint64(rng.Intn(256)), "y": uint64(rng.Intn(256)), "w": uint64(rng.Uint32()), "p": uint64(rng.Intn(2)), "q": uint64(rng.Intn(2))}
			if k < 3 {
				env["a"], env["x"] = konst(64), konst(8)
			}
			if k == 1 {
				env["b"] = env["a"]
				env["y"] = env["x"]
			}
			vs, vr := Eval(s, env, map[*Term]uint64{}), Eval(r, env, map[*Term]uint64{})
			if vs != vr {
				t.Fatalf("iter %d: simplified %s = %d, raw %s = %d under %v", iter, s.str(12), vs, r.str(12), vr, env)
			}
		}
	}
}
