package smt

import (
	"bufio"
	"fmt"
	"io"
	"os/exec"
	"strconv"
	"strings"
	"time"
)

type Result int

const (
	Unsat Result = iota
	Sat
	Unknown
)

func (r Result) String() string { return [...]string{"unsat", "sat", "unknown"}[r] }

// Solver drives one long-lived SMT solver process over SMT-LIB2 text. The caller hands it the
// full list of path-condition conjuncts for every query; the solver keeps a stack of push levels
// mirroring the longest common prefix with the previous query, so DFS-ordered paths are incremental.
type Solver struct {
	Name    string
	cmd     *exec.Cmd
	in      io.WriteCloser
	w       *bufio.Writer
	out     *bufio.Reader
	defined map[int]bool // term IDs with a global define-fun / declare-const
	stack   []*Term      // asserted conjuncts, one push level each
	Timeout time.Duration

	Queries  map[Result]int
	Time     time.Duration
	Errors   int
	LastErr  string
	Log      io.Writer // optional transcript
	argv     []string
	needDecl []*Term
}

// Argv returns the command line for a named back end.
func Argv(name string, timeoutMs int) []string {
	switch name {
	case "z3":
		return []string{"z3", "-in", fmt.Sprintf("-t:%d", timeoutMs)}
	case "z3-new":
		return []string{"z3-new", "-in", fmt.Sprintf("-t:%d", timeoutMs)}
	case "cvc5":
		return []string{"cvc5", "--incremental", "--lang=smt2", fmt.Sprintf("--tlimit-per=%d", timeoutMs), "--produce-models"}
	case "cvc5-int":
		return []string{"cvc5", "--incremental", "--lang=smt2", fmt.Sprintf("--tlimit-per=%d", timeoutMs), "--produce-models", "--solve-bv-as-int=sum"}
	}
	panic("unknown solver " + name)
}

func NewSolver(name string, timeout time.Duration) (*Solver, error) {
	s := &Solver{Name: name, Timeout: timeout, Queries: map[Result]int{}}
	s.argv = Argv(name, int(timeout/time.Millisecond))
	if err := s.start(); err != nil {
		return nil, err
	}
	return s, nil
}

func (s *Solver) start() error {
	s.cmd = exec.Command(s.argv[0], s.argv[1:]...)
	in, err := s.cmd.StdinPipe()
	if err != nil {
		return err
	}
	out, err := s.cmd.StdoutPipe()
	if err != nil {
		return err
	}
	s.cmd.Stderr = nil
	if err := s.cmd.Start(); err != nil {
		return err
	}
	s.in, s.out = in, bufio.NewReaderSize(out, 1<<16)
	s.w = bufio.NewWriterSize(in, 1<<16)
	s.defined = map[int]bool{}
	s.stack = nil
	s.send("(set-option :global-declarations true)")
	s.send("(set-option :produce-models true)")
	if strings.HasPrefix(s.Name, "cvc5") {
		s.send("(set-logic ALL)")
	}
	return nil
}

func (s *Solver) Close() {
	if s.cmd != nil {
		s.in.Close()
		s.cmd.Process.Kill()
		s.cmd.Wait()
		s.cmd = nil
	}
}

func (s *Solver) send(line string) {
	if s.Log != nil {
		fmt.Fprintln(s.Log, line)
	}
	s.w.WriteString(line)
	s.w.WriteByte('\n')
}

// define emits declarations/definitions for t and its sub-DAG (iteratively, children first).
func (s *Solver) define(t *Term) {
	if t.Op == OpConst || s.defined[t.ID] {
		return
	}
	type fr struct {
		t *Term
		i int
	}
	st := []fr{{t, 0}}
	for len(st) > 0 {
		top := &st[len(st)-1]
		if top.t.Op == OpConst || s.defined[top.t.ID] {
			st = st[:len(st)-1]
			continue
		}
		if top.i < len(top.t.Args) {
			a := top.t.Args[top.i]
			top.i++
			if a.Op != OpConst && !s.defined[a.ID] {
				st = append(st, fr{a, 0})
			}
			continue
		}
		x := top.t
		if x.Op == OpVar {
			s.send(fmt.Sprintf("(declare-const %s %s)", Ref(x), sortOf(x)))
		} else {
			s.send(fmt.Sprintf("(define-fun %s () %s %s)", Ref(x), sortOf(x), Body(x)))
		}
		s.defined[x.ID] = true
		st = st[:len(st)-1]
	}
}

func (s *Solver) readLine() (string, error) {
	s.w.Flush()
	for {
		line, err := s.out.ReadString('\n')
		if err != nil {
			return "", err
		}
		line = strings.TrimSpace(line)
		if line == "" {
			continue
		}
		if s.Log != nil {
			fmt.Fprintln(s.Log, "; <- "+line)
		}
		return line, nil
	}
}

// sync asserts pc on the push stack, reusing the common prefix.
func (s *Solver) sync(pc []*Term) {
	k := 0
	for k < len(pc) && k < len(s.stack) && pc[k] == s.stack[k] {
		k++
	}
	if n := len(s.stack) - k; n > 0 {
		s.send(fmt.Sprintf("(pop %d)", n))
		s.stack = s.stack[:k]
	}
	for ; k < len(pc); k++ {
		s.define(pc[k])
		s.send("(push 1)")
		s.send(fmt.Sprintf("(assert %s)", Ref(pc[k])))
		s.stack = append(s.stack, pc[k])
	}
}

// Check decides satisfiability of pc ∧ extra. With wantModel and a Sat answer it returns the values of vars.
func (s *Solver) Check(pc []*Term, extra *Term, vars []*Term, wantModel bool) (Result, map[string]uint64) {
	t0 := time.Now()
	res, model := s.check(pc, extra, vars, wantModel)
	s.Time += time.Since(t0)
	s.Queries[res]++
	return res, model
}

func (s *Solver) restart() {
	s.Close()
	if err := s.start(); err != nil {
		panic(err)
	}
}

func (s *Solver) check(pc []*Term, extra *Term, vars []*Term, wantModel bool) (Result, map[string]uint64) {
	s.sync(pc)
	if wantModel && len(vars) <= 8 {
		// terms to evaluate (concretisation) must exist in the solver before check-sat
		for _, v := range vars {
			s.define(v)
		}
	}
	if extra != nil {
		s.define(extra)
		s.send("(push 1)")
		s.send(fmt.Sprintf("(assert %s)", Ref(extra)))
	}
	s.send("(check-sat)")
	res := Unknown
	line, err := s.readLine()
	if err != nil {
		s.Errors++
		s.LastErr = "solver died: " + err.Error()
		s.restart()
		return Unknown, nil
	}
	switch {
	case line == "sat":
		res = Sat
	case line == "unsat":
		res = Unsat
	case line == "unknown" || line == "timeout":
		res = Unknown
	default:
		// (error ...) or anything unexpected: inconclusive, and resynchronise by restarting.
		s.Errors++
		s.LastErr = line
		s.restart()
		return Unknown, nil
	}
	var model map[string]uint64
	if res == Sat && wantModel {
		model = map[string]uint64{}
		var names []string
		for _, v := range vars {
			if v.Op == OpConst {
				model[constKey(v)] = v.Val
				continue
			}
			if s.defined[v.ID] {
				names = append(names, Ref(v))
			}
		}
		if len(names) > 0 {
			s.send("(get-value (" + strings.Join(names, " ") + "))")
			txt, err := s.readSexp()
			if err != nil {
				s.Errors++
				s.LastErr = "get-value: " + err.Error()
				s.restart()
				return Unknown, nil
			}
			if strings.Contains(txt, "(error") {
				s.Errors++
				s.LastErr = txt
				s.restart()
				return Unknown, nil
			}
			parseModel(txt, model)
		}
	}
	if extra != nil {
		s.send("(pop 1)")
	}
	return res, model
}

func constKey(t *Term) string { return Ref(t) }

// readSexp reads one balanced s-expression (possibly multi-line).
func (s *Solver) readSexp() (string, error) {
	s.w.Flush()
	var sb strings.Builder
	depth, started := 0, false
	inBar := false
	for {
		b, err := s.out.ReadByte()
		if err != nil {
			return sb.String(), err
		}
		sb.WriteByte(b)
		switch {
		case b == '|':
			inBar = !inBar
		case inBar:
		case b == '(':
			depth++
			started = true
		case b == ')':
			depth--
		}
		if started && depth == 0 {
			if s.Log != nil {
				fmt.Fprintln(s.Log, "; <- "+sb.String())
			}
			return sb.String(), nil
		}
	}
}

// parseModel parses "((|a| #x01) (|b| true) ...)".
func parseModel(txt string, m map[string]uint64) {
	i := 0
	n := len(txt)
	for i < n {
		// find "(|name| value)" or "(name value)"
		if txt[i] != '(' {
			i++
			continue
		}
		j := i + 1
		for j < n && (txt[j] == ' ' || txt[j] == '\n') {
			j++
		}
		if j >= n || txt[j] == '(' {
			i++
			continue
		}
		var name string
		if txt[j] == '|' {
			k := strings.IndexByte(txt[j+1:], '|')
			if k < 0 {
				return
			}
			name = txt[j+1 : j+1+k]
			j = j + 1 + k + 1
		} else {
			k := j
			for k < n && txt[k] != ' ' && txt[k] != ')' {
				k++
			}
			name = txt[j:k]
			j = k
		}
		for j < n && (txt[j] == ' ' || txt[j] == '\n') {
			j++
		}
		k := j
		depth := 0
		for k < n {
			if txt[k] == '(' {
				depth++
			} else if txt[k] == ')' {
				if depth == 0 {
					break
				}
				depth--
			}
			k++
		}
		val := strings.TrimSpace(txt[j:k])
		m[name] = parseValue(val)
		i = k + 1
	}
}

func parseValue(v string) uint64 {
	switch {
	case v == "true":
		return 1
	case v == "false":
		return 0
	case strings.HasPrefix(v, "#x"):
		x, _ := strconv.ParseUint(v[2:], 16, 64)
		return x
	case strings.HasPrefix(v, "#b"):
		x, _ := strconv.ParseUint(v[2:], 2, 64)
		return x
	case strings.HasPrefix(v, "(_ bv"):
		f := strings.Fields(v[5:])
		x, _ := strconv.ParseUint(f[0], 10, 64)
		return x
	}
	return 0
}

// Script renders a self-contained SMT-LIB2 script for pc ∧ extra (for cross-solver re-discharge and samples).
func Script(pc []*Term, extra *Term) string {
	var sb strings.Builder
	seen := map[int]bool{}
	var walk func(t *Term)
	walk = func(t *Term) {
		if t.Op == OpConst || seen[t.ID] {
			return
		}
		for _, a := range t.Args {
			walk(a)
		}
		seen[t.ID] = true
		if t.Op == OpVar {
			fmt.Fprintf(&sb, "(declare-const %s %s)\n", Ref(t), sortOf(t))
		} else {
			fmt.Fprintf(&sb, "(define-fun %s () %s %s)\n", Ref(t), sortOf(t), Body(t))
		}
	}
	all := append([]*Term{}, pc...)
	if extra != nil {
		all = append(all, extra)
	}
	for _, t := range all {
		walk(t)
	}
	for _, t := range all {
		fmt.Fprintf(&sb, "(assert %s)\n", Ref(t))
	}
	sb.WriteString("(check-sat)\n")
	return sb.String()
}

// OneShot runs a script on a fresh solver process and returns its verdict.
func OneShot(name string, script string, timeout time.Duration) (Result, time.Duration, string) {
	argv := Argv(name, int(timeout/time.Millisecond))
	t0 := time.Now()
	cmd := exec.Command(argv[0], argv[1:]...)
	pre := ""
	if strings.HasPrefix(name, "cvc5") {
		pre = "(set-logic ALL)\n"
	}
	cmd.Stdin = strings.NewReader(pre + script)
	done := make(chan struct{})
	var out []byte
	go func() {
		out, _ = cmd.CombinedOutput()
		close(done)
	}()
	select {
	case <-done:
	case <-time.After(timeout + 5*time.Second):
		if cmd.Process != nil {
			cmd.Process.Kill()
		}
		<-done
	}
	d := time.Since(t0)
	txt := strings.TrimSpace(string(out))
	if strings.Contains(txt, "(error") {
		return Unknown, d, txt
	}
	switch {
	case strings.HasPrefix(txt, "unsat"):
		return Unsat, d, txt
	case strings.HasPrefix(txt, "sat"):
		return Sat, d, txt
	}
	return Unknown, d, txt
}
