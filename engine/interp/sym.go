package interp

// Symbolic extension of the interpreter: sym values, path exploration, solver queries.

import (
	"fmt"
	"go/token"
	"go/types"
	"os"
	"sort"
	"strings"
	"time"

	"golang.org/x/tools/go/ssa"
	"verif/engine/smt"
)

// sym is a symbolic bool or integer of Go basic kind k.
type sym struct {
	t *smt.Term
	k types.BasicKind
}

// symstr is a string at least one of whose bytes is symbolic. Elements are uint8 or sym(Uint8).
type symstr []value

func kindWidth(k types.BasicKind) int {
	switch k {
	case types.Bool:
		return 0
	case types.Int8, types.Uint8:
		return 8
	case types.Int16, types.Uint16:
		return 16
	case types.Int32, types.Uint32:
		return 32
	}
	return 64
}

func kindSigned(k types.BasicKind) bool {
	switch k {
	case types.Int, types.Int8, types.Int16, types.Int32, types.Int64:
		return true
	}
	return false
}

func basicKind(t types.Type) types.BasicKind {
	b, ok := t.Underlying().(*types.Basic)
	if !ok {
		panic(fmt.Sprintf("basicKind: not basic: %s", t))
	}
	k := b.Kind()
	switch k {
	case types.UntypedBool:
		return types.Bool
	case types.UntypedInt:
		return types.Int
	case types.UntypedRune:
		return types.Int32
	}
	return k
}

func valueKind(x value) (types.BasicKind, bool) {
	switch x := x.(type) {
	case sym:
		return x.k, true
	case bool:
		return types.Bool, true
	case int:
		return types.Int, true
	case int8:
		return types.Int8, true
	case int16:
		return types.Int16, true
	case int32:
		return types.Int32, true
	case int64:
		return types.Int64, true
	case uint:
		return types.Uint, true
	case uint8:
		return types.Uint8, true
	case uint16:
		return types.Uint16, true
	case uint32:
		return types.Uint32, true
	case uint64:
		return types.Uint64, true
	case uintptr:
		return types.Uintptr, true
	}
	return 0, false
}

func isSym(x value) bool { _, ok := x.(sym); return ok }

// termOf converts a concrete or symbolic scalar to a term in ctx c.
func termOf(c *smt.Ctx, x value) *smt.Term {
	switch x := x.(type) {
	case sym:
		return x.t
	case bool:
		return c.Bool(x)
	}
	k, ok := valueKind(x)
	if !ok {
		panic(fmt.Sprintf("termOf: unsupported %T", x))
	}
	if kindSigned(k) {
		return c.BV(uint64(asInt64(x)), kindWidth(k))
	}
	return c.BV(uint64(asInt64(x)), kindWidth(k))
}

// mkVal wraps a term as a value of kind k, collapsing constants to native values.
func mkVal(t *smt.Term, k types.BasicKind) value {
	if t.IsConst() {
		return concreteOf(t.Val, k)
	}
	return sym{t, k}
}

func concreteOf(v uint64, k types.BasicKind) value {
	switch k {
	case types.Bool:
		return v != 0
	case types.Int:
		return int(v)
	case types.Int8:
		return int8(v)
	case types.Int16:
		return int16(v)
	case types.Int32:
		return int32(v)
	case types.Int64:
		return int64(v)
	case types.Uint:
		return uint(v)
	case types.Uint8:
		return uint8(v)
	case types.Uint16:
		return uint16(v)
	case types.Uint32:
		return uint32(v)
	case types.Uint64:
		return v
	case types.Uintptr:
		return uintptr(v)
	}
	panic(fmt.Sprintf("concreteOf: kind %v", k))
}

func ctxOf(xs ...value) *smt.Ctx {
	for _, x := range xs {
		if s, ok := x.(sym); ok {
			return s.t.C
		}
	}
	panic("ctxOf: no symbolic operand")
}

// symBinop implements binop when an operand is symbolic.
func symBinop(op token.Token, x, y value) value {
	c := ctxOf(x, y)
	kx, _ := valueKind(x)
	a := termOf(c, x)
	if op == token.SHL || op == token.SHR {
		// shift count may have a different type; Go semantics: count >= width gives 0 (or sign fill).
		ky, ok := valueKind(y)
		if !ok {
			panic(fmt.Sprintf("symBinop: shift count %T", y))
		}
		w := kindWidth(kx)
		b := termOf(c, y)
		// bring count to width w (saturating)
		var cnt *smt.Term
		if b.W == w {
			cnt = b
		} else if b.W < w {
			cnt = c.ZExt(b, w)
		} else {
			// b wider: if b >= w then saturate to w
			big := c.ULe(c.BV(uint64(w), b.W), b)
			cnt = c.Ite(big, c.BV(uint64(w), w), c.Extract(b, w-1, 0))
		}
		_ = ky
		if op == token.SHL {
			return mkVal(c.Shl(a, cnt), kx)
		}
		if kindSigned(kx) {
			return mkVal(c.AShr(a, cnt), kx)
		}
		return mkVal(c.LShr(a, cnt), kx)
	}
	b := termOf(c, y)
	if a.W != b.W {
		panic(fmt.Sprintf("symBinop %s: width mismatch %T(%d) %T(%d)", op, x, a.W, y, b.W))
	}
	signed := kindSigned(kx)
	if kx == types.Bool {
		switch op {
		case token.EQL:
			return mkVal(c.Eq(a, b), types.Bool)
		case token.NEQ:
			return mkVal(c.Not(c.Eq(a, b)), types.Bool)
		case token.LAND, token.AND:
			return mkVal(c.And(a, b), types.Bool)
		case token.LOR, token.OR:
			return mkVal(c.Or(a, b), types.Bool)
		}
		panic(fmt.Sprintf("symBinop: bool op %s", op))
	}
	switch op {
	case token.ADD:
		return mkVal(c.Add(a, b), kx)
	case token.SUB:
		return mkVal(c.Sub(a, b), kx)
	case token.MUL:
		return mkVal(c.Mul(a, b), kx)
	case token.QUO:
		if signed {
			return mkVal(c.SDiv(a, b), kx)
		}
		return mkVal(c.UDiv(a, b), kx)
	case token.REM:
		if signed {
			return mkVal(c.SRem(a, b), kx)
		}
		return mkVal(c.URem(a, b), kx)
	case token.AND:
		return mkVal(c.BAnd(a, b), kx)
	case token.OR:
		return mkVal(c.BOr(a, b), kx)
	case token.XOR:
		return mkVal(c.BXor(a, b), kx)
	case token.AND_NOT:
		return mkVal(c.BAnd(a, c.BNot(b)), kx)
	case token.EQL:
		return mkVal(c.Eq(a, b), types.Bool)
	case token.NEQ:
		return mkVal(c.Not(c.Eq(a, b)), types.Bool)
	case token.LSS:
		if signed {
			return mkVal(c.SLt(a, b), types.Bool)
		}
		return mkVal(c.ULt(a, b), types.Bool)
	case token.LEQ:
		if signed {
			return mkVal(c.SLe(a, b), types.Bool)
		}
		return mkVal(c.ULe(a, b), types.Bool)
	case token.GTR:
		if signed {
			return mkVal(c.SLt(b, a), types.Bool)
		}
		return mkVal(c.ULt(b, a), types.Bool)
	case token.GEQ:
		if signed {
			return mkVal(c.SLe(b, a), types.Bool)
		}
		return mkVal(c.ULe(b, a), types.Bool)
	}
	panic(fmt.Sprintf("symBinop: unsupported op %s", op))
}

func symUnop(op token.Token, x sym) value {
	c := x.t.C
	switch op {
	case token.NOT:
		return mkVal(c.Not(x.t), types.Bool)
	case token.SUB:
		return mkVal(c.Neg(x.t), x.k)
	case token.XOR:
		return mkVal(c.BNot(x.t), x.k)
	}
	panic(fmt.Sprintf("symUnop: unsupported op %s", op))
}

// symConv converts symbolic integer x to basic kind dst.
func symConv(dst types.BasicKind, x sym) value {
	c := x.t.C
	if dst == types.Bool || x.k == types.Bool {
		if dst == x.k {
			return x
		}
		panic("symConv: bool <-> int")
	}
	switch dst {
	case types.Float32, types.Float64, types.String, types.UnsafePointer:
		// an engine limit, not a panic of the code under analysis
		panic(abortPath{AbortUnmodelled, fmt.Sprintf("conversion of a symbolic integer to basic kind %v", dst)})
	}
	return mkVal(c.Resize(x.t, kindWidth(dst), kindSigned(x.k)), dst)
}

// ---------------------------------------------------------------------------------------------
// Path exploration

type Decision struct {
	Val  uint64
	Kind uint8 // 0 symbolic branch, 1 concretised value, 2 free choice (the only kind that exists in concrete mode)
}

const (
	DBranch uint8 = iota
	DValue
	DChoice
)

type AbortKind int

const (
	AbortInfeasible AbortKind = iota // assumption failed: path is not a real path
	AbortBlocked                     // blocked forever on a channel operation
	AbortUnwind                      // step/decision/concretisation bound exceeded
	AbortUnmodelled                  // reached code the engine cannot execute
	AbortUnknown                     // solver could not decide something we must know
	AbortStop                        // harness asked to end the path (vStop)
	AbortEngine                      // internal inconsistency
)

func (k AbortKind) String() string {
	return [...]string{"INFEASIBLE", "BLOCKED", "UNWIND", "UNMODELLED", "UNKNOWN", "STOP", "ENGINE-BUG"}[k]
}

type abortPath struct {
	kind AbortKind
	msg  string
}

// Violation is a failed assertion with a satisfying model.
type Violation struct {
	ID       string
	Harness  string
	Model    map[string]uint64
	Trail    []Decision
	Detail   string
	PathCond []string
	Pos      string
}

// PathResult is what one path run produced.
type PathResult struct {
	Trail      []Decision
	Pending    [][]Decision
	Abort      *abortPath
	Reached    map[string]int
	Asserts    map[string]int // assertion id -> instances discharged by a solver query (unsat)
	Folded     map[string]int // assertion id -> instances that the term rewriter reduced to true (no query needed)
	Violations []Violation
	Steps      int
	Funcs      map[*ssa.Function]bool
	Stubs      map[string]bool
	SamplePC   []string
	Sample     string
	Panic      string // uncaught target panic at top level
	Return     string // the harness function's result, if it returns a concrete string (translator validation)
}

func (a *abortPath) String() string { return a.kind.String() + ": " + a.msg }
func (r *PathResult) AbortKindMsg() (AbortKind, string, bool) {
	if r.Abort == nil {
		return 0, "", false
	}
	return r.Abort.kind, r.Abort.msg, true
}

// Exec is the per-path execution context.
type Exec struct {
	C       *smt.Ctx
	S       *smt.Solver
	pc      []*smt.Term
	prefix  []Decision
	trail   []Decision
	pending [][]Decision
	steps   int

	MaxSteps      int
	MaxDecisions  int
	MaxConcretize int
	NoMerge       bool
	NoModelCache  bool

	concrete map[string]uint64 // concrete-mode bindings for intrinsics (replay); nil in symbolic mode
	spawned  []spawn
	onceDone map[*value]bool
	fresh    int
	names    map[string]int

	res        *PathResult
	harness    string
	ghostT     int64
	lastNow    *smt.Term
	idleHook   value
	inHook     bool
	co         *coopState
	panicStack string
	interp     *interpreter
	model      map[string]uint64 // an assignment known to satisfy pc (nil if none is known)
	redir      map[string]*ssa.Function
}

type spawn struct {
	fn   value
	args []value
	pos  token.Pos
	ran  bool
}

func (x *Exec) abort(k AbortKind, format string, args ...interface{}) {
	panic(abortPath{k, fmt.Sprintf(format, args...)})
}

func (x *Exec) assume(t *smt.Term) {
	if t.IsConst() {
		if t.Val == 0 {
			x.abort(AbortInfeasible, "assume(false)")
		}
		return
	}
	x.addPC(t)
}

func (x *Exec) check(extra *smt.Term, evals []*smt.Term) (smt.Result, map[string]uint64) {
	return x.S.Check(x.pc, extra, evals, evals != nil)
}

// evalModel evaluates t under the cached model; ok=false if there is no valid model.
func (x *Exec) evalModel(t *smt.Term) (uint64, bool) {
	if x.model == nil {
		return 0, false
	}
	return smt.Eval(t, x.model, map[*smt.Term]uint64{}), true
}

// addPC appends a conjunct to the path condition, keeping the cached model only if it still satisfies it.
func (x *Exec) addPC(t *smt.Term) {
	x.pc = append(x.pc, t)
	if x.model != nil {
		if v, _ := x.evalModel(t); v != 1 {
			x.model = nil
		}
	}
}

// checkM is check with model capture: a Sat answer refreshes the cached model when the query had no extra conjunct
// or records the model of pc∧extra for the caller to adopt.
func (x *Exec) checkM(extra *smt.Term) (smt.Result, map[string]uint64) {
	if x.NoModelCache {
		r, _ := x.S.Check(x.pc, extra, nil, false)
		return r, nil
	}
	return x.S.Check(x.pc, extra, x.C.Vars, true)
}

// decide resolves a symbolic branch condition, forking if both sides are feasible.
func (x *Exec) decide(cond *smt.Term) bool {
	if cond.IsConst() {
		return cond.Val == 1
	}
	c := x.C
	idx := len(x.trail)
	if idx >= x.MaxDecisions {
		x.abort(AbortUnwind, "more than %d symbolic decisions on one path", x.MaxDecisions)
	}
	if idx < len(x.prefix) {
		d := x.prefix[idx]
		x.trail = append(x.trail, d)
		if d.Val == 1 {
			x.addPC(cond)
			return true
		}
		x.addPC(c.Not(cond))
		return false
	}
	if x.concrete != nil {
		x.abort(AbortEngine, "symbolic branch in concrete mode: %s", cond)
	}
	x.debugCheckPC("decide-entry " + cond.String())
	notc := c.Not(cond)
	feasT, feasF := false, false
	var mT, mF map[string]uint64
	if v, ok := x.evalModel(cond); ok {
		if v == 1 {
			feasT, mT = true, x.model
		} else {
			feasF, mF = true, x.model
		}
	}
	if !feasT {
		r, m := x.checkM(cond)
		feasT, mT = r != smt.Unsat, m
	}
	if !feasT {
		x.trail = append(x.trail, Decision{0, DBranch})
		x.pc = append(x.pc, notc)
		if mF == nil {
			x.model = nil // the cached model (if any) satisfied neither side's bookkeeping; drop it
		}
		return false
	}
	if !feasF {
		r, m := x.checkM(notc)
		feasF, mF = r != smt.Unsat, m
	}
	if !feasF {
		x.trail = append(x.trail, Decision{1, DBranch})
		x.pc = append(x.pc, cond)
		x.model = mT
		return true
	}
	// both feasible (or unknown: keep both, sound for "holds")
	alt := append(append([]Decision{}, x.trail...), Decision{0, DBranch})
	x.pending = append(x.pending, alt)
	x.trail = append(x.trail, Decision{1, DBranch})
	x.pc = append(x.pc, cond)
	x.model = mT
	return true
}

// truth turns a bool value into a Go bool, forking if symbolic.
func (x *Exec) truth(v value) bool {
	switch v := v.(type) {
	case bool:
		return v
	case sym:
		return x.decide(v.t)
	}
	panic(fmt.Sprintf("truth: %T", v))
}

// concretize returns a concrete value for integer v, forking over all feasible values.
func (x *Exec) concretize(v value) int64 {
	s, ok := v.(sym)
	if !ok {
		return asInt64(v)
	}
	u := x.concretizeTerm(s.t)
	if kindSigned(s.k) {
		w := kindWidth(s.k)
		sh := uint(64 - w)
		return int64(u<<sh) >> sh
	}
	return int64(u)
}

func (x *Exec) debugCheckPC(where string) {
	if !DebugPC || x.S == nil {
		return
	}
	if r, _ := x.S.Check(x.pc, nil, nil, false); r == smt.Unsat {
		os.WriteFile("/tmp/verif_unsat_pc.smt2", []byte("(set-option :produce-unsat-cores true)\n"+smt.Script(x.pc, nil)), 0o644)
		msg := where + ": pc unsat; last conjuncts:"
		for i := len(x.pc) - 1; i >= 0 && i >= len(x.pc)-4; i-- {
			msg += "\n   " + x.pc[i].String()
		}
		x.abort(AbortEngine, "%s", msg)
	}
}

var DebugPC = false

// NoMergeGlobal / NoModelCacheGlobal switch off if-conversion and the model cache (self-checks of the engine:
// verdicts must not depend on either).
var NoMergeGlobal, NoModelCacheGlobal bool

func (x *Exec) concretizeTerm(t *smt.Term) uint64 {
	c := x.C
	x.debugCheckPC("concretize-entry")
	if t.IsConst() {
		return t.Val
	}
	idx := len(x.trail)
	if idx >= x.MaxDecisions {
		x.abort(AbortUnwind, "more than %d symbolic decisions on one path", x.MaxDecisions)
	}
	if idx < len(x.prefix) {
		d := x.prefix[idx]
		x.trail = append(x.trail, d)
		x.addPC(c.Eq(t, c.BV(d.Val, t.W)))
		return d.Val
	}
	if x.concrete != nil {
		x.abort(AbortEngine, "symbolic value needs concretising in concrete mode: %s", t)
	}
	var vals []uint64
	excl := c.True
	for {
		r, m := x.check(excl, []*smt.Term{t})
		if r == smt.Unsat {
			break
		}
		if r == smt.Unknown {
			x.abort(AbortUnknown, "solver unknown while enumerating values of %s", t)
		}
		v, have := m[modelKey(t)]
		if !have {
			x.abort(AbortEngine, "solver model lacks a value for %s", t)
		}
		vals = append(vals, v)
		if len(vals) > x.MaxConcretize {
			x.abort(AbortUnwind, "more than %d feasible values for %s", x.MaxConcretize, t)
		}
		excl = c.And(excl, c.Not(c.Eq(t, c.BV(v, t.W))))
	}
	if len(vals) == 0 {
		x.abort(AbortEngine, "path condition became unsatisfiable while concretising")
	}
	sort.Slice(vals, func(i, j int) bool { return vals[i] < vals[j] })
	for _, v := range vals[1:] {
		alt := append(append([]Decision{}, x.trail...), Decision{v, DValue})
		x.pending = append(x.pending, alt)
	}
	x.trail = append(x.trail, Decision{vals[0], DValue})
	x.addPC(c.Eq(t, c.BV(vals[0], t.W)))
	return vals[0]
}

func modelKey(t *smt.Term) string {
	if t.Op == smt.OpVar {
		return t.Name
	}
	return fmt.Sprintf("t%d", t.ID)
}

// choice is a free n-way nondeterministic choice (no solver involved).
func (x *Exec) choice(n int) int {
	if n <= 0 {
		x.abort(AbortInfeasible, "vChoice(%d)", n)
	}
	if n == 1 {
		return 0
	}
	idx := len(x.trail)
	if idx >= x.MaxDecisions {
		x.abort(AbortUnwind, "more than %d decisions on one path", x.MaxDecisions)
	}
	if idx < len(x.prefix) {
		d := x.prefix[idx]
		x.trail = append(x.trail, d)
		return int(d.Val)
	}
	for v := 1; v < n; v++ {
		alt := append(append([]Decision{}, x.trail...), Decision{uint64(v), DChoice})
		x.pending = append(x.pending, alt)
	}
	x.trail = append(x.trail, Decision{0, DChoice})
	return 0
}

func (x *Exec) freshName(base string) string {
	if x.names == nil {
		x.names = map[string]int{}
	}
	n := x.names[base]
	x.names[base] = n + 1
	if n == 0 {
		return base
	}
	return fmt.Sprintf("%s#%d", base, n)
}

func (x *Exec) newSym(name string, k types.BasicKind) value {
	name = x.freshName(name)
	if x.concrete != nil {
		return concreteOf(x.concrete[name], k)
	}
	w := kindWidth(k)
	if w == 0 {
		return sym{x.C.BoolVar(name), k}
	}
	return sym{x.C.Var(name, w), k}
}

// assertion: returns true if it held (or was made to hold by assumption afterwards).
func (x *Exec) assert(v value, id string, pos string) {
	r := x.res
	var t *smt.Term
	switch v := v.(type) {
	case bool:
		t = x.C.Bool(v)
	case sym:
		t = v.t
	default:
		panic(fmt.Sprintf("vAssert: %T", v))
	}
	if t.IsConst() && t.Val == 1 {
		r.Folded[id]++
		return
	}
	if x.concrete != nil {
		// concrete replay: a false assertion is the reproduced violation
		r.Violations = append(r.Violations, Violation{ID: id, Harness: x.harness, Trail: append([]Decision{}, x.trail...), Pos: pos, Detail: "reproduced in concrete mode"})
		x.abort(AbortStop, "assertion %s failed (concrete)", id)
	}
	neg := x.C.Not(t)
	res, model := x.check(neg, x.C.Vars)
	switch res {
	case smt.Unsat:
		r.Asserts[id]++
		if r.Sample == "" {
			r.Sample = fmt.Sprintf("%s: pc(%d conjuncts) ∧ ¬(%s) is unsat", id, len(x.pc), t)
			for _, p := range x.pc {
				r.SamplePC = append(r.SamplePC, p.String())
			}
		}
		x.addPC(t)
	case smt.Sat:
		v := Violation{ID: id, Harness: x.harness, Model: model, Trail: append([]Decision{}, x.trail...), Pos: pos}
		for _, p := range x.pc {
			v.PathCond = append(v.PathCond, p.String())
		}
		v.Detail = "¬(" + t.String() + ")"
		r.Violations = append(r.Violations, v)
		// continue on the side where it holds, if any
		if t.IsConst() {
			x.abort(AbortStop, "assertion %s is false on this path", id)
		}
		r2, _ := x.check(t, nil)
		if r2 == smt.Unsat {
			x.abort(AbortStop, "assertion %s is false on this path", id)
		}
		x.addPC(t)
	default:
		x.abort(AbortUnknown, "solver %s on assertion %s (%s)", res, id, x.S.LastErr)
	}
}

// ---------------------------------------------------------------------------------------------
// Running harnesses

// Program is a loaded and built SSA program plus configuration shared by all paths.
type Program struct {
	Prog      *ssa.Program
	InitPkgs  map[string]bool // packages whose init is executed
	HarnessPk []*ssa.Package
	Sizes     types.Sizes
}

func (p *Program) isHarnessPkg(pk *ssa.Package) bool {
	for _, h := range p.HarnessPk {
		if h == pk {
			return true
		}
	}
	return false
}

type RunOpts struct {
	MaxSteps          int
	MaxDecisions      int
	MaxConcretize     int
	Concrete          map[string]uint64        // non-nil => concrete mode
	Redirect          map[string]*ssa.Function // callee full name -> harness model (go-model stubs)
	BlockIsViolation  bool                     // a goroutine blocked forever is reported as violation "no-deadlock" instead of inconclusive
	Coop              bool                     // cooperative goroutines (sched.go)
	Deviate           int                      // schedule exploration: hand-overs that may deviate from round robin
	UnwindIsViolation bool                     // exceeding the instruction budget is reported as violation "no-livelock"
}

// RunPath executes harness fn along the path given by prefix.
func (p *Program) RunPath(fn *ssa.Function, prefix []Decision, c *smt.Ctx, s *smt.Solver, o RunOpts) (res *PathResult) {
	x := &Exec{C: c, S: s, prefix: prefix, MaxSteps: o.MaxSteps, MaxDecisions: o.MaxDecisions, MaxConcretize: o.MaxConcretize,
		concrete: o.Concrete, redir: o.Redirect, onceDone: map[*value]bool{}, harness: fn.Name()}
	if o.Concrete != nil {
		var only []Decision
		for _, d := range prefix {
			if d.Kind == DChoice {
				only = append(only, d)
			}
		}
		x.prefix = only
	}
	x.NoMerge = NoMergeGlobal
	x.NoModelCache = NoModelCacheGlobal
	if x.MaxSteps == 0 {
		x.MaxSteps = 2_000_000
	}
	if x.MaxDecisions == 0 {
		x.MaxDecisions = 400
	}
	if x.MaxConcretize == 0 {
		x.MaxConcretize = 24
	}
	res = &PathResult{Reached: map[string]int{}, Asserts: map[string]int{}, Folded: map[string]int{}, Funcs: map[*ssa.Function]bool{}, Stubs: map[string]bool{}}
	x.res = res
	i := &interpreter{
		prog:    p.Prog,
		globals: make(map[*ssa.Global]*value),
		sizes:   p.Sizes,
		x:       x,
		p:       p,
	}
	x.interp = i
	runtimePkg := i.prog.ImportedPackage("runtime")
	if runtimePkg == nil {
		panic("ssa.Program doesn't include runtime package")
	}
	i.runtimeErrorString = runtimePkg.Type("errorString").Object().Type()
	if ep := i.prog.ImportedPackage("errors"); ep != nil {
		i.errorsErrorString = ep.Type("errorString").Object().Type()
	}

	if o.Coop {
		x.enableCoop(o.Deviate)
	}
	defer func() {
		x.endCoop()
		res.Trail = x.trail
		res.Pending = x.pending
		res.Steps = x.steps
		if r := recover(); r != nil {
			switch r := r.(type) {
			case abortPath:
				res.Abort = &r
				if r.kind == AbortBlocked && o.BlockIsViolation {
					res.Panic = "blocked forever: " + r.msg
					res.Abort = nil
					x.topViolation(res, "no-deadlock")
				}
				if r.kind == AbortUnwind && o.UnwindIsViolation && strings.Contains(r.msg, "instructions") {
					res.Panic = "no quiescence: " + r.msg
					res.Abort = nil
					x.topViolation(res, "no-livelock")
				}
			case targetPanic:
				res.Panic = describePanic(r.v)
				x.topPanic(res)
			case error: // runtime.Error raised by the interpreter on behalf of the target
				res.Panic = "runtime error: " + r.Error()
				x.topPanic(res)
			case string:
				res.Panic = "runtime error: " + r
				x.topPanic(res)
			default:
				panic(r)
			}
		}
	}()

	// package initialisation (selective)
	for _, pk := range p.HarnessPk {
		call(i, nil, token.NoPos, pk.Func("init"), nil)
	}
	if rv, ok := call(i, nil, token.NoPos, fn, nil).(string); ok {
		res.Return = rv
	}
	return res
}

// topPanic: an un-recovered target panic reaching the harness top level is a violation of the implicit
// "no self-inflicted failure" obligation of every harness.
func (x *Exec) topPanic(res *PathResult) { x.topViolation(res, "no-panic") }

func (x *Exec) topViolation(res *PathResult, id string) {
	defer func() {
		if r := recover(); r != nil {
			if a, ok := r.(abortPath); ok {
				res.Abort = &a
				return
			}
			panic(r)
		}
	}()
	if x.concrete != nil {
		res.Violations = append(res.Violations, Violation{ID: id, Harness: x.harness, Trail: append([]Decision{}, x.trail...), Detail: res.Panic})
		return
	}
	r, model := x.check(nil, x.C.Vars)
	switch r {
	case smt.Sat:
		v := Violation{ID: id, Harness: x.harness, Model: model, Trail: append([]Decision{}, x.trail...), Detail: res.Panic}
		for _, p := range x.pc {
			v.PathCond = append(v.PathCond, p.String())
		}
		res.Violations = append(res.Violations, v)
	case smt.Unsat:
		res.Abort = &abortPath{AbortInfeasible, "panic on infeasible path"}
	default:
		res.Abort = &abortPath{AbortUnknown, "solver unknown at top-level panic: " + res.Panic}
	}
}

func describePanic(v value) string {
	if it, ok := v.(iface); ok {
		if it.t == nil {
			return "panic(nil)"
		}
		s := it.t.String()
		switch pv := it.v.(type) {
		case string:
			return fmt.Sprintf("panic(%s %q)", s, pv)
		case *value:
			if pv != nil {
				if st, ok := (*pv).(structure); ok && len(st) > 0 {
					if msg, ok := st[0].(string); ok {
						return fmt.Sprintf("panic(%s %q)", s, msg)
					}
				}
			}
		case structure:
			var parts []string
			for _, f := range pv {
				switch f := f.(type) {
				case string:
					parts = append(parts, fmt.Sprintf("%q", f))
				case iface:
					parts = append(parts, describePanic(f))
				}
			}
			return fmt.Sprintf("panic(%s{%s})", s, strings.Join(parts, ","))
		}
		return fmt.Sprintf("panic(%s)", s)
	}
	return fmt.Sprintf("panic(%T)", v)
}

var _ = time.Now
