package interp

// Cooperative goroutines (opt-in per harness: `sched=coop`).
//
// By default a `go` statement only records the call (the harness decides if and when to run it, to completion).
// In cooperative mode every target goroutine is a real interpreter activation on its own host goroutine, but exactly
// one of them runs at any time: a goroutine runs until it cannot proceed at a channel operation, a WaitGroup.Wait or
// a Mutex.Lock, then hands the baton to the next live goroutine (round robin by spawn order). When a full round makes
// no progress the harness's idle hook (the environment) is run on the main goroutine; if that changes nothing the
// path is blocked forever. The schedule is a function of the decision vector, so paths stay reproducible.
//
// Unbuffered channels are rendezvous against a parked receiver: a send completes only against a goroutine parked
// receiving (or selecting a receive) on that channel, and commits that receiver to the value (model.go waiter).
// A sender parked first is not visible to a non-blocking select's receive case (it takes default).

import (
	"go/token"
)

type gor struct {
	id   int
	wake chan struct{}
	done bool
	what string
	idle bool // yielded since the last completed operation of any goroutine
}

type coopState struct {
	on      bool
	gs      []*gor
	cur     *gor
	stall   int         // consecutive yields without a completed operation
	ops     int         // completed channel/sync operations and goroutine exits
	fwd     interface{} // panic value raised on another goroutine, to be re-raised on main
	dead    bool        // the path is over: parked goroutines unwind
	wg      map[*value]int
	mu      map[*value]int // -1 write-locked, n>0 readers
	deviate int            // remaining deviations from round robin (schedule exploration)
}

func (ex *Exec) enableCoop(deviate int) {
	main := &gor{id: 0, wake: make(chan struct{})}
	ex.co = &coopState{on: true, gs: []*gor{main}, cur: main, wg: map[*value]int{}, mu: map[*value]int{}, deviate: deviate}
}

func (ex *Exec) coop() bool { return ex.co != nil && ex.co.on }

func (ex *Exec) progress() {
	ex.co.ops++
	ex.co.stall = 0
	for _, g := range ex.co.gs {
		g.idle = false
	}
}

// allIdle: every live goroutine has tried and failed to proceed since the last completed operation.
func (co *coopState) allIdle() bool {
	for _, g := range co.gs {
		if !g.done && !g.idle {
			return false
		}
	}
	return true
}

func (co *coopState) live() int {
	n := 0
	for _, g := range co.gs {
		if !g.done {
			n++
		}
	}
	return n
}

func (co *coopState) next(after *gor) *gor {
	n := len(co.gs)
	for k := 1; k <= n; k++ {
		g := co.gs[(after.id+k)%n]
		if !g.done {
			return g
		}
	}
	return co.gs[0]
}

// nextExplore: as next, but while the deviation budget lasts the successor is a free choice among the live
// goroutines (choice 0 = the round-robin successor, which costs nothing). Every schedule that differs from round
// robin in at most `deviate` hand-overs is explored.
func (ex *Exec) nextExplore(after *gor) *gor {
	co := ex.co
	rr := co.next(after)
	if co.deviate <= 0 || ex.inHook {
		return rr
	}
	cands := []*gor{rr}
	for _, g := range co.gs {
		if !g.done && g != rr && g != after {
			cands = append(cands, g)
		}
	}
	if len(cands) == 1 {
		return rr
	}
	k := ex.choice(len(cands))
	if k != 0 {
		co.deviate--
	}
	return cands[k]
}

// switchTo hands the baton to g; if from is non-nil the caller parks until it is woken again.
func (ex *Exec) switchTo(g *gor, from *gor) {
	co := ex.co
	if g == from {
		return
	}
	co.cur = g
	g.wake <- struct{}{}
	if from != nil {
		<-from.wake
		ex.resumed(from)
	}
}

func (ex *Exec) resumed(g *gor) {
	co := ex.co
	if co.dead {
		panic(abortPath{AbortStop, "path ended"})
	}
	if g.id == 0 && co.fwd != nil {
		r := co.fwd
		co.fwd = nil
		panic(r)
	}
}

// spawnCoop starts fn(args) as a new cooperative goroutine; it first runs when the baton reaches it.
func (ex *Exec) spawnCoop(i *interpreter, fn value, args []value, pos token.Pos) {
	co := ex.co
	g := &gor{id: len(co.gs), wake: make(chan struct{})}
	co.gs = append(co.gs, g)
	ex.progress()
	go func() {
		<-g.wake
		if co.dead {
			return
		}
		defer func() {
			r := recover()
			g.done = true
			if co.dead {
				return
			}
			if r != nil {
				// an un-recovered panic (or an engine abort) on this goroutine ends the program: re-raise it on main
				co.fwd = r
				ex.switchTo(co.gs[0], nil)
				return
			}
			ex.progress()
			ex.switchTo(ex.nextExplore(g), nil)
		}()
		call(i, nil, pos, fn, args)
	}()
}

// yield: the current goroutine cannot proceed with `what`; let the others run. Returns when it is this goroutine's
// turn again (the caller re-examines its condition). Aborts the path when nothing can make progress any more.
func (ex *Exec) yield(what string) {
	co := ex.co
	g := co.cur
	g.what = what
	g.idle = true
	co.stall++
	if co.allIdle() {
		// everybody had a turn and nothing moved
		if g.id != 0 {
			ex.switchTo(co.gs[0], g) // only main runs the hook or reports the deadlock
			return
		}
		if DebugPC {
			msg := ""
			for _, x := range co.gs {
				if !x.done {
					msg += " g" + itoa(x.id) + ":" + x.what
				}
			}
			println("QUIESCENT:" + msg)
		}
		if ex.idleHook != nil && !ex.inHook {
			before := co.ops
			ex.inHook = true
			call(ex.interp, nil, 0, ex.idleHook, nil)
			ex.inHook = false
			if co.ops != before {
				return
			}
		}
		msg := ""
		for _, x := range co.gs {
			if !x.done {
				if msg != "" {
					msg += "; "
				}
				msg += "g" + itoa(x.id) + ": " + x.what
			}
		}
		ex.abort(AbortBlocked, "all goroutines blocked (%s)", msg)
	}
	n := ex.nextExplore(g)
	if n == g {
		// sole live goroutine: go round again (stall grows until the hook runs)
		return
	}
	ex.switchTo(n, g)
}

// gosched: runtime.Gosched in cooperative mode: let the next live goroutine run; the caller stays runnable.
func (ex *Exec) gosched() {
	co := ex.co
	g := co.cur
	if n := co.next(g); n != g {
		ex.switchTo(n, g)
	}
}

// endCoop is called when the path is over: every parked goroutine unwinds without running target code.
func (ex *Exec) endCoop() {
	co := ex.co
	if co == nil {
		return
	}
	co.dead = true
	for _, g := range co.gs[1:] {
		if !g.done {
			select {
			case g.wake <- struct{}{}:
			default:
				// it is not parked on wake (it was the running goroutine that forwarded a panic and is finishing)
			}
		}
	}
}

func itoa(n int) string {
	if n == 0 {
		return "0"
	}
	s := ""
	for n > 0 {
		s = string(rune('0'+n%10)) + s
		n /= 10
	}
	return s
}

// ---- channel operations in cooperative mode ----

func coopSend(ex *Exec, ch *vchan, v value) {
	for {
		if ch != nil {
			if ch.closed {
				panic(targetPanic{iface{t: stringType(), v: "send on closed channel"}})
			}
			if len(ch.buf) < ch.cap {
				ch.buf = append(ch.buf, v)
				ex.progress()
				return
			}
			if ch.cap == 0 && ch.handOff(v) {
				ex.progress()
				return
			}
			if ch.cap == 0 && len(ch.buf) == 0 && ch.recvWaiting > 0 {
				// a receiver announced by the harness (vExpectRecv)
				ch.recvWaiting--
				ch.buf = append(ch.buf, v)
				ex.progress()
				return
			}
		}
		ex.yield("chan send")
	}
}

func coopRecv(ex *Exec, ch *vchan) (value, bool) {
	for {
		if ch != nil {
			if len(ch.buf) > 0 {
				v := ch.buf[0]
				ch.buf = ch.buf[1:]
				ex.progress()
				return v, true
			}
			if ch.closed {
				ex.progress()
				return nil, false
			}
			if ch.cap == 0 {
				w := &waiter{}
				w.park(ch)
				ex.yield("chan receive")
				if w.satisfied {
					return w.val, true
				}
				w.withdraw()
				continue
			}
		}
		ex.yield("chan receive")
	}
}
