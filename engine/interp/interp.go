// Copyright 2013 The Go Authors. All rights reserved.
// Use of this source code is governed by a BSD-style
// license that can be found in the LICENSE file.

// Package ssa/interp defines an interpreter for the SSA
// representation of Go programs.
//
// This interpreter is provided as an adjunct for testing the SSA
// construction algorithm.  Its purpose is to provide a minimal
// metacircular implementation of the dynamic semantics of each SSA
// instruction.  It is not, and will never be, a production-quality Go
// interpreter.
//
// The following is a partial list of Go features that are currently
// unsupported or incomplete in the interpreter.
//
// * Unsafe operations, including all uses of unsafe.Pointer, are
// impossible to support given the "boxed" value representation we
// have chosen.
//
// * The reflect package is only partially implemented.
//
// * The "testing" package is no longer supported because it
// depends on low-level details that change too often.
//
// * "sync/atomic" operations are not atomic due to the "boxed" value
// representation: it is not possible to read, modify and write an
// interface value atomically. As a consequence, Mutexes are currently
// broken.
//
// * recover is only partially implemented.  Also, the interpreter
// makes no attempt to distinguish target panics from interpreter
// crashes.
//
// * the sizes of the int, uint and uintptr types in the target
// program are assumed to be the same as those of the interpreter
// itself.
//
// * all values occupy space, even those of types defined by the spec
// to have zero size, e.g. struct{}.  This can cause asymptotic
// performance degradation.
//
// * os.Exit is implemented using panic, causing deferred functions to
// run.
package interp // import "golang.org/x/tools/go/ssa/interp"

import (
	"fmt"
	"go/token"
	"go/types"
	"log"
	"os"
	"runtime"
	"slices"

	"golang.org/x/tools/go/ssa"
)

// mustDeref replaces x/tools/internal/mustDeref (the only internal import upstream had).
func mustDeref(t types.Type) types.Type {
	if p, ok := t.Underlying().(*types.Pointer); ok {
		return p.Elem()
	}
	panic(fmt.Sprintf("mustDeref: %s is not a pointer", t))
}

type continuation int

const (
	kNext continuation = iota
	kReturn
	kJump
)

// Mode is a bitmask of options affecting the interpreter.
type Mode uint

const (
	DisableRecover Mode = 1 << iota // Disable recover() in target programs; show interpreter crash instead.
	EnableTracing                   // Print a trace of all instructions as they are interpreted.
)

type methodSet map[string]*ssa.Function

// State shared between all interpreted goroutines.
type interpreter struct {
	osArgs             []value                // the value of os.Args
	prog               *ssa.Program           // the SSA program
	globals            map[*ssa.Global]*value // addresses of global variables (immutable)
	mode               Mode                   // interpreter options
	runtimeErrorString types.Type             // the runtime.errorString type
	errorsErrorString  types.Type             // the errors.errorString type
	sizes              types.Sizes            // the effective type-sizing function
	x                  *Exec                  // symbolic execution context of the current path
	p                  *Program
	inited             map[*ssa.Package]bool
}

type deferred struct {
	fn    value
	args  []value
	instr *ssa.Defer
	tail  *deferred
}

type frame struct {
	i                *interpreter
	caller           *frame
	fn               *ssa.Function
	block, prevBlock *ssa.BasicBlock
	env              map[ssa.Value]value // dynamic values of SSA variables
	locals           []value
	defers           *deferred
	result           value
	panicking        bool
	panic            interface{}
	phitemps         []value         // temporaries for parallel phi assignment
	phisDone         bool            // the phis of fr.block were already assigned by if-conversion
	cur              ssa.Instruction // the instruction being executed (for panic locations)
}

func (fr *frame) get(key ssa.Value) value {
	switch key := key.(type) {
	case nil:
		// Hack; simplifies handling of optional attributes
		// such as ssa.Slice.{Low,High}.
		return nil
	case *ssa.Function, *ssa.Builtin:
		return key
	case *ssa.Const:
		return constValue(key)
	case *ssa.Global:
		if r, ok := fr.i.globals[key]; ok {
			return r
		}
		// A package-level variable of a package whose initialiser the engine does not run holds its zero value,
		// not what the program would see (os.ErrNotExist would be a nil error): refuse to continue rather than
		// compute with it.
		if key.Pkg != nil && !fr.i.p.InitPkgs[key.Pkg.Pkg.Path()] && !fr.i.p.isHarnessPkg(key.Pkg) && hasInitialiser(key) {
			fr.i.x.abort(AbortUnmodelled, "package variable %s used but the initialiser of package %s is not executed", key.Name(), key.Pkg.Pkg.Path())
		}
		cell := zero(mustDeref(key.Type()))
		fr.i.globals[key] = &cell
		return &cell
	}
	if r, ok := fr.env[key]; ok {
		return r
	}
	panic(fmt.Sprintf("get: no value for %T: %v", key, key.Name()))
}

// runDefer runs a deferred call d.
// It always returns normally, but may set or clear fr.panic.
func (fr *frame) runDefer(d *deferred) {
	if fr.i.mode&EnableTracing != 0 {
		fmt.Fprintf(os.Stderr, "%s: invoking deferred function call\n",
			fr.i.prog.Fset.Position(d.instr.Pos()))
	}
	var ok bool
	defer func() {
		if !ok {
			// Deferred call created a new state of panic.
			p := recover()
			if a, isAbort := p.(abortPath); isAbort {
				panic(a)
			}
			if c, isCrash := p.(crashSignal); isCrash {
				panic(c)
			}
			fr.panicking = true
			fr.panic = p
		}
	}()
	call(fr.i, fr, d.instr.Pos(), d.fn, d.args)
	ok = true
}

// runDefers executes fr's deferred function calls in LIFO order.
//
// On entry, fr.panicking indicates a state of panic; if
// true, fr.panic contains the panic value.
//
// On completion, if a deferred call started a panic, or if no
// deferred call recovered from a previous state of panic, then
// runDefers itself panics after the last deferred call has run.
//
// If there was no initial state of panic, or it was recovered from,
// runDefers returns normally.
func (fr *frame) runDefers() {
	for d := fr.defers; d != nil; d = d.tail {
		fr.runDefer(d)
	}
	fr.defers = nil
	if fr.panicking {
		panic(fr.panic) // new panic, or still panicking
	}
}

// lookupMethod returns the method set for type typ, which may be one
// of the interpreter's fake types.
func lookupMethod(i *interpreter, typ types.Type, meth *types.Func) *ssa.Function {
	return i.prog.LookupMethod(typ, meth.Pkg(), meth.Name())
}

// visitInstr interprets a single ssa.Instruction within the activation
// record frame.  It returns a continuation value indicating where to
// read the next instruction from.
func visitInstr(fr *frame, instr ssa.Instruction) continuation {
	x := fr.i.x
	x.steps++
	if x.steps > x.MaxSteps {
		x.abort(AbortUnwind, "more than %d instructions on one path", x.MaxSteps)
	}
	switch instr := instr.(type) {
	case *ssa.DebugRef:
		// no-op

	case *ssa.UnOp:
		fr.env[instr] = unop(fr.i.x, instr, fr.get(instr.X))

	case *ssa.BinOp:
		fr.env[instr] = binop(fr.i.x, instr.Op, instr.X.Type(), fr.get(instr.X), fr.get(instr.Y))

	case *ssa.Call:
		fn, args := prepareCall(fr, &instr.Call)
		fr.env[instr] = call(fr.i, fr, instr.Pos(), fn, args)

	case *ssa.ChangeInterface:
		fr.env[instr] = fr.get(instr.X)

	case *ssa.ChangeType:
		fr.env[instr] = fr.get(instr.X) // (can't fail)

	case *ssa.Convert:
		fr.env[instr] = conv(instr.Type(), instr.X.Type(), fr.get(instr.X))

	case *ssa.SliceToArrayPointer:
		fr.env[instr] = sliceToArrayPointer(instr.Type(), instr.X.Type(), fr.get(instr.X))

	case *ssa.MakeInterface:
		fr.env[instr] = iface{t: instr.X.Type(), v: fr.get(instr.X)}

	case *ssa.Extract:
		fr.env[instr] = fr.get(instr.Tuple).(tuple)[instr.Index]

	case *ssa.Slice:
		fr.env[instr] = slice(fr.i.x, fr.get(instr.X), fr.get(instr.Low), fr.get(instr.High), fr.get(instr.Max))

	case *ssa.Return:
		switch len(instr.Results) {
		case 0:
		case 1:
			fr.result = fr.get(instr.Results[0])
		default:
			var res []value
			for _, r := range instr.Results {
				res = append(res, fr.get(r))
			}
			fr.result = tuple(res)
		}
		fr.block = nil
		return kReturn

	case *ssa.RunDefers:
		fr.runDefers()

	case *ssa.Panic:
		panic(targetPanic{fr.get(instr.X)})

	case *ssa.Send:
		chanSend(fr.i.x, fr.get(instr.Chan).(*vchan), fr.get(instr.X))

	case *ssa.Store:
		store(mustDeref(instr.Addr.Type()), fr.get(instr.Addr).(*value), fr.get(instr.Val))

	case *ssa.If:
		cv := fr.get(instr.Cond)
		if sc, isSym := cv.(sym); isSym && !fr.i.x.NoMerge {
			if fr.tryMerge(instr, sc) {
				return kJump
			}
		}
		succ := 1
		if fr.i.x.truth(cv) {
			succ = 0
		}
		fr.prevBlock, fr.block = fr.block, fr.block.Succs[succ]
		return kJump

	case *ssa.Jump:
		fr.prevBlock, fr.block = fr.block, fr.block.Succs[0]
		return kJump

	case *ssa.Defer:
		fn, args := prepareCall(fr, &instr.Call)
		defers := &fr.defers
		if into := fr.get(instr.DeferStack); into != nil {
			defers = into.(**deferred)
		}
		*defers = &deferred{
			fn:    fn,
			args:  args,
			instr: instr,
			tail:  *defers,
		}

	case *ssa.Go:
		fn, args := prepareCall(fr, &instr.Call)
		if fr.i.x.coop() {
			fr.i.x.spawnCoop(fr.i, fn, args, instr.Pos())
		} else {
			fr.i.x.spawned = append(fr.i.x.spawned, spawn{fn: fn, args: args, pos: instr.Pos()})
		}

	case *ssa.MakeChan:
		fr.env[instr] = &vchan{cap: int(fr.i.x.concretize(fr.get(instr.Size))), elem: instr.Type().Underlying().(*types.Chan).Elem()}

	case *ssa.Alloc:
		var addr *value
		if instr.Heap {
			// new
			addr = new(value)
			fr.env[instr] = addr
		} else {
			// local
			addr = fr.env[instr].(*value)
		}
		*addr = zero(mustDeref(instr.Type()))

	case *ssa.MakeSlice:
		slice := make([]value, fr.i.x.concretize(fr.get(instr.Cap)))
		tElt := instr.Type().Underlying().(*types.Slice).Elem()
		for i := range slice {
			slice[i] = zero(tElt)
		}
		fr.env[instr] = slice[:fr.i.x.concretize(fr.get(instr.Len))]

	case *ssa.MakeMap:
		fr.env[instr] = &smap{kt: instr.Type().Underlying().(*types.Map).Key()}

	case *ssa.Range:
		fr.env[instr] = rangeIter(fr.get(instr.X), instr.X.Type())

	case *ssa.Next:
		fr.env[instr] = fr.get(instr.Iter).(iter).next()

	case *ssa.FieldAddr:
		fr.env[instr] = &(*fr.get(instr.X).(*value)).(structure)[instr.Field]

	case *ssa.Field:
		fr.env[instr] = fr.get(instr.X).(structure)[instr.Field]

	case *ssa.IndexAddr:
		x := fr.get(instr.X)
		idx := fr.get(instr.Index)
		switch x := x.(type) {
		case []value:
			fr.env[instr] = &x[fr.i.x.concretize(idx)]
		case *value: // *array
			fr.env[instr] = &(*x).(array)[fr.i.x.concretize(idx)]
		default:
			panic(fmt.Sprintf("unexpected x type in IndexAddr: %T", x))
		}

	case *ssa.Index:
		x := fr.get(instr.X)
		idx := fr.get(instr.Index)

		switch x := x.(type) {
		case array:
			fr.env[instr] = x[fr.i.x.concretize(idx)]
		case string:
			fr.env[instr] = x[fr.i.x.concretize(idx)]
		case symstr:
			fr.env[instr] = x[fr.i.x.concretize(idx)]
		default:
			panic(fmt.Sprintf("unexpected x type in Index: %T", x))
		}

	case *ssa.Lookup:
		fr.env[instr] = lookup(fr.i.x, instr, fr.get(instr.X), fr.get(instr.Index))

	case *ssa.MapUpdate:
		m := fr.get(instr.Map)
		key := fr.get(instr.Key)
		v := fr.get(instr.Value)
		m.(*smap).insert(fr.i.x, key, v)

	case *ssa.TypeAssert:
		fr.env[instr] = typeAssert(fr.i, instr, fr.get(instr.X).(iface))

	case *ssa.MakeClosure:
		var bindings []value
		for _, binding := range instr.Bindings {
			bindings = append(bindings, fr.get(binding))
		}
		fr.env[instr] = &closure{instr.Fn.(*ssa.Function), bindings}

	case *ssa.Phi:
		log.Fatal("unreachable") // phis are processed at block entry

	case *ssa.Select:
		fr.env[instr] = doSelect(fr, instr)

	default:
		panic(fmt.Sprintf("unexpected instruction: %T", instr))
	}

	// if val, ok := instr.(ssa.Value); ok {
	// 	fmt.Println(toString(fr.env[val])) // debugging
	// }

	return kNext
}

// prepareCall determines the function value and argument values for a
// function call in a Call, Go or Defer instruction, performing
// interface method lookup if needed.
func prepareCall(fr *frame, call *ssa.CallCommon) (fn value, args []value) {
	v := fr.get(call.Value)
	if call.Method == nil {
		// Function call.
		fn = v
	} else {
		// Interface method invocation.
		recv := v.(iface)
		if recv.t == nil {
			panic(fmt.Sprintf("method invoked on nil interface: %s in %s%s", call.Method.Name(), fr.fn, loc(fr.i.prog.Fset, call.Pos())))
		}
		if f := lookupMethod(fr.i, recv.t, call.Method); f == nil {
			// Unreachable in well-typed programs.
			panic(fmt.Sprintf("method set for dynamic type %v does not contain %s", recv.t, call.Method))
		} else {
			fn = f
		}
		args = append(args, recv.v)
	}
	for _, arg := range call.Args {
		args = append(args, fr.get(arg))
	}
	return
}

// call interprets a call to a function (function, builtin or closure)
// fn with arguments args, returning its result.
// callpos is the position of the callsite.
func call(i *interpreter, caller *frame, callpos token.Pos, fn value, args []value) value {
	switch fn := fn.(type) {
	case *ssa.Function:
		if fn == nil {
			panic("call of nil function") // nil of func type
		}
		return callSSA(i, caller, callpos, fn, args, nil)
	case *closure:
		return callSSA(i, caller, callpos, fn.Fn, args, fn.Env)
	case *ssa.Builtin:
		return callBuiltin(caller, callpos, fn, args)
	}
	panic(fmt.Sprintf("cannot call %T", fn))
}

func loc(fset *token.FileSet, pos token.Pos) string {
	if pos == token.NoPos {
		return ""
	}
	return " at " + fset.Position(pos).String()
}

// callSSA interprets a call to function fn with arguments args,
// and lexical environment env, returning its result.
// callpos is the position of the callsite.
func callSSA(i *interpreter, caller *frame, callpos token.Pos, fn *ssa.Function, args []value, env []value) value {
	if i.mode&EnableTracing != 0 {
		fset := fn.Prog.Fset
		// TODO(adonovan): fix: loc() lies for external functions.
		fmt.Fprintf(os.Stderr, "Entering %s%s.\n", fn, loc(fset, fn.Pos()))
		suffix := ""
		if caller != nil {
			suffix = ", resuming " + caller.fn.String() + loc(fset, callpos)
		}
		defer fmt.Fprintf(os.Stderr, "Leaving %s%s.\n", fn, suffix)
	}
	fr := &frame{
		i:      i,
		caller: caller, // for panic/recover
		fn:     fn,
	}
	if fn.Parent() == nil {
		name := fn.String()
		if to := i.x.redir[name]; to != nil && (caller == nil || caller.fn != to) {
			// harness-directed stub: run the harness model instead (the model itself may call the original)
			i.x.res.Stubs[name+" => "+to.Name()] = true
			return callSSA(i, caller, callpos, to, args, nil)
		}
		if ext := externals[name]; ext != nil {
			i.x.res.Stubs[name] = true
			return ext(fr, args)
		}
		if ext := intrinsics[fn.Name()]; ext != nil && fn.Signature.Recv() == nil && i.p.isHarnessPkg(fn.Pkg) {
			return ext(fr, args)
		}
		if fn.Pkg != nil && fn.Name() == "init" && fn.Signature.Recv() == nil && fn.Pkg.Func("init") == fn {
			if !i.p.InitPkgs[fn.Pkg.Pkg.Path()] {
				return nil // initialiser of a package outside the allow-list: skipped
			}
		}
		if fn.Blocks == nil {
			i.x.abort(AbortUnmodelled, "no code for function: %s", name)
		}
	}
	if i.x.res.Funcs != nil {
		i.x.res.Funcs[fn] = true
	}

	// generic function body?
	if fn.TypeParams().Len() > 0 && len(fn.TypeArgs()) == 0 {
		panic("interp requires ssa.BuilderMode to include InstantiateGenerics to execute generics")
	}

	fr.env = make(map[ssa.Value]value)
	fr.block = fn.Blocks[0]
	fr.locals = make([]value, len(fn.Locals))
	for i, l := range fn.Locals {
		fr.locals[i] = zero(mustDeref(l.Type()))
		fr.env[l] = &fr.locals[i]
	}
	for i, p := range fn.Params {
		fr.env[p] = args[i]
	}
	for i, fv := range fn.FreeVars {
		fr.env[fv] = env[i]
	}
	for fr.block != nil {
		runFrame(fr)
	}
	// Destroy the locals to avoid accidental use after return.
	for i := range fn.Locals {
		fr.locals[i] = bad{}
	}
	return fr.result
}

// runFrame executes SSA instructions starting at fr.block and
// continuing until a return, a panic, or a recovered panic.
//
// After a panic, runFrame panics.
//
// After a normal return, fr.result contains the result of the call
// and fr.block is nil.
//
// A recovered panic in a function without named return parameters
// (NRPs) becomes a normal return of the zero value of the function's
// result type.
//
// After a recovered panic in a function with NRPs, fr.result is
// undefined and fr.block contains the block at which to resume
// control.
func runFrame(fr *frame) {
	defer func() {
		if fr.block == nil {
			return // normal return
		}
		if fr.i.mode&DisableRecover != 0 {
			return // let interpreter crash
		}
		p := recover()
		if a, isAbort := p.(abortPath); isAbort {
			panic(a) // engine-level path termination: never visible to the target's defers
		}
		if c, isCrash := p.(crashSignal); isCrash {
			panic(c) // a simulated process crash: no deferred function of the target runs
		}
		fr.panicking = true
		fr.panic = p
		if DebugPC && fr.i.x.panicStack == "" {
			for f := fr; f != nil; f = f.caller {
				pos := ""
				if f.cur != nil {
					pos = fr.i.prog.Fset.Position(f.cur.Pos()).String()
				}
				fr.i.x.panicStack += "    at " + f.fn.String() + " " + pos + "\n"
			}
			fmt.Fprintf(os.Stderr, "target panic %v\n%s", p, fr.i.x.panicStack)
		}
		if fr.i.mode&EnableTracing != 0 {
			fmt.Fprintf(os.Stderr, "Panicking: %T %v.\n", fr.panic, fr.panic)
		}
		fr.runDefers()
		fr.block = fr.fn.Recover
	}()

	for {
		if fr.i.mode&EnableTracing != 0 {
			fmt.Fprintf(os.Stderr, ".%s:\n", fr.block)
		}

		nonPhis := executePhis(fr)
		for _, instr := range nonPhis {
			if fr.i.mode&EnableTracing != 0 {
				if v, ok := instr.(ssa.Value); ok {
					fmt.Fprintln(os.Stderr, "\t", v.Name(), "=", instr)
				} else {
					fmt.Fprintln(os.Stderr, "\t", instr)
				}
			}
			fr.cur = instr
			if visitInstr(fr, instr) == kReturn {
				return
			}
			// Inv: kNext (continue) or kJump (last instr)
		}
	}
}

// executePhis executes the phi-nodes at the start of the current
// block and returns the non-phi instructions.
func executePhis(fr *frame) []ssa.Instruction {
	firstNonPhi := -1
	for i, instr := range fr.block.Instrs {
		if _, ok := instr.(*ssa.Phi); !ok {
			firstNonPhi = i
			break
		}
	}
	// Inv: 0 <= firstNonPhi; every block contains a non-phi.

	nonPhis := fr.block.Instrs[firstNonPhi:]
	if fr.phisDone {
		fr.phisDone = false
		return nonPhis
	}
	if firstNonPhi > 0 {
		phis := fr.block.Instrs[:firstNonPhi]
		// Execute parallel assignment of phis.
		//
		// See "the swap problem" in Briggs et al's "Practical Improvements
		// to the Construction and Destruction of SSA Form" for discussion.
		predIndex := slices.Index(fr.block.Preds, fr.prevBlock)
		fr.phitemps = fr.phitemps[:0]
		for _, phi := range phis {
			phi := phi.(*ssa.Phi)
			if fr.i.mode&EnableTracing != 0 {
				fmt.Fprintln(os.Stderr, "\t", phi.Name(), "=", phi)
			}
			fr.phitemps = append(fr.phitemps, fr.get(phi.Edges[predIndex]))
		}
		for i, phi := range phis {
			fr.env[phi.(*ssa.Phi)] = fr.phitemps[i]
		}
	}
	return nonPhis
}

// doRecover implements the recover() built-in.
func doRecover(caller *frame) value {
	// recover() must be exactly one level beneath the deferred
	// function (two levels beneath the panicking function) to
	// have any effect.  Thus we ignore both "defer recover()" and
	// "defer f() -> g() -> recover()".
	if caller.i.mode&DisableRecover == 0 &&
		caller != nil && !caller.panicking &&
		caller.caller != nil && caller.caller.panicking {
		caller.caller.panicking = false
		p := caller.caller.panic
		caller.caller.panic = nil

		// TODO(adonovan): support runtime.Goexit.
		switch p := p.(type) {
		case targetPanic:
			// The target program explicitly called panic().
			return p.v
		case runtime.Error:
			// The interpreter encountered a runtime error.
			return iface{caller.i.runtimeErrorString, p.Error()}
		case string:
			// The interpreter explicitly called panic().
			return iface{caller.i.runtimeErrorString, p}
		default:
			panic(fmt.Sprintf("unexpected panic type %T in target call to recover()", p))
		}
	}
	return iface{}
}

// hasInitialiser reports whether g is stored to by its package's init function (i.e. declared with an initialiser
// that is not a compile-time constant zero).
func hasInitialiser(g *ssa.Global) bool {
	init := g.Pkg.Func("init")
	if init == nil {
		return false
	}
	for _, b := range init.Blocks {
		for _, ins := range b.Instrs {
			if st, ok := ins.(*ssa.Store); ok && st.Addr == g {
				return true
			}
		}
	}
	return false
}
