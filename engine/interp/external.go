package interp

// Functions the engine does not execute from SSA: harness intrinsics, and the environment stub table
// (noop / havoc kinds of DESIGN.md §2.6; the go-model kind is the Redirect table filled from harness directives).

import (
	"fmt"
	"go/token"
	"go/types"
	"strings"
)

// crashSignal unwinds to the enclosing vRunToCrash without running any deferred function of the target program:
// a process that dies does not run its defers.
type crashSignal struct{}

type externalFn func(fr *frame, args []value) value

// Key strings are from Function.String().
var externals = make(map[string]externalFn)

// intrinsics are keyed by bare function name and only apply to functions of a harness package.
var intrinsics = make(map[string]externalFn)

func str(v value) string {
	s, ok := v.(string)
	if !ok {
		panic(fmt.Sprintf("intrinsic: expected concrete string, got %T", v))
	}
	return s
}

func boolTerm(ex *Exec, v value) value { return v }

func init() {
	for k, v := range map[string]externalFn{
		"vU64":  func(fr *frame, a []value) value { return fr.i.x.newSym(str(a[0]), types.Uint64) },
		"vU32":  func(fr *frame, a []value) value { return fr.i.x.newSym(str(a[0]), types.Uint32) },
		"vU16":  func(fr *frame, a []value) value { return fr.i.x.newSym(str(a[0]), types.Uint16) },
		"vU8":   func(fr *frame, a []value) value { return fr.i.x.newSym(str(a[0]), types.Uint8) },
		"vInt":  func(fr *frame, a []value) value { return fr.i.x.newSym(str(a[0]), types.Int) },
		"vI64":  func(fr *frame, a []value) value { return fr.i.x.newSym(str(a[0]), types.Int64) },
		"vBool": func(fr *frame, a []value) value { return fr.i.x.newSym(str(a[0]), types.Bool) },
		"vBytes": func(fr *frame, a []value) value {
			n := int(fr.i.x.concretize(a[1]))
			base := fr.i.x.freshName(str(a[0]))
			r := make([]value, n)
			for i := range r {
				r[i] = fr.i.x.newSym(fmt.Sprintf("%s[%d]", base, i), types.Uint8)
			}
			return r
		},
		"vString": func(fr *frame, a []value) value {
			n := int(fr.i.x.concretize(a[1]))
			base := fr.i.x.freshName(str(a[0]))
			r := make([]value, n)
			for i := range r {
				r[i] = fr.i.x.newSym(fmt.Sprintf("%s[%d]", base, i), types.Uint8)
			}
			return mkString(r)
		},
		"vAssume": func(fr *frame, a []value) value {
			ex := fr.i.x
			switch c := a[0].(type) {
			case bool:
				if !c {
					ex.abort(AbortInfeasible, "assume(false)")
				}
			case sym:
				if ex.concrete != nil {
					ex.abort(AbortEngine, "symbolic assume in concrete mode")
				}
				// keep the path only if the assumption is satisfiable with the path condition
				if len(ex.trail) >= len(ex.prefix) {
					if v, ok := ex.evalModel(c.t); !ok || v != 1 {
						r, m := ex.checkM(c.t)
						if r.String() == "unsat" {
							ex.abort(AbortInfeasible, "assumption contradicts path condition")
						}
						ex.pc = append(ex.pc, c.t)
						ex.model = m
						return nil
					}
				}
				ex.addPC(c.t)
			}
			return nil
		},
		"vAssert": func(fr *frame, a []value) value {
			pos := ""
			if fr.caller != nil {
				pos = fr.caller.fn.Name()
			}
			fr.i.x.assert(a[0], str(a[1]), pos)
			return nil
		},
		"vReach": func(fr *frame, a []value) value {
			fr.i.x.res.Reached[str(a[0])]++
			return nil
		},
		"vChoice": func(fr *frame, a []value) value {
			return fr.i.x.choice(int(fr.i.x.concretize(a[0])))
		},
		"vConcrete":    func(fr *frame, a []value) value { return uint64(fr.i.x.concretize(a[0])) },
		"vConcreteInt": func(fr *frame, a []value) value { return int(fr.i.x.concretize(a[0])) },
		"vConcreteU8":  func(fr *frame, a []value) value { return uint8(fr.i.x.concretize(a[0])) },
		"vStop": func(fr *frame, a []value) value {
			fr.i.x.abort(AbortStop, "vStop")
			return nil
		},
		"vSetIdleHook": func(fr *frame, a []value) value {
			fr.i.x.idleHook = a[0]
			return nil
		},
		"vCrashNow": func(fr *frame, a []value) value {
			panic(crashSignal{})
		},
		"vRunToCrash": func(fr *frame, a []value) (res value) {
			defer func() {
				if r := recover(); r != nil {
					if _, ok := r.(crashSignal); ok {
						res = true
						return
					}
					panic(r)
				}
			}()
			call(fr.i, fr, 0, a[0], nil)
			return false
		},
		// vOffer(ch, v): a sender is waiting on ch with v (works for unbuffered channels: the value sits in the
		// model's buffer until a receive or select takes it)
		"vOffer": func(fr *frame, a []value) value {
			ch := a[0].(iface).v.(*vchan)
			v := a[1]
			if _, isIface := ch.elem.Underlying().(*types.Interface); !isIface {
				v = a[1].(iface).v
			}
			ch.buf = append(ch.buf, v)
			if fr.i.x.coop() {
				fr.i.x.progress()
			}
			return nil
		},
		"vExpectRecv": func(fr *frame, a []value) value {
			a[0].(iface).v.(*vchan).recvWaiting++
			return nil
		},
		"vIsEngine": func(fr *frame, a []value) value { return true },
		"vNumSpawned": func(fr *frame, a []value) value {
			return len(fr.i.x.spawned)
		},
		"vRunSpawned": func(fr *frame, a []value) value {
			ex := fr.i.x
			i := int(ex.concretize(a[0]))
			if i < 0 || i >= len(ex.spawned) {
				ex.abort(AbortEngine, "vRunSpawned(%d): only %d goroutines were spawned", i, len(ex.spawned))
			}
			sp := &ex.spawned[i]
			if sp.ran {
				ex.abort(AbortEngine, "vRunSpawned(%d): already ran", i)
			}
			sp.ran = true
			call(fr.i, nil, sp.pos, sp.fn, sp.args)
			return nil
		},
		"vAnd": func(fr *frame, a []value) value { return andV(a[0], a[1]) },
		"vOr":  func(fr *frame, a []value) value { return notV(andV(notV(a[0]), notV(a[1]))) },
		"vImp": func(fr *frame, a []value) value { return notV(andV(a[0], notV(a[1]))) },
		"vNot": func(fr *frame, a []value) value { return notV(a[0]) },
		"vIte64": func(fr *frame, a []value) value {
			switch c := a[0].(type) {
			case bool:
				if c {
					return a[1]
				}
				return a[2]
			case sym:
				cx := c.t.C
				return mkVal(cx.Ite(c.t, termOf(cx, a[1]), termOf(cx, a[2])), types.Uint64)
			}
			panic("vIte64")
		},
		"vIte8": func(fr *frame, a []value) value {
			switch c := a[0].(type) {
			case bool:
				if c {
					return a[1]
				}
				return a[2]
			case sym:
				cx := c.t.C
				return mkVal(cx.Ite(c.t, termOf(cx, a[1]), termOf(cx, a[2])), types.Uint8)
			}
			panic("vIte8")
		},
		"vIsSymbolic": func(fr *frame, a []value) value { return isSym(a[0]) },
		"vChanPending": func(fr *frame, a []value) value {
			// number of items buffered in a channel passed as interface{}
			if it, ok := a[0].(iface); ok {
				if ch, ok := it.v.(*vchan); ok && ch != nil {
					return len(ch.buf)
				}
			}
			return 0
		},
	} {
		intrinsics[k] = v
	}

	nop := func(fr *frame, a []value) value { return nil }
	for _, k := range []string{
		"(*sync.Mutex).Lock", "(*sync.Mutex).Unlock",
		"(*sync.RWMutex).Lock", "(*sync.RWMutex).Unlock", "(*sync.RWMutex).RLock", "(*sync.RWMutex).RUnlock",
		"(*sync.WaitGroup).Add", "(*sync.WaitGroup).Done", "(*sync.WaitGroup).Wait",
		"runtime.GC", "runtime.KeepAlive", "runtime.SetFinalizer",
		"internal/race.Acquire", "internal/race.Release", "internal/race.ReleaseMerge", "internal/race.Disable", "internal/race.Enable",
		"internal/race.Read", "internal/race.Write", "internal/race.ReadRange", "internal/race.WriteRange",
	} {
		externals[k] = nop
	}
	// cooperative mode gives the sync primitives their blocking behaviour (a goroutine may park at a channel operation
	// while holding a lock, or wait for others to finish)
	externals["(*sync.WaitGroup).Add"] = func(fr *frame, a []value) value {
		if ex := fr.i.x; ex.coop() {
			ex.co.wg[a[0].(*value)] += int(ex.concretize(a[1]))
			ex.progress()
		}
		return nil
	}
	externals["(*sync.WaitGroup).Done"] = func(fr *frame, a []value) value {
		if ex := fr.i.x; ex.coop() {
			ex.co.wg[a[0].(*value)]--
			ex.progress()
		}
		return nil
	}
	externals["(*sync.WaitGroup).Wait"] = func(fr *frame, a []value) value {
		if ex := fr.i.x; ex.coop() {
			for ex.co.wg[a[0].(*value)] > 0 {
				ex.yield("WaitGroup.Wait")
			}
		}
		return nil
	}
	lock := func(write bool) func(fr *frame, a []value) value {
		return func(fr *frame, a []value) value {
			if ex := fr.i.x; ex.coop() {
				m := a[0].(*value)
				for ex.co.mu[m] < 0 || (write && ex.co.mu[m] > 0) {
					ex.yield("Mutex.Lock")
				}
				if write {
					ex.co.mu[m] = -1
				} else {
					ex.co.mu[m]++
				}
			}
			return nil
		}
	}
	unlock := func(write bool) func(fr *frame, a []value) value {
		return func(fr *frame, a []value) value {
			if ex := fr.i.x; ex.coop() {
				m := a[0].(*value)
				if write {
					ex.co.mu[m] = 0
				} else if ex.co.mu[m] > 0 {
					ex.co.mu[m]--
				}
				ex.progress()
			}
			return nil
		}
	}
	externals["(*sync.Mutex).Lock"], externals["(*sync.Mutex).Unlock"] = lock(true), unlock(true)
	externals["(*sync.RWMutex).Lock"], externals["(*sync.RWMutex).Unlock"] = lock(true), unlock(true)
	externals["(*sync.RWMutex).RLock"], externals["(*sync.RWMutex).RUnlock"] = lock(false), unlock(false)
	externals["runtime.Gosched"] = func(fr *frame, a []value) value {
		if ex := fr.i.x; ex.coop() {
			ex.gosched()
		}
		return nil
	}
	externals["(*sync.Mutex).TryLock"] = func(fr *frame, a []value) value { return true }
	externals["(*sync.Once).Do"] = func(fr *frame, a []value) value {
		ex := fr.i.x
		o := a[0].(*value)
		if ex.onceDone[o] {
			return nil
		}
		ex.onceDone[o] = true
		call(fr.i, fr, 0, a[1], nil)
		return nil
	}
	// identity on pointers
	externals["internal/abi.NoEscape"] = func(fr *frame, a []value) value { return a[0] }
	externals["internal/abi.Escape[T any]"] = func(fr *frame, a []value) value { return a[0] }

	// internal/bytealg (assembly in the real runtime)
	externals["internal/bytealg.IndexByteString"] = func(fr *frame, a []value) value {
		return indexByte(fr.i.x, []value(toSymstr(a[0])), a[1])
	}
	externals["internal/bytealg.IndexByte"] = func(fr *frame, a []value) value {
		return indexByte(fr.i.x, a[0].([]value), a[1])
	}
	externals["internal/bytealg.MakeNoZero"] = func(fr *frame, a []value) value {
		n := fr.i.x.concretize(a[0])
		r := make([]value, n)
		for i := range r {
			r[i] = uint8(0)
		}
		return r
	}
	externals["internal/bytealg.Equal"] = func(fr *frame, a []value) value {
		return strEq(symstr(a[0].([]value)), symstr(a[1].([]value)))
	}
	externals["internal/stringslite.HasSuffix"] = nil
	delete(externals, "internal/stringslite.HasSuffix")

	externals["(*strings.Builder).String"] = func(fr *frame, a []value) value {
		st := (*a[0].(*value)).(structure)
		b, _ := st[1].([]value)
		return mkString(b)
	}
	// formatting: opaque results (formatting is never the subject except where a harness models it)
	externals["fmt.Sprintf"] = func(fr *frame, a []value) value {
		// %T is modelled exactly (the dynamic type name is what encodeTaskResp puts on the wire); everything else is opaque
		if f, ok := a[0].(string); ok && f == "%T" {
			if args, ok := a[1].([]value); ok && len(args) == 1 {
				if it, ok := args[0].(iface); ok {
					if it.t == nil {
						return "<nil>"
					}
					return types.TypeString(it.t, func(p *types.Package) string { return p.Name() })
				}
			}
		}
		// concrete arguments of plain basic types: the real fmt.Sprintf (this is what lets valueFile/segmentFile run
		// for real on concrete values)
		if f, ok := a[0].(string); ok {
			if args, ok := a[1].([]value); ok {
				goArgs := make([]interface{}, 0, len(args))
				allPlain := true
				for _, x := range args {
					it, isIface := x.(iface)
					if !isIface || it.t == nil {
						allPlain = false
						break
					}
					if _, basic := it.t.(*types.Basic); !basic {
						allPlain = false
						break
					}
					switch it.v.(type) {
					case bool, int, int8, int16, int32, int64, uint, uint8, uint16, uint32, uint64, uintptr, string:
						goArgs = append(goArgs, it.v)
					default:
						allPlain = false
					}
				}
				if allPlain {
					return fmt.Sprintf(f, goArgs...)
				}
			}
		}
		return "fmt.Sprintf(" + fmtArg(a[0]) + ")"
	}
	externals["fmt.Sprint"] = func(fr *frame, a []value) value { return "fmt.Sprint" }
	externals["fmt.Sprintln"] = func(fr *frame, a []value) value { return "fmt.Sprintln" }
	externals["fmt.Errorf"] = func(fr *frame, a []value) value {
		return mkError(fr.i, "fmt.Errorf("+fmtArg(a[0])+")")
	}
	for _, k := range []string{"fmt.Println", "fmt.Printf", "fmt.Print", "fmt.Fprintf", "fmt.Fprintln", "fmt.Fprint"} {
		externals[k] = func(fr *frame, a []value) value { return tuple{0, iface{}} }
	}

	// time: instants are Time{wall:0, ext:t, loc:nil}; t is a fresh non-decreasing symbolic value
	externals["time.Now"] = func(fr *frame, a []value) value {
		ex := fr.i.x
		t := ex.newSym("time.now", types.Int64)
		if ts, ok := t.(sym); ok {
			c := ts.t.C
			ex.assume(c.SLt(c.BV(0, 64), ts.t))
			ex.assume(c.SLt(ts.t, c.BV(1<<60, 64)))
			if ex.lastNow != nil {
				ex.assume(c.SLe(ex.lastNow, ts.t))
			}
			ex.lastNow = ts.t
		}
		return structure{uint64(0), t, (*value)(nil)}
	}
	// instants are Time{wall:0, ext:t} with t in abstract ticks; Sub is their difference (consistent across calls,
	// no multiply by 10^9). Real saturation on overflow is not modelled (instants are below 2^60).
	externals["(time.Time).Sub"] = func(fr *frame, a []value) value {
		x, y := a[0].(structure)[1], a[1].(structure)[1]
		return binop(fr.i.x, token.SUB, types.Typ[types.Int64], x, y)
	}
	externals["(time.Time).Add"] = func(fr *frame, a []value) value {
		// result instant: arbitrary, not before the receiver when the duration is non-negative (not modelled: arbitrary > 0)
		ex := fr.i.x
		t := ex.newSym("time.add", types.Int64)
		if ts, ok := t.(sym); ok {
			c := ts.t.C
			ex.assume(c.SLt(c.BV(0, 64), ts.t))
			ex.assume(c.SLt(ts.t, c.BV(1<<60, 64)))
		}
		return structure{uint64(0), t, (*value)(nil)}
	}
	// contract pair used by the Replication codec: Unix(0, UnixNano(t)) is the instant t
	externals["(time.Time).UnixNano"] = func(fr *frame, a []value) value { return a[0].(structure)[1] }
	externals["time.Unix"] = func(fr *frame, a []value) value {
		if sec, ok := a[0].(int64); !ok || sec != 0 {
			fr.i.x.abort(AbortUnmodelled, "time.Unix with non-zero seconds")
		}
		return structure{uint64(0), a[1], (*value)(nil)}
	}
	externals["time.Since"] = func(fr *frame, a []value) value { return fr.i.x.newSym("time.since", types.Int64) }
	externals["time.Sleep"] = nop
	// sort.Slice goes through reflectlite (unsafe): an insertion sort over the interpreter's slice, calling the
	// target's less function (a symbolic comparison forks like any branch)
	externals["sort.Slice"] = func(fr *frame, a []value) value {
		s, ok := a[0].(iface).v.([]value)
		if !ok {
			fr.i.x.abort(AbortUnmodelled, "sort.Slice of %T", a[0].(iface).v)
		}
		for i := 1; i < len(s); i++ {
			for j := i; j > 0; j-- {
				if !fr.i.x.truth(call(fr.i, fr, token.NoPos, a[1], []value{j, j - 1})) {
					break
				}
				s[j], s[j-1] = s[j-1], s[j]
			}
		}
		return nil
	}
	// time.After: a timeout that does not elapse within the run (time only advances when the harness fires a timer)
	externals["time.After"] = func(fr *frame, a []value) value {
		return &vchan{cap: 1, elem: nil}
	}
}

func fmtArg(v value) string {
	if s, ok := v.(string); ok {
		return s
	}
	return "?"
}

// mkError builds an error value of the real dynamic type *errors.errorString.
func mkError(i *interpreter, msg string) value {
	if i.errorsErrorString == nil {
		panic("errors package not loaded")
	}
	var cell value = structure{msg}
	return iface{t: types.NewPointer(i.errorsErrorString), v: &cell}
}

func indexByte(ex *Exec, b []value, c value) value {
	for i, e := range b {
		if ex.truth(equalsV(types.Typ[types.Uint8], e, c)) {
			return i
		}
	}
	return -1
}

var _ = strings.HasPrefix
