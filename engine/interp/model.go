package interp

// Engine-side models of Go runtime objects: maps (association lists that admit symbolic keys),
// channels (sequential FIFO model), strings with symbolic bytes, select.

import (
	"fmt"
	"go/token"
	"go/types"

	"golang.org/x/tools/go/ssa"
)

// ---- maps ----

type mentry struct {
	k, v    value
	deleted bool
}

// smap is an insertion-ordered association list. Iteration order is insertion order (stated assumption:
// Go's randomised iteration order is not explored).
type smap struct {
	kt   types.Type
	ents []*mentry
}

func (m *smap) len() int {
	if m == nil {
		return 0
	}
	return len(m.ents)
}

func (m *smap) find(ex *Exec, k value) *mentry {
	if m == nil {
		return nil
	}
	for _, e := range m.ents {
		if ex.truth(equalsV(m.kt, e.k, k)) {
			return e
		}
	}
	return nil
}

func (m *smap) lookup(ex *Exec, k value) (value, bool) {
	if e := m.find(ex, k); e != nil {
		return e.v, true
	}
	return nil, false
}

func (m *smap) insert(ex *Exec, k, v value) {
	if m == nil {
		panic("assignment to entry in nil map")
	}
	if e := m.find(ex, k); e != nil {
		e.v = v
		return
	}
	m.ents = append(m.ents, &mentry{k: k, v: v})
}

func (m *smap) delete(ex *Exec, k value) {
	if m == nil {
		return
	}
	for i, e := range m.ents {
		if ex.truth(equalsV(m.kt, e.k, k)) {
			e.deleted = true
			m.ents = append(m.ents[:i:i], m.ents[i+1:]...)
			return
		}
	}
}

type smapIter struct {
	snap []*mentry
	i    int
}

func (m *smap) iter() iter {
	if m == nil {
		return &smapIter{}
	}
	return &smapIter{snap: append([]*mentry(nil), m.ents...)}
}

func (it *smapIter) next() tuple {
	for it.i < len(it.snap) {
		e := it.snap[it.i]
		it.i++
		if e.deleted {
			continue
		}
		return tuple{true, e.k, e.v}
	}
	return tuple{false, nil, nil}
}

// ---- strings with symbolic bytes ----

func mkString(b []value) value {
	conc := true
	for _, e := range b {
		if _, ok := e.(uint8); !ok {
			conc = false
			break
		}
	}
	if conc {
		bs := make([]byte, len(b))
		for i, e := range b {
			bs[i] = e.(uint8)
		}
		return string(bs)
	}
	return symstr(append([]value(nil), b...))
}

func symstrOf(s string) symstr {
	r := make(symstr, len(s))
	for i := 0; i < len(s); i++ {
		r[i] = s[i]
	}
	return r
}

func strEq(a, b symstr) value {
	if len(a) != len(b) {
		return false
	}
	var res value = true
	for i := range a {
		res = andV(res, equalsV(types.Typ[types.Uint8], a[i], b[i]))
		if res == false {
			return false
		}
	}
	return res
}

func toSymstr(x value) symstr {
	switch x := x.(type) {
	case string:
		return symstrOf(x)
	case symstr:
		return x
	}
	panic(fmt.Sprintf("toSymstr: %T", x))
}

func strBinop(ex *Exec, op token.Token, x, y value) value {
	a, b := toSymstr(x), toSymstr(y)
	switch op {
	case token.ADD:
		return mkString(append(append([]value(nil), a...), b...))
	case token.EQL:
		return strEq(a, b)
	case token.NEQ:
		return notV(strEq(a, b))
	}
	panic(fmt.Sprintf("unsupported operation %s on symbolic strings", op))
}

// ---- channels ----

type vchan struct {
	buf         []value
	cap         int
	closed      bool
	elem        types.Type
	recvWaiting int       // receivers announced by the harness (vExpectRecv): lets a send on an unbuffered channel proceed
	waiters     []*waiter // cooperative mode: goroutines parked receiving on this unbuffered channel
}

// waiter: a goroutine parked in a receive or a select on unbuffered channels (cooperative mode). A sender completes
// against the first waiter that is not yet satisfied, which commits that receiver to this value: it is withdrawn
// from every channel it waits on, exactly as the runtime completes one case of a blocked select.
type waiter struct {
	chans     []*vchan
	satisfied bool
	from      *vchan
	val       value
}

func (w *waiter) park(ch *vchan) {
	w.chans = append(w.chans, ch)
	ch.waiters = append(ch.waiters, w)
}

func (w *waiter) withdraw() {
	for _, ch := range w.chans {
		for i, x := range ch.waiters {
			if x == w {
				ch.waiters = append(ch.waiters[:i:i], ch.waiters[i+1:]...)
				break
			}
		}
	}
	w.chans = nil
}

// handOff gives v to a parked receiver of ch, if there is one.
func (ch *vchan) handOff(v value) bool {
	if len(ch.waiters) == 0 {
		return false
	}
	w := ch.waiters[0]
	w.withdraw()
	w.satisfied, w.from, w.val = true, ch, v
	return true
}

func chanSend(ex *Exec, ch *vchan, v value) {
	if ex.coop() {
		coopSend(ex, ch, v)
		return
	}
	if ch == nil {
		ex.abort(AbortBlocked, "send on nil channel")
	}
	if ch.closed {
		panic(targetPanic{iface{t: types.Typ[types.String], v: "send on closed channel"}})
	}
	if len(ch.buf) >= ch.cap {
		if ch.recvWaiting == 0 {
			ex.abort(AbortBlocked, "send on full channel (cap %d)", ch.cap)
		}
		ch.recvWaiting--
	}
	ch.buf = append(ch.buf, v)
}

func chanRecv(ex *Exec, ch *vchan) (value, bool) {
	if ex.coop() {
		return coopRecv(ex, ch)
	}
	if ch == nil {
		ex.abort(AbortBlocked, "receive from nil channel")
	}
	if len(ch.buf) > 0 {
		v := ch.buf[0]
		ch.buf = ch.buf[1:]
		return v, true
	}
	if ch.closed {
		return nil, false
	}
	// a goroutine that blocks gives the others a chance to run: the harness-installed idle hook plays that role
	if ex.idleHook != nil && !ex.inHook {
		ex.inHook = true
		call(ex.interp, nil, 0, ex.idleHook, nil)
		ex.inHook = false
		if len(ch.buf) > 0 {
			v := ch.buf[0]
			ch.buf = ch.buf[1:]
			return v, true
		}
		if ch.closed {
			return nil, false
		}
	}
	ex.abort(AbortBlocked, "receive from empty channel")
	return nil, false
}

func chanClose(ch *vchan) {
	if ch == nil {
		panic(targetPanic{iface{t: types.Typ[types.String], v: "close of nil channel"}})
	}
	if ch.closed {
		panic(targetPanic{iface{t: types.Typ[types.String], v: "close of closed channel"}})
	}
	ch.closed = true
}

func doSelect(fr *frame, instr *ssa.Select) value {
	ex := fr.i.x
	var ready []int
	for i, st := range instr.States {
		ch := fr.get(st.Chan).(*vchan)
		if ch == nil {
			continue
		}
		if st.Dir == types.RecvOnly {
			if len(ch.buf) > 0 || ch.closed {
				ready = append(ready, i)
			}
		} else {
			if ch.closed || len(ch.buf) < ch.cap || ch.recvWaiting > 0 {
				ready = append(ready, i)
			}
		}
	}
	if ex.coop() {
		ready = selectReady(fr, instr)
	}
	var handed *waiter
	if ex.coop() && instr.Blocking {
		for len(ready) == 0 {
			// park on every receive case of an unbuffered channel, let the others run, look again
			w := &waiter{}
			for _, st := range instr.States {
				if ch := fr.get(st.Chan).(*vchan); ch != nil && st.Dir == types.RecvOnly && ch.cap == 0 {
					w.park(ch)
				}
			}
			ex.yield("select in " + fr.fn.Name())
			if w.satisfied {
				handed = w
				break
			}
			w.withdraw()
			ready = selectReady(fr, instr)
		}
	}
	if handed != nil {
		// a sender completed against this select: that case is the one taken
		chosen := -1
		for i, st := range instr.States {
			if st.Dir == types.RecvOnly && fr.get(st.Chan).(*vchan) == handed.from {
				chosen = i
				break
			}
		}
		r := tuple{chosen, true}
		for i, st := range instr.States {
			if st.Dir == types.RecvOnly {
				var v value
				if i == chosen {
					v = handed.val
				} else {
					v = zero(st.Chan.Type().Underlying().(*types.Chan).Elem())
				}
				r = append(r, v)
			}
		}
		return r
	}
	if len(ready) == 0 && instr.Blocking && ex.idleHook != nil && !ex.inHook {
		// nothing can proceed: let the harness's idle hook play the other goroutines / the environment, then look again
		ex.inHook = true
		call(ex.interp, nil, 0, ex.idleHook, nil)
		ex.inHook = false
		for i, st := range instr.States {
			ch := fr.get(st.Chan).(*vchan)
			if ch == nil {
				continue
			}
			if st.Dir == types.RecvOnly {
				if len(ch.buf) > 0 || ch.closed {
					ready = append(ready, i)
				}
			} else if ch.closed || len(ch.buf) < ch.cap || ch.recvWaiting > 0 {
				ready = append(ready, i)
			}
		}
	}
	chosen := -1
	switch {
	case len(ready) == 0:
		if instr.Blocking {
			ex.abort(AbortBlocked, "select with no ready case in %s%s", fr.fn, loc(fr.i.prog.Fset, instr.Pos()))
		}
	case len(ready) == 1:
		chosen = ready[0]
	default:
		chosen = ready[ex.choice(len(ready))]
	}
	var recv value
	recvOk := false
	if chosen >= 0 {
		st := instr.States[chosen]
		ch := fr.get(st.Chan).(*vchan)
		if st.Dir == types.RecvOnly {
			recv, recvOk = chanRecv(ex, ch)
		} else {
			chanSend(ex, ch, fr.get(st.Send))
		}
	}
	r := tuple{chosen, recvOk}
	for i, st := range instr.States {
		if st.Dir == types.RecvOnly {
			var v value
			if i == chosen && recvOk {
				v = recv
			} else {
				v = zero(st.Chan.Type().Underlying().(*types.Chan).Elem())
			}
			r = append(r, v)
		}
	}
	return r
}

func selectReady(fr *frame, instr *ssa.Select) []int {
	var ready []int
	for i, st := range instr.States {
		ch := fr.get(st.Chan).(*vchan)
		if ch == nil {
			continue
		}
		if st.Dir == types.RecvOnly {
			if len(ch.buf) > 0 || ch.closed {
				ready = append(ready, i)
			}
		} else if ch.closed || len(ch.buf) < ch.cap || len(ch.waiters) > 0 || (len(ch.buf) == 0 && ch.recvWaiting > 0) {
			ready = append(ready, i)
		}
	}
	return ready
}

func stringType() types.Type { return types.Typ[types.String] }
