package interp

// If-conversion of side-effect-free acyclic regions (short-circuit && / ||, simple conditional expressions):
// instead of forking at a symbolic branch whose two arms only compute values and meet again at one join block,
// the region is evaluated speculatively and the join's phi nodes become ite terms. This removes the path
// explosion the guidance warns about for `&&`/`||` both in harnesses and in the code under test
// (e.g. Raft.canCommit, the up-to-date test in onVoteRequest).

import (
	"go/token"
	"go/types"
	"sync"

	"golang.org/x/tools/go/ssa"
	"verif/engine/smt"
)

type region struct {
	blocks []*ssa.BasicBlock // topological order, excluding the head and the exits
	exits  []*ssa.BasicBlock // one (join: phis become ite terms) or two (one combined decision instead of several)
}

var (
	regionMu    sync.Mutex
	regionCache = map[*ssa.If]*region{}
)

var pureIntrinsics = map[string]bool{"vAnd": true, "vOr": true, "vImp": true, "vNot": true, "vIte64": true, "vIte8": true}

func pureInstr(in ssa.Instruction) bool {
	switch in := in.(type) {
	case *ssa.DebugRef:
		return true
	case *ssa.BinOp:
		switch in.Op {
		case token.QUO, token.REM:
			return false
		}
		// string concatenation/comparison allocate nothing observable
		return true
	case *ssa.UnOp:
		return in.Op != token.ARROW
	case *ssa.Convert:
		_, ok := in.Type().Underlying().(*types.Basic)
		return ok
	case *ssa.ChangeType, *ssa.Field, *ssa.FieldAddr, *ssa.Extract:
		return true
	case *ssa.Call:
		if f, ok := in.Call.Value.(*ssa.Function); ok && in.Call.Method == nil {
			return pureIntrinsics[f.Name()]
		}
		return false
	}
	return false
}

func analyseRegion(head *ssa.If) *region {
	b0 := head.Block()
	if b0.Succs[0] == b0.Succs[1] {
		return nil
	}
	in := map[*ssa.BasicBlock]bool{}
	var order []*ssa.BasicBlock
	var exits []*ssa.BasicBlock
	ok := true
	var visit func(b *ssa.BasicBlock)
	pureBlock := func(b *ssa.BasicBlock) bool {
		if len(b.Instrs) == 0 {
			return false
		}
		for i, x := range b.Instrs {
			if i == len(b.Instrs)-1 {
				switch x.(type) {
				case *ssa.If, *ssa.Jump:
					return true
				}
				return false
			}
			if _, isPhi := x.(*ssa.Phi); isPhi {
				return false
			}
			if !pureInstr(x) {
				return false
			}
		}
		return true
	}
	var work []*ssa.BasicBlock
	consider := func(b *ssa.BasicBlock) {
		if b == b0 {
			ok = false // loop back
			return
		}
		if in[b] {
			return
		}
		// a block belongs to the region if it is pure and all its predecessors are the head or region blocks
		if pureBlock(b) && len(in) < 8 {
			in[b] = true
			work = append(work, b)
			return
		}
		for _, e := range exits {
			if e == b {
				return
			}
		}
		exits = append(exits, b)
		if len(exits) > 2 {
			ok = false
		}
	}
	_ = visit
	consider(b0.Succs[0])
	consider(b0.Succs[1])
	for len(work) > 0 && ok {
		b := work[0]
		work = work[1:]
		for _, s := range b.Succs {
			consider(s)
		}
	}
	if !ok || len(exits) == 0 || len(in) == 0 {
		return nil
	}
	for _, e := range exits {
		if in[e] {
			return nil
		}
	}
	// all predecessors of region blocks must be inside the region or the head; iterate: drop offenders to the join role is not possible -> reject
	for b := range in {
		for _, p := range b.Preds {
			if p != b0 && !in[p] {
				return nil
			}
		}
	}
	// topological order (region is acyclic if Kahn's algorithm consumes it)
	indeg := map[*ssa.BasicBlock]int{}
	for b := range in {
		for _, p := range b.Preds {
			if in[p] {
				indeg[b]++
			}
		}
	}
	var ready []*ssa.BasicBlock
	for b := range in {
		if indeg[b] == 0 {
			ready = append(ready, b)
		}
	}
	for len(ready) > 0 {
		// deterministic: pick lowest index
		mi := 0
		for i := range ready {
			if ready[i].Index < ready[mi].Index {
				mi = i
			}
		}
		b := ready[mi]
		ready = append(ready[:mi], ready[mi+1:]...)
		order = append(order, b)
		for _, s := range b.Succs {
			if in[s] {
				indeg[s]--
				if indeg[s] == 0 {
					ready = append(ready, s)
				}
			}
		}
	}
	if len(order) != len(in) {
		return nil // cyclic
	}
	// an exit must not list the same predecessor twice (cannot tell the phi edges apart)
	for _, e := range exits {
		seen := map[*ssa.BasicBlock]bool{}
		for _, p := range e.Preds {
			if (p == b0 || in[p]) && seen[p] {
				return nil
			}
			seen[p] = true
		}
	}
	return &region{blocks: order, exits: exits}
}

type joinEdge struct {
	from *ssa.BasicBlock
	cond *smt.Term
}

// tryMerge attempts if-conversion at a symbolic If. On success the frame is positioned at the join block with its
// phis already assigned.
func (fr *frame) tryMerge(head *ssa.If, cond sym) (merged bool) {
	regionMu.Lock()
	rg, cached := regionCache[head]
	if !cached {
		rg = analyseRegion(head)
		regionCache[head] = rg
	}
	regionMu.Unlock()
	if rg == nil {
		return false
	}
	c := cond.t.C
	b0 := head.Block()
	condOf := map[*ssa.BasicBlock]*smt.Term{}
	exitEdges := map[*ssa.BasicBlock][]joinEdge{}
	isExit := func(b *ssa.BasicBlock) bool {
		for _, e := range rg.exits {
			if e == b {
				return true
			}
		}
		return false
	}
	addEdge := func(from, to *ssa.BasicBlock, ec *smt.Term) {
		if ec.IsConst() && ec.Val == 0 {
			return
		}
		if isExit(to) {
			exitEdges[to] = append(exitEdges[to], joinEdge{from, ec})
			return
		}
		if prev, ok := condOf[to]; ok {
			condOf[to] = c.Or(prev, ec)
		} else {
			condOf[to] = ec
		}
	}
	addEdge(b0, b0.Succs[0], cond.t)
	addEdge(b0, b0.Succs[1], c.Not(cond.t))

	// speculative evaluation; any panic (nil dereference etc.) abandons the attempt and the caller forks instead
	okRun := func() (ok bool) {
		defer func() {
			if r := recover(); r != nil {
				if a, isAbort := r.(abortPath); isAbort {
					panic(a)
				}
				ok = false
			}
		}()
		for _, b := range rg.blocks {
			bc, reached := condOf[b]
			if !reached {
				continue
			}
			for i, in := range b.Instrs {
				if i == len(b.Instrs)-1 {
					switch t := in.(type) {
					case *ssa.Jump:
						addEdge(b, b.Succs[0], bc)
					case *ssa.If:
						switch cv := fr.get(t.Cond).(type) {
						case bool:
							if cv {
								addEdge(b, b.Succs[0], bc)
							} else {
								addEdge(b, b.Succs[1], bc)
							}
						case sym:
							addEdge(b, b.Succs[0], c.And(bc, cv.t))
							addEdge(b, b.Succs[1], c.And(bc, c.Not(cv.t)))
						}
					}
					break
				}
				visitInstr(fr, in)
			}
		}
		return true
	}()
	if !okRun || len(exitEdges) == 0 {
		return false
	}
	// choose the exit: with two live exits this is one combined decision
	var join *ssa.BasicBlock
	var live []*ssa.BasicBlock
	for _, e := range rg.exits {
		if len(exitEdges[e]) > 0 {
			live = append(live, e)
		}
	}
	if len(live) == 1 {
		join = live[0]
	} else {
		cx := c.False
		for _, e := range exitEdges[live[0]] {
			cx = c.Or(cx, e.cond)
		}
		if fr.i.x.decide(cx) {
			join = live[0]
		} else {
			join = live[1]
		}
	}
	edges := exitEdges[join]
	// phis of the join
	var phis []*ssa.Phi
	for _, in := range join.Instrs {
		p, ok := in.(*ssa.Phi)
		if !ok {
			break
		}
		phis = append(phis, p)
	}
	predIdx := func(b *ssa.BasicBlock) int {
		for i, p := range join.Preds {
			if p == b {
				return i
			}
		}
		return -1
	}
	vals := make([]value, len(phis))
	for pi, phi := range phis {
		var res value
		for ei := len(edges) - 1; ei >= 0; ei-- {
			e := edges[ei]
			idx := predIdx(e.from)
			if idx < 0 {
				return false
			}
			v := fr.get(phi.Edges[idx])
			if res == nil {
				res = v
				continue
			}
			k, scalar := valueKind(v)
			_, scalar2 := valueKind(res)
			if scalar && scalar2 {
				res = mkVal(c.Ite(e.cond, termOf(c, v), termOf(c, res)), k)
				continue
			}
			if !sameValue(v, res) {
				return false
			}
		}
		vals[pi] = res
	}
	for pi, phi := range phis {
		fr.env[phi] = vals[pi]
	}
	fr.prevBlock, fr.block = b0, join
	fr.phisDone = true
	return true
}

// sameValue: cheap identity test for non-scalar phi operands.
func sameValue(a, b value) bool {
	switch a := a.(type) {
	case string:
		bs, ok := b.(string)
		return ok && a == bs
	case *value:
		bp, ok := b.(*value)
		return ok && a == bp
	case *vchan:
		bp, ok := b.(*vchan)
		return ok && a == bp
	case *smap:
		bp, ok := b.(*smap)
		return ok && a == bp
	}
	return false
}
