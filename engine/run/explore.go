package run

import (
	"fmt"
	"os"
	"sort"
	"strings"
	"sync"
	"time"

	"golang.org/x/tools/go/ssa"

	"verif/engine/interp"
	"verif/engine/smt"
)

// HarnessResult aggregates all paths of one harness.
type HarnessResult struct {
	Check        *Check
	Paths        int
	Completed    int
	Infeasible   int
	Stopped      int
	Inconclusive map[string]int // kind -> count
	InconclMsgs  []string
	Reached      map[string]int
	Asserts      map[string]int
	Folded       map[string]int
	Violations   []interp.Violation
	Queries      map[string]int
	SolverTime   time.Duration
	SolverErrors int
	Wall         time.Duration
	Funcs        map[string]bool
	Stubs        map[string]bool
	Sample       string
	SamplePC     []string
	Steps        int
	MaxTrail     int
	Truncated    bool
}

type Options struct {
	Workers      int
	SolverName   string
	QueryTimeout time.Duration
	MaxPaths     int
	Verbose      bool
	Deadline     time.Time
}

// Explore runs all paths of a harness (re-execution DFS over decision prefixes, in parallel).
func Explore(l *Loaded, c *Check, o Options) (*HarnessResult, error) {
	redir, err := l.Redirects(c.Stubs)
	if err != nil {
		return nil, err
	}
	hr := &HarnessResult{Check: c, Inconclusive: map[string]int{}, Reached: map[string]int{}, Asserts: map[string]int{}, Folded: map[string]int{},
		Queries: map[string]int{}, Funcs: map[string]bool{}, Stubs: map[string]bool{}}
	t0 := time.Now()
	solverName := o.SolverName
	if c.Solver != "" {
		solverName = c.Solver
	}

	var mu sync.Mutex
	cond := sync.NewCond(&mu)
	queue := [][]interp.Decision{nil}
	active := 0
	done := false
	seenViol := map[string]bool{}

	worker := func(w int) {
		ctx := smt.NewCtx()
		s, err := smt.NewSolver(solverName, o.QueryTimeout)
		if err != nil {
			mu.Lock()
			hr.Inconclusive["SOLVER-START"]++
			hr.InconclMsgs = append(hr.InconclMsgs, err.Error())
			done = true
			cond.Broadcast()
			mu.Unlock()
			return
		}
		if w == 0 && os.Getenv("VERIF_SMTLOG") != "" {
			if f, err := os.Create(os.Getenv("VERIF_SMTLOG")); err == nil {
				s.Log = f
			}
		}
		defer func() {
			mu.Lock()
			for r, n := range s.Queries {
				hr.Queries[r.String()] += n
			}
			hr.SolverTime += s.Time
			hr.SolverErrors += s.Errors
			if s.Errors > 0 {
				hr.InconclMsgs = append(hr.InconclMsgs, "solver error: "+s.LastErr)
			}
			mu.Unlock()
			s.Close()
		}()
		npaths := 0
		for {
			mu.Lock()
			for len(queue) == 0 && active > 0 && !done {
				cond.Wait()
			}
			if done || (len(queue) == 0 && active == 0) {
				done = true
				cond.Broadcast()
				mu.Unlock()
				return
			}
			// DFS: take the most recently queued prefix (shares the longest prefix with what this solver has seen)
			prefix := queue[len(queue)-1]
			queue = queue[:len(queue)-1]
			active++
			mu.Unlock()

			// a fresh term context every so often keeps the hash-cons table small
			npaths++
			if npaths%200 == 0 {
				ctx = smt.NewCtx()
				s.Close()
				s2, err := smt.NewSolver(solverName, o.QueryTimeout)
				if err == nil {
					s2.Queries, s2.Time, s2.Errors = s.Queries, s.Time, s.Errors
					s = s2
				}
			}
			res := l.Prog.RunPath(c.Fn, prefix, ctx, s, interp.RunOpts{Redirect: redir, MaxDecisions: c.MaxDec, MaxConcretize: c.MaxConc, BlockIsViolation: c.OnBlock == "violation", Coop: strings.HasPrefix(c.Sched, "coop"), Deviate: coopDeviate(c.Sched), MaxSteps: c.MaxSteps, UnwindIsViolation: c.OnUnwind == "violation"})

			mu.Lock()
			active--
			hr.Paths++
			hr.Steps += res.Steps
			if len(res.Trail) > hr.MaxTrail {
				hr.MaxTrail = len(res.Trail)
			}
			for _, p := range res.Pending {
				queue = append(queue, p)
			}
			for k, n := range res.Reached {
				hr.Reached[k] += n
			}
			for k, n := range res.Asserts {
				hr.Asserts[k] += n
			}
			for k, n := range res.Folded {
				hr.Folded[k] += n
			}
			for f := range res.Funcs {
				hr.Funcs[funcKey(l, f)] = true
			}
			for k := range res.Stubs {
				hr.Stubs[k] = true
			}
			if hr.Sample == "" && res.Sample != "" {
				hr.Sample, hr.SamplePC = res.Sample, res.SamplePC
			}
			for _, v := range res.Violations {
				if !seenViol[v.ID] || len(hr.Violations) < 50 {
					hr.Violations = append(hr.Violations, v)
				}
				seenViol[v.ID] = true
			}
			if k, msg, ok := res.AbortKindMsg(); ok {
				switch k {
				case interp.AbortInfeasible:
					hr.Infeasible++
				case interp.AbortStop:
					hr.Stopped++
				default:
					hr.Inconclusive[k.String()]++
					if len(hr.InconclMsgs) < 10 {
						hr.InconclMsgs = append(hr.InconclMsgs, fmt.Sprintf("%s: %s (trail %v)", k, msg, trailStr(res.Trail)))
					}
				}
			} else {
				hr.Completed++
			}
			if o.Verbose {
				fmt.Fprintf(os.Stderr, "  [%s] path %d trail=%s steps=%d abort=%v viol=%d panic=%q\n", c.Name, hr.Paths, trailStr(res.Trail), res.Steps, res.Abort, len(res.Violations), res.Panic)
			}
			if o.MaxPaths > 0 && hr.Paths >= o.MaxPaths && (len(queue) > 0 || active > 0) {
				hr.Truncated = true
				done = true
			}
			if !o.Deadline.IsZero() && time.Now().After(o.Deadline) && (len(queue) > 0 || active > 0) {
				hr.Truncated = true
				done = true
			}
			cond.Broadcast()
			mu.Unlock()
		}
	}
	var wg sync.WaitGroup
	n := o.Workers
	if n < 1 {
		n = 1
	}
	for w := 0; w < n; w++ {
		wg.Add(1)
		go func(w int) {
			defer wg.Done()
			worker(w)
		}(w)
	}
	wg.Wait()
	hr.Wall = time.Since(t0)
	if hr.Truncated {
		hr.Inconclusive["PATH-BUDGET"]++
		hr.InconclMsgs = append(hr.InconclMsgs, fmt.Sprintf("exploration stopped after %d paths with work left", hr.Paths))
	}
	for _, r := range c.Reach {
		if r != "" && hr.Reached[r] == 0 {
			hr.Inconclusive["VACUOUS"]++
			hr.InconclMsgs = append(hr.InconclMsgs, "reachability witness not reached: "+r)
		}
	}
	sort.Slice(hr.Violations, func(i, j int) bool { return hr.Violations[i].ID < hr.Violations[j].ID })
	return hr, nil
}

func trailStr(t []interp.Decision) string {
	s := ""
	for i, d := range t {
		if i > 0 {
			s += ","
		}
		if i > 40 {
			s += "…"
			break
		}
		s += fmt.Sprint(d.Val)
	}
	return "[" + s + "]"
}

func funcKey(l *Loaded, f *ssa.Function) string {
	pos := l.Prog.Prog.Fset.Position(f.Pos())
	if pos.IsValid() {
		return fmt.Sprintf("%s (%s:%d)", f.String(), pos.Filename, pos.Line)
	}
	return f.String()
}

// Replay re-runs one harness in concrete mode with the given model and decision trail.
func Replay(l *Loaded, c *Check, model map[string]uint64, trail []interp.Decision) (*interp.PathResult, error) {
	redir, err := l.Redirects(c.Stubs)
	if err != nil {
		return nil, err
	}
	ctx := smt.NewCtx()
	if model == nil {
		model = map[string]uint64{}
	}
	res := l.Prog.RunPath(c.Fn, trail, ctx, nil, interp.RunOpts{Redirect: redir, Concrete: model, MaxDecisions: c.MaxDec, MaxConcretize: c.MaxConc, BlockIsViolation: c.OnBlock == "violation", Coop: strings.HasPrefix(c.Sched, "coop"), Deviate: coopDeviate(c.Sched), MaxSteps: c.MaxSteps, UnwindIsViolation: c.OnUnwind == "violation"})
	return res, nil
}

// coopDeviate: "coop" = round robin only; "coop+N" = every schedule within N deviations from round robin.
func coopDeviate(s string) int {
	n := 0
	if i := strings.IndexByte(s, '+'); i >= 0 {
		fmt.Sscan(s[i+1:], &n)
	}
	return n
}
