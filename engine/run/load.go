// Package run loads /repo with the harness overlay, discovers harnesses and explores their paths.
package run

import (
	"bufio"
	"fmt"
	"go/types"
	"os"
	"path/filepath"
	"sort"
	"strings"

	"golang.org/x/tools/go/packages"
	"golang.org/x/tools/go/ssa"
	"golang.org/x/tools/go/ssa/ssautil"

	"verif/engine/interp"
)

const ModPath = "github.com/santhosh-tekuri/raft"

// Check is one harness function with its declared options.
type Check struct {
	Prop     string
	Name     string // function name
	Pkg      string // package path
	Tier     string // "quick" (runs in both tiers) or "thorough"
	Stubs    []string
	Reach    []string
	Desc     string
	Bounds   string
	Expect   string // "" or "finding:<key>"
	MaxDec   int
	MaxConc  int
	Solver   string
	MaxSteps int    // instruction budget per path (default 2,000,000)
	OnUnwind string // "violation": exceeding the instruction budget is a violation (livelock) instead of inconclusive
	Sched    string // "coop": cooperative goroutines (interp/sched.go)
	OnBlock  string // "violation": a path blocked forever is a violation (deadlock) instead of inconclusive
	File     string
	Fn       *ssa.Function
}

// Validator is a stub-free function run both natively and in the engine (translator validation).
type Validator struct {
	Props string
	Name  string
	Pkg   string
	Fn    *ssa.Function
}

type Loaded struct {
	Validators []*Validator
	Prog       *interp.Program
	Checks     []*Check
	StubSets   map[string]map[string]string // set -> from -> to
	RepoDir    string
	Files      []string
	pkgs       map[string]*ssa.Package
}

func RepoDir() string {
	if d := os.Getenv("VERIF_REPO"); d != "" {
		return d
	}
	return "/repo"
}

func VerifDir() string {
	if d := os.Getenv("VERIF_DIR"); d != "" {
		return d
	}
	return "/verif"
}

// parseDirectives scans a harness file for //verif: lines.
func parseDirectives(path, pkgPath string, l *Loaded) error {
	f, err := os.Open(path)
	if err != nil {
		return err
	}
	defer f.Close()
	sc := bufio.NewScanner(f)
	sc.Buffer(make([]byte, 1<<20), 1<<20)
	var pending *Check
	var pendingV *Validator
	for sc.Scan() {
		line := strings.TrimSpace(sc.Text())
		switch {
		case strings.HasPrefix(line, "//verif:stub "):
			fs := strings.Fields(line[len("//verif:stub "):])
			if len(fs) != 3 {
				return fmt.Errorf("%s: bad stub directive: %s", path, line)
			}
			set, from, to := fs[0], fs[1], fs[2]
			from = strings.ReplaceAll(from, "raft.", ModPath+".")
			from = strings.ReplaceAll(from, "raft/", ModPath+"/")
			if l.StubSets[set] == nil {
				l.StubSets[set] = map[string]string{}
			}
			l.StubSets[set][from] = pkgPath + "." + to
		case strings.HasPrefix(line, "//verif:validate "):
			pendingV = &Validator{Props: strings.TrimSpace(line[len("//verif:validate "):]), Pkg: pkgPath}
		case strings.HasPrefix(line, "//verif:check "):
			c := &Check{Pkg: pkgPath, Tier: "quick", File: path}
			rest := line[len("//verif:check "):]
			for _, kv := range splitKV(rest) {
				k, v, ok := strings.Cut(kv, "=")
				if !ok {
					c.Prop = kv
					continue
				}
				v = strings.Trim(v, "\"")
				switch k {
				case "tier":
					c.Tier = v
				case "stubs":
					c.Stubs = strings.Split(v, ",")
				case "reach":
					c.Reach = strings.Split(v, ",")
				case "desc":
					c.Desc = v
				case "bounds":
					c.Bounds = v
				case "expect":
					c.Expect = v
				case "maxdec":
					fmt.Sscan(v, &c.MaxDec)
				case "maxconc":
					fmt.Sscan(v, &c.MaxConc)
				case "solver":
					c.Solver = v
				case "onblock":
					c.OnBlock = v
				case "sched":
					c.Sched = v
				case "maxsteps":
					fmt.Sscan(v, &c.MaxSteps)
				case "onunwind":
					c.OnUnwind = v
				default:
					return fmt.Errorf("%s: unknown key %q in %s", path, k, line)
				}
			}
			pending = c
		case strings.HasPrefix(line, "func ") && pendingV != nil:
			name := line[len("func "):]
			if i := strings.IndexByte(name, '('); i >= 0 {
				name = name[:i]
			}
			pendingV.Name = name
			l.Validators = append(l.Validators, pendingV)
			pendingV = nil
		case strings.HasPrefix(line, "func ") && pending != nil:
			name := line[len("func "):]
			if i := strings.IndexByte(name, '('); i >= 0 {
				name = name[:i]
			}
			pending.Name = name
			l.Checks = append(l.Checks, pending)
			pending = nil
		}
	}
	return sc.Err()
}

func splitKV(s string) []string {
	var out []string
	var cur strings.Builder
	inq := false
	for _, r := range s {
		switch {
		case r == '"':
			inq = !inq
			cur.WriteRune(r)
		case r == ' ' && !inq:
			if cur.Len() > 0 {
				out = append(out, cur.String())
				cur.Reset()
			}
		default:
			cur.WriteRune(r)
		}
	}
	if cur.Len() > 0 {
		out = append(out, cur.String())
	}
	return out
}

// Load builds the SSA program for /repo's current working tree with the harness overlay.
func Load() (*Loaded, error) {
	repo := RepoDir()
	l := &Loaded{StubSets: map[string]map[string]string{}, RepoDir: repo, pkgs: map[string]*ssa.Package{}}
	overlay := map[string][]byte{}
	for _, sub := range []struct{ dir, pkg, dst string }{
		{"harness/raft", ModPath, ""},
		{"harness/log", ModPath + "/log", "log"},
	} {
		files, _ := filepath.Glob(filepath.Join(VerifDir(), sub.dir, "*.go"))
		sort.Strings(files)
		for _, f := range files {
			if strings.HasSuffix(f, "_native.go") || strings.HasSuffix(f, "_test.go") {
				continue
			}
			b, err := os.ReadFile(f)
			if err != nil {
				return nil, err
			}
			dst := filepath.Join(repo, sub.dst, "zz_verif_"+filepath.Base(f))
			overlay[dst] = b
			l.Files = append(l.Files, f)
			if err := parseDirectives(f, sub.pkg, l); err != nil {
				return nil, err
			}
		}
	}
	cfg := &packages.Config{
		Mode:    packages.LoadAllSyntax,
		Dir:     repo,
		Overlay: overlay,
		Env:     append(os.Environ(), "GOFLAGS=-mod=mod", "GOPROXY=off", "GOSUMDB=off", "GOTOOLCHAIN=local"),
	}
	pkgs, err := packages.Load(cfg, ModPath, ModPath+"/log", ModPath+"/mmap")
	if err != nil {
		return nil, err
	}
	nerr := 0
	packages.Visit(pkgs, nil, func(p *packages.Package) {
		for _, e := range p.Errors {
			if nerr < 20 {
				fmt.Fprintln(os.Stderr, "load error:", e)
			}
			nerr++
		}
	})
	if nerr > 0 {
		return nil, fmt.Errorf("%d package load errors (harness no longer type-checks against this tree?)", nerr)
	}
	prog, spkgs := ssautil.AllPackages(pkgs, ssa.InstantiateGenerics)
	prog.Build()
	p := &interp.Program{
		Prog:     prog,
		InitPkgs: map[string]bool{},
		Sizes:    types.SizesFor("gc", "amd64"),
	}
	for _, ip := range []string{ModPath, ModPath + "/log", ModPath + "/mmap",
		"io", "io/ioutil", "strconv", "bytes", "bufio", "sort", "strings", "encoding/binary", "unicode/utf8",
		"internal/oserror", "io/fs", "path/filepath"} {
		p.InitPkgs[ip] = true
	}
	for _, sp := range spkgs {
		if sp == nil {
			continue
		}
		l.pkgs[sp.Pkg.Path()] = sp
		if sp.Pkg.Path() == ModPath || sp.Pkg.Path() == ModPath+"/log" {
			p.HarnessPk = append(p.HarnessPk, sp)
		}
	}
	l.Prog = p
	for _, v := range l.Validators {
		sp := l.pkgs[v.Pkg]
		if sp == nil || sp.Func(v.Name) == nil {
			return nil, fmt.Errorf("validator %s.%s not found", v.Pkg, v.Name)
		}
		v.Fn = sp.Func(v.Name)
	}
	for _, c := range l.Checks {
		sp := l.pkgs[c.Pkg]
		if sp == nil {
			return nil, fmt.Errorf("package %s not loaded", c.Pkg)
		}
		c.Fn = sp.Func(c.Name)
		if c.Fn == nil {
			return nil, fmt.Errorf("harness %s.%s not found", c.Pkg, c.Name)
		}
	}
	return l, nil
}

// Redirects resolves the union of the named stub sets to SSA functions.
func (l *Loaded) Redirects(sets []string) (map[string]*ssa.Function, error) {
	out := map[string]*ssa.Function{}
	for _, s := range sets {
		if s == "" {
			continue
		}
		m, ok := l.StubSets[s]
		if !ok {
			return nil, fmt.Errorf("unknown stub set %q", s)
		}
		for from, to := range m {
			i := strings.LastIndex(to, ".")
			sp := l.pkgs[to[:i]]
			if sp == nil {
				return nil, fmt.Errorf("stub target package %s not loaded", to[:i])
			}
			fn := sp.Func(to[i+1:])
			if fn == nil {
				return nil, fmt.Errorf("stub target %s not found", to)
			}
			out[from] = fn
		}
	}
	return out, nil
}
