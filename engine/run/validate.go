package run

import (
	"encoding/json"
	"fmt"
	"os"
	"os/exec"
	"path/filepath"
	"regexp"
	"strconv"
	"strings"

	"verif/engine/interp"
	"verif/engine/smt"
)

// ValidationResult: one function run natively and in the engine.
type ValidationResult struct {
	Name   string `json:"name"`
	Native string `json:"native"`
	Engine string `json:"engine"`
	Same   bool   `json:"same"`
}

func hasProp(list, prop string) bool {
	for _, p := range strings.Split(list, ",") {
		if strings.TrimSpace(p) == prop {
			return true
		}
	}
	return false
}

// Validate runs the validators registered for prop through the engine (concrete mode) and natively (go test with the
// harness files overlaid on /repo), and compares the printed results.
func Validate(l *Loaded, prop string) ([]ValidationResult, error) {
	var vs []*Validator
	for _, v := range l.Validators {
		if hasProp(v.Props, prop) {
			vs = append(vs, v)
		}
	}
	if len(vs) == 0 {
		return nil, nil
	}
	// engine side
	eng := map[string]string{}
	for _, v := range vs {
		res := l.Prog.RunPath(v.Fn, nil, smt.NewCtx(), nil, interp.RunOpts{Concrete: map[string]uint64{}, Coop: strings.HasSuffix(v.Name, "_coop")})
		if res.Abort != nil {
			eng[v.Name] = "ENGINE-ABORT " + res.Abort.String()
		} else if res.Panic != "" {
			eng[v.Name] = "ENGINE-PANIC " + res.Panic
		} else {
			eng[v.Name] = res.Return
		}
	}
	// native side: overlay every harness file plus a generated test per package
	tmp, err := os.MkdirTemp("", "verif-validate")
	if err != nil {
		return nil, err
	}
	defer os.RemoveAll(tmp)
	repl := map[string]string{}
	for _, f := range l.Files {
		dst := "zz_verif_" + filepath.Base(f)
		if strings.Contains(f, "/harness/log/") {
			repl[filepath.Join(l.RepoDir, "log", dst)] = f
		} else {
			repl[filepath.Join(l.RepoDir, dst)] = f
		}
	}
	byPkg := map[string][]*Validator{}
	for _, v := range vs {
		byPkg[v.Pkg] = append(byPkg[v.Pkg], v)
	}
	var pkgs []string
	for pkg, list := range byPkg {
		name, sub := "raft", ""
		if strings.HasSuffix(pkg, "/log") {
			name, sub = "log", "log"
		}
		var sb strings.Builder
		fmt.Fprintf(&sb, "package %s\n\nimport (\n\t\"fmt\"\n\t\"testing\"\n)\n\nfunc TestVerifValidate(t *testing.T) {\n", name)
		for _, v := range list {
			fmt.Fprintf(&sb, "\tfmt.Printf(\"VD %s=%%q\\n\", %s())\n", v.Name, v.Name)
		}
		sb.WriteString("}\n")
		gen := filepath.Join(tmp, name+"_validate_test.go")
		if err := os.WriteFile(gen, []byte(sb.String()), 0o644); err != nil {
			return nil, err
		}
		repl[filepath.Join(l.RepoDir, sub, "zz_verif_validate_test.go")] = gen
		pkgs = append(pkgs, "./"+sub)
	}
	ov, _ := json.Marshal(map[string]interface{}{"Replace": repl})
	ovf := filepath.Join(tmp, "overlay.json")
	os.WriteFile(ovf, ov, 0o644)
	args := append([]string{"test", "-vet=off", "-count=1", "-overlay", ovf, "-run", "^TestVerifValidate$", "-v"}, pkgs...)
	cmd := exec.Command("go", args...)
	cmd.Dir = l.RepoDir
	cmd.Env = append(os.Environ(), "GOFLAGS=-mod=mod", "GOPROXY=off", "GOSUMDB=off", "GOTOOLCHAIN=local")
	outb, _ := cmd.CombinedOutput()
	nat := map[string]string{}
	re := regexp.MustCompile(`(?m)^VD (\w+)=(".*")$`)
	for _, m := range re.FindAllStringSubmatch(string(outb), -1) {
		if s, err := strconv.Unquote(m[2]); err == nil {
			nat[m[1]] = s
		}
	}
	var out []ValidationResult
	for _, v := range vs {
		n, ok := nat[v.Name]
		if !ok {
			n = "NATIVE-MISSING: " + lastLines(string(outb), 6)
		}
		out = append(out, ValidationResult{Name: v.Name, Native: n, Engine: eng[v.Name], Same: ok && n == eng[v.Name]})
	}
	return out, nil
}

func lastLines(s string, n int) string {
	ls := strings.Split(strings.TrimSpace(s), "\n")
	if len(ls) > n {
		ls = ls[len(ls)-n:]
	}
	return strings.Join(ls, " | ")
}
