// vcheck decides one property: it loads /repo's working tree with the harness overlay, symbolically executes
// every harness registered for the property, discharges assertions with an SMT solver, replays counterexamples,
// writes /verif/evidence/<id>.json, and exits 0 / 1 (VIOLATION) / 2 (inconclusive).
package main

import (
	"encoding/json"
	"flag"
	"fmt"
	"os"
	"path/filepath"
	"runtime"
	"sort"
	"strconv"
	"strings"
	"time"

	"verif/engine/interp"
	"verif/engine/run"
)

type Finding struct {
	Property string `json:"property"`
	Key      string `json:"key"` // <harness>/<assertion id>
	What     string `json:"what"`
	Status   string `json:"status"` // "known" | "fixed"
	Commit   string `json:"commit,omitempty"`
}

type ReplayFile struct {
	Property  string            `json:"property"`
	Harness   string            `json:"harness"`
	Assertion string            `json:"assertion"`
	Detail    string            `json:"detail"`
	Model     map[string]uint64 `json:"model"`
	Trail     []interp.Decision `json:"trail"`
	PathCond  []string          `json:"path_condition,omitempty"`
	Replayed  string            `json:"replayed"`
	Native    string            `json:"native,omitempty"`
	HowTo     string            `json:"how_to_replay"`
	ModelHex  map[string]string `json:"model_hex,omitempty"`
}

func main() {
	tier := flag.String("tier", os.Getenv("VERIF_TIER"), "quick|thorough")
	replay := flag.String("replay", "", "replay a counterexample file")
	only := flag.String("only", "", "run only harnesses whose name contains this")
	verbose := flag.Bool("v", false, "verbose")
	workers := flag.Int("workers", 0, "parallel workers per harness")
	list := flag.Bool("list", false, "list harnesses")
	maxPaths := flag.Int("maxpaths", 0, "path budget per harness")
	flag.Parse()
	interp.DebugPC = os.Getenv("VERIF_DEBUG") != ""
	interp.NoMergeGlobal = os.Getenv("VERIF_NOMERGE") != ""
	interp.NoModelCacheGlobal = os.Getenv("VERIF_NOMODELCACHE") != ""
	if *tier == "" {
		*tier = "quick"
	}
	if *replay != "" {
		os.Exit(doReplay(*replay, *verbose))
	}
	if flag.NArg() != 1 && !*list {
		fmt.Fprintln(os.Stderr, "usage: vcheck [--tier quick|thorough] <property-id>")
		os.Exit(2)
	}
	seed := 0
	if s := os.Getenv("VERIF_SEED"); s != "" {
		seed, _ = strconv.Atoi(s)
	}
	t0 := time.Now()
	l, err := run.Load()
	if err != nil {
		fmt.Fprintln(os.Stderr, "ERROR loading:", err)
		os.Exit(2)
	}
	loadT := time.Since(t0)
	if *list {
		for _, c := range l.Checks {
			fmt.Printf("%s %s tier=%s stubs=%v reach=%v\n", c.Prop, c.Name, c.Tier, c.Stubs, c.Reach)
		}
		return
	}
	prop := flag.Arg(0)
	var checks []*run.Check
	for _, c := range l.Checks {
		if !hasProp(c.Prop, prop) {
			continue
		}
		if c.Tier == "thorough" && *tier != "thorough" {
			continue
		}
		if *only != "" && !strings.Contains(c.Name, *only) {
			continue
		}
		checks = append(checks, c)
	}
	if d := os.Getenv("VERIF_DUMP"); d != "" {
		for _, c := range checks {
			if c.Name == d {
				c.Fn.WriteTo(os.Stderr)
			}
		}
	}
	if len(checks) == 0 {
		fmt.Fprintf(os.Stderr, "ERROR: no harness registered for %s\n", prop)
		os.Exit(2)
	}
	nw := *workers
	if nw == 0 {
		nw = runtime.NumCPU()
		if nw > 16 {
			nw = 16
		}
	}
	qt := 60 * time.Second
	if *tier == "thorough" {
		qt = 300 * time.Second
	}
	solverName := os.Getenv("VERIF_SOLVER")
	if solverName == "" {
		solverName = "z3-new"
	}
	findings := loadFindings()
	outDir := filepath.Join(run.VerifDir(), "out", prop)
	os.RemoveAll(outDir)
	os.MkdirAll(outDir, 0o755)

	// translator validation for this property: native vs engine
	vres, verr := run.Validate(l, prop)
	if verr != nil {
		fmt.Fprintln(os.Stderr, "ERROR validation:", verr)
		os.Exit(2)
	}
	validated, vmismatch := 0, 0
	for _, v := range vres {
		if v.Same {
			validated++
		} else {
			vmismatch++
			fmt.Printf("TRANSLATOR-MISMATCH %s\n    native: %q\n    engine: %q\n", v.Name, v.Native, v.Engine)
		}
	}
	if len(vres) > 0 {
		fmt.Printf("translator validation: %d of %d functions agree natively and in the engine\n", validated, len(vres))
	}
	var results []*run.HarnessResult
	// harnesses run one after another, each using all workers (paths are the unit of parallelism)
	for _, c := range checks {
		hr, err := run.Explore(l, c, run.Options{Workers: nw, SolverName: solverName, QueryTimeout: qt, Verbose: *verbose, MaxPaths: *maxPaths})
		if err != nil {
			fmt.Fprintln(os.Stderr, "ERROR:", err)
			os.Exit(2)
		}
		results = append(results, hr)
		fmt.Printf("%-44s paths=%d done=%d infeasible=%d asserts=%d viol=%d inconcl=%v queries=%v solver=%.1fs wall=%.1fs\n",
			c.Name, hr.Paths, hr.Completed, hr.Infeasible, sum(hr.Asserts)+sum(hr.Folded), len(hr.Violations), hr.Inconclusive, hr.Queries, hr.SolverTime.Seconds(), hr.Wall.Seconds())
		for _, m := range hr.InconclMsgs {
			fmt.Printf("    inconclusive: %s\n", m)
		}
	}

	// thorough tier: re-discharge the quick-tier harnesses on a second solver and compare verdicts per assertion id
	var cross []map[string]interface{}
	crossDisagree := 0
	if *tier == "thorough" && os.Getenv("VERIF_NO_CROSS") == "" {
		second := "cvc5"
		if solverName == "cvc5" {
			second = "z3-new"
		}
		for i, c := range checks {
			if c.Tier == "thorough" || c.Solver != "" {
				continue
			}
			hr2, err := run.Explore(l, c, run.Options{Workers: nw, SolverName: second, QueryTimeout: qt, MaxPaths: *maxPaths})
			if err != nil {
				fmt.Fprintln(os.Stderr, "ERROR:", err)
				os.Exit(2)
			}
			a, b := verdicts(results[i]), verdicts(hr2)
			same := a == b
			if !same {
				crossDisagree++
				fmt.Printf("CROSS-SOLVER-DISAGREEMENT %s\n    %s: %s\n    %s: %s\n", c.Name, solverName, a, second, b)
			}
			cross = append(cross, map[string]interface{}{"harness": c.Name, "first": solverName, "second": second, "agree": same,
				"second_queries": hr2.Queries, "second_solver_s": round(hr2.SolverTime.Seconds())})
		}
		fmt.Printf("cross-solver: %d harnesses re-discharged on %s, %d disagreements\n", len(cross), second, crossDisagree)
	}
	crossSolver = cross
	// triage violations: replay each distinct (harness, assertion) once, compare with known findings
	exit := 0
	nviol := 0
	var knownHit []string
	var samples []interface{}
	seen := map[string]bool{}
	for _, hr := range results {
		for _, v := range hr.Violations {
			key := hr.Check.Name + "/" + v.ID
			if seen[key] {
				continue
			}
			seen[key] = true
			rp := filepath.Join(outDir, fmt.Sprintf("%s-%s.json", hr.Check.Name, sanitize(v.ID)))
			rf := ReplayFile{Property: prop, Harness: hr.Check.Name, Assertion: v.ID, Detail: v.Detail, Model: v.Model, Trail: v.Trail, PathCond: v.PathCond,
				HowTo: "cd /verif && ./bin/vcheck --replay " + rp, ModelHex: map[string]string{}}
			for k, x := range v.Model {
				rf.ModelHex[k] = fmt.Sprintf("0x%x", x)
			}
			// concrete replay through the SSA of the current tree
			res, err := run.Replay(l, hr.Check, v.Model, v.Trail)
			reproduced := false
			if err == nil {
				for _, rv := range res.Violations {
					if rv.ID == v.ID {
						reproduced = true
					}
				}
			}
			if reproduced {
				rf.Replayed = "reproduced: concrete re-execution of the real code's SSA with the solver's model fails assertion " + v.ID
			} else {
				rf.Replayed = "NOT reproduced in concrete re-execution"
				if res != nil && res.Abort != nil {
					rf.Replayed += ": " + res.Abort.String()
				}
			}
			b, _ := json.MarshalIndent(rf, "", " ")
			os.WriteFile(rp, b, 0o644)
			if !reproduced {
				fmt.Printf("ENGINE-BUG: counterexample for %s did not reproduce (%s); see %s\n", key, rf.Replayed, rp)
				if exit == 0 {
					exit = 2
				}
				continue
			}
			if f := findings[key]; f != nil && f.Status == "known" {
				knownHit = append(knownHit, key)
				fmt.Printf("KNOWN-FINDING: property=%s %s: %s\n", prop, key, f.What)
				continue
			}
			nviol++
			exit = 1
			fmt.Printf("VIOLATION property=%s replay=%s\n", prop, rp)
			fmt.Printf("    harness=%s assertion=%s %s\n", hr.Check.Name, v.ID, v.Detail)
			if len(samples) < 3 {
				samples = append(samples, map[string]interface{}{"violation": key, "model": rf.ModelHex, "detail": v.Detail})
			}
		}
	}
	inconcl := 0
	for _, hr := range results {
		for _, n := range hr.Inconclusive {
			inconcl += n
		}
		if hr.SolverErrors > 0 {
			inconcl++
		}
	}
	inconcl += vmismatch + crossDisagree
	if inconcl > 0 && exit == 0 {
		exit = 2
	}
	validation = vres
	writeEvidence(prop, *tier, seed, l, results, samples, knownHit, nviol, inconcl, time.Since(t0), loadT)
	if exit == 2 {
		fmt.Printf("INCONCLUSIVE property=%s (%d inconclusive results; see above)\n", prop, inconcl)
	}
	if exit == 0 {
		fmt.Printf("OK property=%s tier=%s harnesses=%d wall=%.1fs\n", prop, *tier, len(results), time.Since(t0).Seconds())
	}
	os.Exit(exit)
}

// a harness may serve several properties: //verif:check C19,C08 ...
func hasProp(list, prop string) bool {
	for _, p := range strings.Split(list, ",") {
		if p == prop {
			return true
		}
	}
	return false
}

func sum(m map[string]int) int {
	n := 0
	for _, v := range m {
		n += v
	}
	return n
}

func sanitize(s string) string {
	r := strings.NewReplacer("/", "_", " ", "_", ":", "_")
	return r.Replace(s)
}

func loadFindings() map[string]*Finding {
	out := map[string]*Finding{}
	b, err := os.ReadFile(filepath.Join(run.VerifDir(), "known_findings.json"))
	if err != nil {
		return out
	}
	var fs []Finding
	if err := json.Unmarshal(b, &fs); err != nil {
		fmt.Fprintln(os.Stderr, "ERROR: known_findings.json:", err)
		os.Exit(2)
	}
	for i := range fs {
		out[fs[i].Key] = &fs[i] // keyed by harness/assertion: a harness may serve several properties
	}
	return out
}

var validation []run.ValidationResult
var crossSolver []map[string]interface{}

// verdicts: a canonical summary of what a run decided: per assertion id the number of discharged instances, the set of
// violated ids, and the inconclusive kinds.
func verdicts(hr *run.HarnessResult) string {
	var parts []string
	for _, id := range keysInt(hr.Asserts) {
		parts = append(parts, fmt.Sprintf("%s=%d", id, hr.Asserts[id]))
	}
	v := map[string]bool{}
	for _, x := range hr.Violations {
		v[x.ID] = true
	}
	parts = append(parts, "violated:"+strings.Join(keys(v), ","))
	for _, k := range keysInt(hr.Inconclusive) {
		parts = append(parts, "inconclusive:"+k)
	}
	parts = append(parts, fmt.Sprintf("paths=%d", hr.Paths))
	return strings.Join(parts, " ")
}

func keysInt(m map[string]int) []string {
	var out []string
	for k := range m {
		out = append(out, k)
	}
	sort.Strings(out)
	return out
}

func writeEvidence(prop, tier string, seed int, l *run.Loaded, results []*run.HarnessResult, samples []interface{}, known []string, nviol, inconcl int, wall, loadT time.Duration) {
	obligations, discharged, paths, steps := 0, 0, 0, 0
	queries := map[string]int{}
	var solverS float64
	funcs := map[string]bool{}
	stubs := map[string]bool{}
	var harnesses []map[string]interface{}
	var bounds []string
	for _, hr := range results {
		// an obligation is one (harness, assertion id) pair; it is discharged if the solver answered unsat on every path reaching it
		ids := map[string]bool{}
		for id := range hr.Asserts {
			ids[id] = true
		}
		for id := range hr.Folded {
			ids[id] = true
		}
		violated := map[string]bool{}
		for _, v := range hr.Violations {
			ids[v.ID] = true
			violated[v.ID] = true
		}
		obligations += len(ids)
		for id := range ids {
			if !violated[id] {
				discharged++
			}
		}
		paths += hr.Paths
		steps += hr.Steps
		for k, n := range hr.Queries {
			queries[k] += n
		}
		solverS += hr.SolverTime.Seconds()
		for f := range hr.Funcs {
			if strings.Contains(f, run.ModPath) && !strings.Contains(f, "zz_verif_") {
				funcs[f] = true
			}
		}
		for s := range hr.Stubs {
			stubs[s] = true
		}
		h := map[string]interface{}{
			"harness": hr.Check.Name, "paths": hr.Paths, "completed": hr.Completed, "infeasible": hr.Infeasible,
			"assertion_instances_discharged_by_solver": hr.Asserts, "assertion_instances_reduced_to_true_by_rewriting": sum(hr.Folded), "violations": len(hr.Violations), "inconclusive": hr.Inconclusive,
			"queries": hr.Queries, "solver_s": round(hr.SolverTime.Seconds()), "wall_s": round(hr.Wall.Seconds()),
			"reached": hr.Reached, "max_decisions_on_a_path": hr.MaxTrail, "desc": hr.Check.Desc, "bounds": hr.Check.Bounds,
		}
		harnesses = append(harnesses, h)
		if hr.Check.Bounds != "" {
			bounds = append(bounds, hr.Check.Name+": "+hr.Check.Bounds)
		}
		if hr.Sample != "" && len(samples) < 6 {
			samples = append(samples, map[string]interface{}{"harness": hr.Check.Name, "discharged_obligation": hr.Sample, "path_condition": hr.SamplePC})
		}
	}
	if len(samples) == 0 {
		samples = append(samples, "no obligation reached")
	}
	fl := keys(funcs)
	sl := keys(stubs)
	assumptions := []string{
		"bounded: see coverage.bounds; nothing outside those bounds is claimed",
		"goroutines are sequentialised: `go f()` is recorded and only run where a harness says so; channels are FIFO queues; mutexes are no-ops (no data-race or deadlock detection)",
		"Go map iteration order is insertion order (not permuted) unless a harness permutes explicitly",
		"integers are 64/32/16/8-bit bit-vectors with Go wrap-around semantics; no floats",
		"the SSA builder (x/tools v0.29.0), the solver (z3 5.1.0 as z3-new; VERIF_SOLVER selects z3 4.8.12 or cvc5) and the engine's instruction semantics are trusted; translator validation and concrete replay are the mitigations",
	}
	for _, s := range sl {
		assumptions = append(assumptions, "stub: "+s)
	}
	ev := map[string]interface{}{
		"property_id": prop,
		"tier":        tier,
		"seed":        seed,
		"level":       "other",
		"coverage": map[string]interface{}{
			"explanation":                   "bounded symbolic execution of the repository's own functions (compiled from /repo's working tree to go/ssa on this run) with inputs, pre-states and choice points as SMT variables; every assertion instance is a solver query pc ∧ ¬assertion; unsat on every path = holds for all values within the bounds; sat = counterexample, replayed concretely before being reported",
			"obligations":                   obligations,
			"discharged":                    discharged,
			"paths":                         paths,
			"ssa_instructions":              steps,
			"queries":                       queries,
			"solver_s":                      round(solverS),
			"load_build_s":                  round(loadT.Seconds()),
			"functions_encoded":             fl,
			"harnesses":                     harnesses,
			"bounds":                        bounds,
			"samples":                       samples,
			"known_findings_hit":            known,
			"traces_validated_against_impl": countSame(validation),
			"translator_validation":         validation,
			"cross_solver":                  crossSolver,
			"inconclusive":                  inconcl,
			"exhaustive":                    false,
			"checker_cmd":                   "bin/vcheck --tier " + tier + " " + prop,
			"trusted_base":                  []string{"golang.org/x/tools/go/ssa v0.29.0", "z3 5.1.0 (z3-new)", "/verif/engine (forked go/ssa/interp + SMT layer)", "/verif/harness models listed under assumptions"},
		},
		"assumptions": assumptions,
		"wall_s":      round(wall.Seconds()),
		"violations":  nviol,
	}
	b, _ := json.MarshalIndent(ev, "", " ")
	dir := filepath.Join(run.VerifDir(), "evidence")
	os.MkdirAll(dir, 0o755)
	os.WriteFile(filepath.Join(dir, prop+".json"), b, 0o644)
}

func countSame(v []run.ValidationResult) int {
	n := 0
	for _, x := range v {
		if x.Same {
			n++
		}
	}
	return n
}

func round(f float64) float64 { return float64(int(f*100)) / 100 }

func keys(m map[string]bool) []string {
	var out []string
	for k := range m {
		out = append(out, k)
	}
	sort.Strings(out)
	return out
}

func doReplay(path string, verbose bool) int {
	b, err := os.ReadFile(path)
	if err != nil {
		fmt.Fprintln(os.Stderr, err)
		return 2
	}
	var rf ReplayFile
	if err := json.Unmarshal(b, &rf); err != nil {
		fmt.Fprintln(os.Stderr, err)
		return 2
	}
	l, err := run.Load()
	if err != nil {
		fmt.Fprintln(os.Stderr, "ERROR loading:", err)
		return 2
	}
	for _, c := range l.Checks {
		if c.Name != rf.Harness {
			continue
		}
		res, err := run.Replay(l, c, rf.Model, rf.Trail)
		if err != nil {
			fmt.Fprintln(os.Stderr, err)
			return 2
		}
		for _, v := range res.Violations {
			fmt.Printf("REPRODUCED property=%s harness=%s assertion=%s %s\n", rf.Property, rf.Harness, v.ID, v.Detail)
			if v.ID == rf.Assertion {
				return 1
			}
		}
		fmt.Printf("not reproduced: harness=%s abort=%v panic=%q\n", rf.Harness, res.Abort, res.Panic)
		return 0
	}
	fmt.Fprintln(os.Stderr, "harness not found:", rf.Harness)
	return 2
}
